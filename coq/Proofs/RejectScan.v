(* C06 -- rejection lemmas, part 2: the scanner layer and the bridge between the two layers.
   (1) bridge: whatever the text, a scanner ERROR is never swallowed by the parser, and an accepted text has a token stream
       with balanced flow brackets ([run_str] = scanner then parser);
   (2) the repaired classes (/repo c5ad60c, ad74b3e, 57aa316) as positive statements: empty explicit key; the implicit key
       of a flow-sequence pair that spans lines or is longer than 1024 characters ([flow_pair_key_limit_rejected]);
   (3) scanner-layer rejection for ANY scanner state of a stated shape: tab as block indentation, content after a
       document-end marker, a line left of the block indentation inside a flow collection, a quoted scalar that is still
       open at the end of the input;
   (4) a mis-indented block entry / key (scanner half incl. the block nesting limit of /repo 99c201b, site 46; parser half),
       a second root node after a scalar root at text level;
   (5) the recorded witness texts; (6) composition with reachability; (7) a quoted implicit key spanning lines;
   (8) text-level families behind a fixed first part;
   (9) [dispatch] and a flow collection closed by the bracket of the other kind (/repo 88700d3, sites 47 / 48);
   (10) block context: ':' separated from its value by tabs only (site 97; /repo b87c12b removed the test in flow context);
   (11) text level: wrong closers and 256 nested block collections, whatever follows;
   (12) composition one level down: a failing fetch in any round of the iterator's refill loop.
   Nothing here depends on the shared scanner frameworks (ScanWP / ScanSafe / ScanPos / ScanRel); Proofs/RejectReach.v does. *)
From Coq Require Import List NArith ZArith Bool Lia.
Import ListNotations.
Require Import Parser SBase SPrim SDir SScalar SFetch Pipe SInv Grammar C02base C02rest C02tail C02run DocReset RejectProofs.

Arguments N.add : simpl never.
Arguments N.sub : simpl never.
Arguments N.mul : simpl never.
Arguments N.eqb : simpl never.
Arguments N.ltb : simpl never.
Arguments N.leb : simpl never.
Arguments Nat.max : simpl never.

(* ================================================================================================ *)
(* (1) the bridge between the layers                                                                  *)
(* ================================================================================================ *)
Definition scan_fuel (s : list N) : nat := (2 * length s + 10)%nat.
Definition scan_of (s : list N) : list token * scan_end :=
  scan_all str_ops (scan_fuel s) (4 * scan_fuel s + 20) (init_sc {| si_chars := s; si_look := 0 |}) [].

(* [run_str] = the scanner, then the parser on what it delivered (with some parser fuel >= 5; the exact amount is Pipe.v's) *)
Lemma run_str_scan_of s :
  exists pf, (5 <= pf)%nat
             /\ run_str s = parse_all pf (init_parser (fst (scan_of s)) false) (snd (scan_of s)) [].
Proof.
  unfold run_str, scan_of, scan_fuel.
  destruct (scan_all str_ops _ _ _ _) as [toks se]. eexists. split; [|reflexivity]. lia.
Qed.

(* every accepted TEXT has a token stream with balanced, matched flow brackets that ends in StreamEnd *)
Theorem text_accepted_implies_balanced s :
  snd (run_str s) = PDone -> flow_balanced (fst (scan_of s)) [] = true.
Proof. destruct (run_str_scan_of s) as (pf & _ & ->). apply accepted_implies_balanced_proved. Qed.

Lemma flow_balanced_has_stream_end l : forall stk, flow_balanced l stk = true -> exists sp, In (sp, TStreamEnd) l.
Proof.
  induction l as [|[sp tk] r IH]; intros stk H; [discriminate|].
  destruct tk; cbn [flow_balanced] in H;
    try (destruct (IH _ H) as [sp' Hin]; exists sp'; right; exact Hin);
    try (exists sp; left; reflexivity);
    destruct stk as [|[|] stk']; try discriminate; destruct (IH _ H) as [sp' Hin]; exists sp'; right; exact Hin.
Qed.

Open Scope mon_scope.

(* the token that ends the stream sets [stream_end]; afterwards the iterator is exhausted *)
Lemma next_token_stream_end F (s s' : sc strin) t :
  next_token str_ops F s = Ok (Some t, s') -> snd t = TStreamEnd -> sc_stream_end s' = true.
Proof.
  unfold next_token. unfold bind at 1. unfold get at 1.
  destruct (sc_stream_end s); [intros H; inversion H|].
  unfold bind at 1.
  destruct ((if sc_token_available s then ret tt else fetch_more_tokens str_ops F F) s) as [[u s1]|e m|n|]; try discriminate.
  unfold bind at 1. unfold get at 1.
  destruct (sc_tokens s1) as [|t1 r1]; [discriminate|].
  unfold bind at 1. unfold put at 1. unfold bind at 1.
  intros H Ht.
  destruct (snd t1) eqn:E; cbn in H; inversion H; subst; try congruence; reflexivity.
Qed.

Lemma next_token_after_end F (s : sc strin) : sc_stream_end s = true -> next_token str_ops F s = Ok (None, s).
Proof. intros H. unfold next_token. unfold bind at 1. unfold get at 1. rewrite H. reflexivity. Qed.

Lemma tok_is_stream_end_dec (t : token) : {snd t = TStreamEnd} + {snd t <> TStreamEnd}.
Proof. destruct t as [sp tk]; destruct tk; cbn; (left; reflexivity) || (right; discriminate). Qed.

Lemma scan_all_error_no_stream_end F fuel : forall (s : sc strin) acc toks,
  (forall t, In t acc -> snd t <> TStreamEnd) ->
  (exists e m, snd (scan_all str_ops F fuel s acc) = SError e m) \/ (exists n, snd (scan_all str_ops F fuel s acc) = SPanic n) ->
  toks = fst (scan_all str_ops F fuel s acc) ->
  forall t, In t toks -> snd t <> TStreamEnd.
Proof.
  induction fuel as [|fuel IH]; intros s acc toks Hacc Hse Ht.
  - cbn in Hse. destruct Hse as [(e & m & H)|(n & H)]; discriminate.
  - cbn [scan_all] in Hse, Ht.
    destruct (next_token str_ops F s) as [[[t|] s']|e m|n|] eqn:EN.
    + destruct (tok_is_stream_end_dec t) as [HE|HE].
      * exfalso. pose proof (next_token_stream_end F s s' t EN HE) as Hend.
        destruct fuel as [|fuel']; cbn [scan_all] in Hse.
        -- destruct Hse as [(e & m & H)|(n & H)]; discriminate.
        -- rewrite (next_token_after_end F s' Hend) in Hse. destruct Hse as [(e & m & H)|(n & H)]; discriminate.
      * apply (IH s' (t :: acc) toks); [ | exact Hse | exact Ht ].
        intros t0 [<-|Hin]; [exact HE | apply Hacc; exact Hin].
    + cbn in Hse. destruct Hse as [(e & m & H)|(n & H)]; discriminate.
    + subst toks. cbn [fst]. intros t Hin. apply in_rev in Hin. apply Hacc; exact Hin.
    + subst toks. cbn [fst]. intros t Hin. apply in_rev in Hin. apply Hacc; exact Hin.
    + cbn in Hse. destruct Hse as [(e & m & H)|(n & H)]; discriminate.
Qed.

(* A scanner error (or panic) is never swallowed: whatever the text, if the token iterator ends with an error the
   run does not end in PDone.  (The parser could only reach State::End through a StreamEnd token; the iterator
   delivers nothing behind the token that failed.) *)
Theorem scan_error_rejected s :
  (exists e m, snd (scan_of s) = SError e m) \/ (exists n, snd (scan_of s) = SPanic n) ->
  snd (run_str s) <> PDone.
Proof.
  intros HE HD. pose proof (text_accepted_implies_balanced s HD) as HB.
  destruct (flow_balanced_has_stream_end _ _ HB) as [sp Hin].
  unfold scan_of in *.
  refine (scan_all_error_no_stream_end _ _ _ [] _ _ HE eq_refl (sp, TStreamEnd) Hin eq_refl).
  intros t [].
Qed.

(* both facts in one statement about texts: an accepted text scanned without error and has balanced brackets *)
Corollary text_rejected_if_scan_fails_or_unbalanced s :
  (exists e m, snd (scan_of s) = SError e m) \/ (exists n, snd (scan_of s) = SPanic n)
  \/ flow_balanced (fst (scan_of s)) [] = false ->
  snd (run_str s) <> PDone.
Proof.
  intros [H|[H|H]] HD.
  - exact (scan_error_rejected s (or_introl H) HD).
  - exact (scan_error_rejected s (or_intror H) HD).
  - rewrite (text_accepted_implies_balanced s HD) in H. discriminate.
Qed.

(* ================================================================================================ *)
(* (2) the two repaired classes                                                                       *)
(* ================================================================================================ *)
(* /repo c5ad60c: behind an empty explicit key inside a flow sequence the parser emits the empty key and does NOT consume
   the Value / FlowEntry / FlowSequenceEnd token it is looking at *)
Theorem empty_explicit_key_keeps_next_token p sp tk r :
  p_state p = SFlowSequenceEntryMappingKey -> toks_ahead p = (sp, tk) :: r ->
  (tk = TValue \/ tk = TFlowEntry \/ tk = TFlowSequenceEnd) ->
  exists p', state_machine p = Parser.Ok ((empty_scalar, sp), p')
             /\ toks_ahead p' = (sp, tk) :: r /\ p_state p' = SFlowSequenceEntryMappingValue /\ p_states p' = p_states p.
Proof.
  intros HS HT HK. unfold state_machine. rewrite HS. unfold flow_sequence_entry_mapping_key.
  rewrite (peek_norm _ _ _ HT).
  destruct HK as [-> | [-> | ->]]; eexists; (split; [reflexivity|]); repeat split; reflexivity.
Qed.

(* hence "[ ? ] ]": every token stream  ... FlowSequenceStart Key FlowSequenceEnd FlowSequenceEnd ...  with no
   flow collection open in front of it is rejected -- an instance of the global theorem, for any prefix [pre] of
   bracket-neutral tokens and any rest *)
Lemma flow_balanced_neutral_prefix pre : forall l stk,
  Forall (fun t => neutral (snd t) = true) pre -> flow_balanced (pre ++ l) stk = flow_balanced l stk.
Proof.
  induction pre as [|[sp tk] pre IH]; intros l stk HF; [reflexivity|].
  inversion HF as [|x y Hn HF']; subst. cbn [app]. cbn [snd] in Hn.
  rewrite (flow_balanced_neutral sp tk _ stk Hn). apply IH; exact HF'.
Qed.

Theorem stray_closer_after_empty_key_rejected pre sp1 sp2 sp3 sp4 rest keep se fuel :
  Forall (fun t => neutral (snd t) = true) pre ->
  snd (parse_all fuel
         (init_parser (pre ++ (sp1, TFlowSequenceStart) :: (sp2, TKey) :: (sp3, TFlowSequenceEnd) :: (sp4, TFlowSequenceEnd) :: rest) keep)
         se []) <> PDone.
Proof.
  intros HF HD. apply accepted_implies_balanced_proved in HD.
  rewrite (flow_balanced_neutral_prefix pre _ [] HF) in HD. cbn in HD. discriminate.
Qed.

(* /repo ad74b3e: the state of the implicit flow mapping is kept per flow level.  For ANY scanner state: when the ':' of a
   "key: value" pair is reached, the innermost flow level is a flow SEQUENCE that is not inside an explicit "? key" pair
   (top of implicit_flow_mapping_states is Possible or Inside) and the key candidate began on an earlier line, the scan
   fails with site 98 ("illegal placement of ':' indicator") -- whatever flow mappings were opened and closed before. *)
Lemma insert_at_some {A} (x : A) : forall n l, (n <= length l)%nat -> exists l', insert_at n x l = Some l'.
Proof.
  induction n as [|n IH]; intros l H; [eexists; reflexivity|].
  destruct l as [|y r]; [cbn in H; lia|]. cbn [insert_at].
  destruct (IH r) as [l' E]; [cbn in H; lia|]. rewrite E. eexists; reflexivity.
Qed.

Notation chars_of s := (si_chars (sc_in s)).

Lemma bind_Ok' {I A B} (m : @M I A) (f : A -> @M I B) s a s' : m s = Ok (a, s') -> bind m f s = f a s'.
Proof. intros H. unfold bind. rewrite H. reflexivity. Qed.

(* the tab check behind ':' (site 97) only exists in block context (/repo b87c12b) *)
Definition no_tab_behind_colon (s : sc strin) : Prop :=
  sc_flow_level s <> 0%N \/ nth 0 (tl (chars_of s)) 0%N <> 9%N.

(* [fetch_value] up to the insertion of the Key token, for a possible key candidate of a flow-sequence pair *)
Theorem flow_pair_key_limit_rejected F (s : sc strin) k r top rest :
  sc_sks s = k :: r -> sk_possible k = true ->
  sc_ifms s = top :: rest -> (top = ImPossible \/ top = ImInside) ->
  ((m_line (sk_mark k) < m_line (sc_mark s))%N \/ (m_index (sk_mark k) + SIMPLE_KEY_MAX < m_index (sc_mark s))%N) ->
  no_tab_behind_colon s ->
  (sc_tokens_parsed s <= sk_token_number k)%N ->
  (N.to_nat (sk_token_number k - sc_tokens_parsed s) <= length (sc_tokens s))%nat ->
  fetch_value str_ops F s = Err 98 (sc_mark s).
Proof.
  intros Hk Hp Hi Htop Hl Hc Htp Hpos. unfold fetch_value.
  unfold bind at 1. unfold get at 1. rewrite Hk. unfold bind at 1. unfold ret at 1.
  rewrite Hi. cbv zeta.
  assert (Eifm : (match top with ImPossible => true | _ => false end || match top with ImInside => true | _ => false end) = true)
    by (destruct Htop as [->| ->]; reflexivity).
  rewrite Eifm.
  assert (E98 : (m_line (sk_mark k) <? m_line (sc_mark s))%N || (m_index (sk_mark k) + SIMPLE_KEY_MAX <? m_index (sc_mark s))%N = true).
  { destruct Hl as [Hl|Hl]; apply N.ltb_lt in Hl; rewrite Hl; [reflexivity | apply orb_true_r]. }
  rewrite E98. rewrite Hp.
  apply N.ltb_ge in Htp.
  destruct (@insert_at_some token (span_empty (sk_mark k), TKey) _ _ Hpos) as [l' El].
  assert (Ec : forall s1 : sc strin, chars_of s1 = tl (chars_of s) ->
            exists c s2, (if (sc_flow_level s =? 0)%N then look_ch str_ops else ret 0%N) s1 = Ok (c, s2)
                         /\ (c =? 9)%N = false /\ sc_tokens s2 = sc_tokens s1 /\ sc_tokens_parsed s2 = sc_tokens_parsed s1).
  { intros s1 H1. destruct (N.eqb_spec (sc_flow_level s) 0) as [E0|E0].
    - destruct Hc as [Hc|Hc]; [contradiction|].
      eexists _, _. split; [reflexivity|]. cbn [sc_in set_in upd si_chars sc_tokens sc_tokens_parsed]. rewrite H1.
      split; [apply N.eqb_neq; exact Hc | split; reflexivity].
    - eexists _, _. split; [reflexivity|]. repeat split. }
  destruct Htop as [->| ->].
  - unfold bind at 1. unfold modify at 1.
    unfold bind at 1. unfold skip_non_blank at 1, bind at 1, in_skip at 1, modify at 1.
    unfold bind at 1, adv_mark at 1, modify at 1. unfold modify at 1.
    match goal with |- bind _ _ ?st = _ => destruct (Ec st eq_refl) as (c & s2 & E2 & C9 & T2 & P2) end.
    rewrite (bind_Ok' _ _ _ _ _ E2). rewrite C9.
    unfold bind at 1, ret at 1. unfold bind at 1, get at 1.
    rewrite P2. cbn [sc_tokens_parsed set_lws set_flags set_mark set_in upd set_ifms set_struct]. rewrite Htp.
    unfold bind at 1, ret at 1.
    unfold bind at 1. unfold insert_token at 1. rewrite T2.
    cbn [sc_tokens set_lws set_flags set_mark set_in upd set_ifms set_struct]. rewrite El.
    reflexivity.
  - unfold bind at 1. unfold ret at 1.
    unfold bind at 1. unfold skip_non_blank at 1, bind at 1, in_skip at 1, modify at 1.
    unfold bind at 1, adv_mark at 1, modify at 1. unfold modify at 1.
    match goal with |- bind _ _ ?st = _ => destruct (Ec st eq_refl) as (c & s2 & E2 & C9 & T2 & P2) end.
    rewrite (bind_Ok' _ _ _ _ _ E2). rewrite C9.
    unfold bind at 1, ret at 1. unfold bind at 1, get at 1.
    rewrite P2. cbn [sc_tokens_parsed set_lws set_flags set_mark set_in upd set_ifms set_struct]. rewrite Htp.
    unfold bind at 1, ret at 1.
    unfold bind at 1. unfold insert_token at 1. rewrite T2.
    cbn [sc_tokens set_lws set_flags set_mark set_in upd set_ifms set_struct]. rewrite El.
    reflexivity.
Qed.

(* the two instances: the key candidate began on an earlier line (/repo ad74b3e made the test per flow level) ... *)
Theorem multiline_flow_pair_key_rejected F (s : sc strin) k r top rest :
  sc_sks s = k :: r -> sk_possible k = true ->
  sc_ifms s = top :: rest -> (top = ImPossible \/ top = ImInside) ->
  (m_line (sk_mark k) < m_line (sc_mark s))%N ->
  no_tab_behind_colon s ->
  (sc_tokens_parsed s <= sk_token_number k)%N ->
  (N.to_nat (sk_token_number k - sc_tokens_parsed s) <= length (sc_tokens s))%nat ->
  fetch_value str_ops F s = Err 98 (sc_mark s).
Proof. intros Hk Hp Hi Htop Hl. apply (flow_pair_key_limit_rejected F s k r top rest Hk Hp Hi Htop). left; exact Hl. Qed.

(* ... or more than 1024 characters before the ':' (/repo 57aa316; before, "[ kkk...(1025): v ]" was accepted) *)
Theorem long_flow_pair_key_rejected F (s : sc strin) k r top rest :
  sc_sks s = k :: r -> sk_possible k = true ->
  sc_ifms s = top :: rest -> (top = ImPossible \/ top = ImInside) ->
  (m_index (sk_mark k) + 1024 < m_index (sc_mark s))%N ->
  no_tab_behind_colon s ->
  (sc_tokens_parsed s <= sk_token_number k)%N ->
  (N.to_nat (sk_token_number k - sc_tokens_parsed s) <= length (sc_tokens s))%nat ->
  fetch_value str_ops F s = Err 98 (sc_mark s).
Proof. intros Hk Hp Hi Htop Hl. apply (flow_pair_key_limit_rejected F s k r top rest Hk Hp Hi Htop). right; exact Hl. Qed.

(* ================================================================================================ *)
(* (3) scanner layer, for any scanner state of the stated shape                                       *)
(* ================================================================================================ *)
Open Scope N_scope.

Lemma bind_Ok {I A B} (m : @M I A) (f : A -> @M I B) s a s' : m s = Ok (a, s') -> bind m f s = f a s'.
Proof. intros H. unfold bind. rewrite H. reflexivity. Qed.
Lemma bind_Err {I A B} (m : @M I A) (f : A -> @M I B) s e k : m s = Err e k -> bind m f s = Err e k.
Proof. intros H. unfold bind. rewrite H. reflexivity. Qed.

(* the same scanner state with other remaining input *)
Definition with_chars (s : sc strin) (l : list N) (lk : nat) : sc strin := set_in {| si_chars := l; si_look := lk |} s.

Definition blank_run (st : skiptabs) (ws : list N) : Prop :=
  Forall (fun x => x = 32 \/ (x = 9 /\ st = SkipYes)) ws.
(* a character at which [skip_ws_to_eol] stops without looking further: no space, no (skippable) tab, no '#' *)
Definition stops_ws (st : skiptabs) (c : N) : Prop := c <> 32 /\ (c = 9 -> st = SkipNo) /\ c <> 35.

Lemma in_skip_ws_run ws : forall fuel st tab wsf n (s : sc strin) c rest,
  chars_of s = ws ++ c :: rest -> blank_run st ws -> stops_ws st c -> (length ws < fuel)%nat ->
  exists lk tw, in_skip_ws_to_eol str_ops fuel st tab wsf n s
                = Ok ((n + N.of_nat (length ws), Some tw), with_chars s (c :: rest) lk).
Proof.
  induction ws as [|w ws IH]; intros fuel st tab wsf n s c rest HC HB (Hc1 & Hc2 & Hc3) HL.
  - destruct fuel as [|fuel]; [cbn in HL; lia|]. cbn [app] in HC.
    cbn [in_skip_ws_to_eol]. unfold look_ch, look, peek, peekn, bind. cbn. rewrite HC. cbn.
    apply N.eqb_neq in Hc1, Hc3. rewrite Hc1, Hc3.
    assert (E9 : ((c =? 9) && match st with SkipYes => true | SkipNo => false end) = false).
    { destruct (N.eqb_spec c 9) as [E|E]; [rewrite (Hc2 E); reflexivity | reflexivity]. }
    rewrite E9. unfold ret, with_chars. do 2 eexists. rewrite N.add_0_r. reflexivity.
  - destruct fuel as [|fuel]; [cbn in HL; lia|]. cbn [app] in HC.
    inversion HB as [|x y Hw HB']; subst.
    cbn [length]. rewrite Nat2N.inj_succ.
    set (s1 := set_in {| si_chars := ws ++ c :: rest; si_look := Nat.max (si_look (sc_in s)) 1 |} s).
    assert (HC1 : chars_of s1 = ws ++ c :: rest) by reflexivity.
    assert (HL1 : (length ws < fuel)%nat) by (cbn in HL; lia).
    cbn [in_skip_ws_to_eol]. unfold look_ch, look, peek, peekn, bind at 1. cbn -[N.of_nat]. rewrite HC. cbn -[N.of_nat].
    destruct Hw as [->|[-> ->]].
    + change (32 =? 32) with true. cbn beta iota.
      destruct (IH fuel st tab true (n + 1) s1 c rest HC1 HB' (conj Hc1 (conj Hc2 Hc3)) HL1) as (lk & tw & E).
      unfold bind, in_skip, modify. cbn -[N.of_nat].
      match goal with |- context [in_skip_ws_to_eol str_ops fuel st tab true (n + 1) ?x] => change x with s1 end.
      rewrite E. exists lk, tw. unfold with_chars, s1. f_equal. f_equal. f_equal. lia.
    + change (9 =? 32) with false. change (9 =? 9) with true. cbn beta iota.
      destruct (IH fuel SkipYes true wsf (n + 1) s1 c rest HC1 HB' (conj Hc1 (conj Hc2 Hc3)) HL1) as (lk & tw & E).
      unfold bind, in_skip, modify. cbn -[N.of_nat].
      match goal with |- context [in_skip_ws_to_eol str_ops fuel SkipYes true wsf (n + 1) ?x] => change x with s1 end.
      rewrite E. exists lk, tw. unfold with_chars, s1. f_equal. f_equal. f_equal. lia.
Qed.

Lemma skip_ws_to_eol_run ws fuel st (s : sc strin) c rest :
  chars_of s = ws ++ c :: rest -> blank_run st ws -> stops_ws st c -> (length ws < fuel)%nat ->
  exists lk tw, skip_ws_to_eol str_ops fuel st s
                = Ok (tw, set_mark (adv (N.of_nat (length ws)) (sc_mark s)) (with_chars s (c :: rest) lk)).
Proof.
  intros HC HB HS HL.
  destruct (in_skip_ws_run ws fuel st false false 0 s c rest HC HB HS HL) as (lk & tw & E).
  unfold skip_ws_to_eol. rewrite (bind_Ok _ _ _ _ _ E). cbn [fst snd]. rewrite N.add_0_l.
  exists lk, tw. reflexivity.
Qed.

(* ---- tab as block indentation (scanner.rs skip_to_next_token: "tabs disallowed within this context (block indentation)")
        ANY state inside a block collection, at the start of a line left of the current indentation, whose next character
        is a tab, followed by any run of blanks and then by content (anything but a line break, the end of input or a
        comment): error site 41 at that content character ---- *)
Definition is_content_start (c : N) : Prop := c <> 32 /\ c <> 9 /\ c <> 35 /\ is_breakz c = false.

Theorem tab_indentation_rejected F (s : sc strin) ws c rest :
  chars_of s = 9 :: ws ++ c :: rest -> blank_run SkipYes ws -> is_content_start c ->
  sc_indents s <> [] -> sc_lws s = true -> (Z.of_N (m_col (sc_mark s)) < sc_indent s)%Z ->
  (S (length ws) < F)%nat ->
  skip_to_next_token str_ops F s = Err 41 (adv (N.of_nat (S (length ws))) (sc_mark s)).
Proof.
  intros HC HB (C1 & C2 & C3 & C4) HI HW HL HF.
  destruct F as [|F']; [lia|].
  cbn [skip_to_next_token].
  unfold look_ch, look at 1, peek, peekn, bind at 1, bind at 1. cbn [lookahead peek_nth str_ops].
  cbn [sc_in set_in upd si_chars]. rewrite HC. cbn [nth].
  unfold bind at 1, get at 1. unfold bind at 1, is_within_block at 1, gets at 1.
  cbn [sc_indents sc_lws sc_mark sc_indent set_in upd].
  change (9 =? 9) with true. rewrite HW. apply Z.ltb_lt in HL. rewrite HL.
  destruct (sc_indents s) as [|i0 inds] eqn:EI; [congruence|]. cbn [andb].
  set (s1 := set_in {| si_chars := 9 :: ws ++ c :: rest; si_look := Nat.max (si_look (sc_in s)) 1 |} s).
  assert (HC1 : chars_of s1 = (9 :: ws) ++ c :: rest) by reflexivity.
  assert (HB1 : blank_run SkipYes (9 :: ws)) by (constructor; [right; split; reflexivity | exact HB]).
  assert (HS1 : stops_ws SkipYes c) by (repeat split; [exact C1 | intros E; contradiction | exact C3]).
  assert (HL1 : (length (9%N :: ws) < S F')%nat) by (cbn [length]; lia).
  destruct (skip_ws_to_eol_run (9 :: ws) (S F') SkipYes s1 c rest HC1 HB1 HS1 HL1) as (lk & tw & E).
  rewrite (bind_Ok _ _ _ _ _ E).
  unfold next_is, peek, peekn, bind at 1, bind at 1. cbn [peek_nth str_ops sc_in set_mark with_chars set_in upd si_chars nth].
  unfold ret at 1. rewrite C4. unfold bind, mark, gets, fail. cbn [sc_mark set_mark upd with_chars set_in].
  reflexivity.
Qed.

(* [fetch_next_token] behind its first two steps: the lookahead only touches the lookahead counter *)
Definition looked (s : sc strin) (n : nat) : sc strin := with_chars s (chars_of s) (Nat.max (si_look (sc_in s)) n).

(* everything [fetch_next_token] does behind skip_to_next_token *)
Definition fetch_rest (F : nat) : @M strin unit :=
  stale_simple_keys ;;; m <- mark ;; unroll_indent (Z.of_N (m_col m)) ;;;
     look str_ops 4 ;;; z <- next_is str_ops is_z ;;
     if z then fetch_stream_end else
     s <- get ;;
     c0 <- peek str_ops ;;
     dstart <- (if m_col (sc_mark s) =? 0 then if c0 =? 37 then ret false else next_is_document_start str_ops else ret false) ;;
     dend <- (if (m_col (sc_mark s) =? 0) && negb (c0 =? 37) && negb dstart then next_is_document_end str_ops else ret false) ;;
     if (m_col (sc_mark s) =? 0) && (c0 =? 37) then fetch_directive str_ops F
     else if dstart then fetch_document_indicator str_ops TDocumentStart
     else if dend then
       fetch_document_indicator str_ops TDocumentEnd ;;;
       skip_ws_to_eol str_ops F SkipYes ;;;
       b <- next_is str_ops is_breakz ;;
       if b then ret tt else m <- mark ;; fail 101 m
     else
     if (Z.of_N (m_col (sc_mark s)) <? sc_indent s)%Z then fail 102 (sc_mark s) else
     c <- peek str_ops ;; nc <- peekn str_ops 1 ;;
     let fl := 0 <? sc_flow_level s in
     let bz := is_blank_or_breakz nc in
     if c =? 91 then fetch_flow_collection_start str_ops F true
     else if c =? 123 then fetch_flow_collection_start str_ops F false
     else if c =? 93 then fetch_flow_collection_end str_ops F true
     else if c =? 125 then fetch_flow_collection_end str_ops F false
     else if c =? 44 then fetch_flow_entry str_ops F
     else if (c =? 45) && bz then fetch_block_entry str_ops F
     else if (c =? 63) && bz then fetch_key str_ops F
     else if (c =? 58) && bz then fetch_value str_ops F
     else if (c =? 58) && fl && (is_flow nc || (m_index (sc_mark s) =? sc_adjacent s)) then fetch_flow_value str_ops F
     else if c =? 42 then fetch_anchor str_ops F true
     else if c =? 38 then fetch_anchor str_ops F false
     else if c =? 33 then fetch_tag str_ops F
     else if (c =? 124) && negb fl then fetch_block_scalar str_ops F true
     else if (c =? 62) && negb fl then fetch_block_scalar str_ops F false
     else if c =? 39 then fetch_flow_scalar str_ops F true
     else if c =? 34 then fetch_flow_scalar str_ops F false
     else if (c =? 45) && negb bz then fetch_plain_scalar str_ops F
     else if ((c =? 58) || (c =? 63)) && negb bz && negb fl then fetch_plain_scalar str_ops F
     else if (c =? 37) || (c =? 64) || (c =? 96) then fail 103 (sc_mark s)
     else fetch_plain_scalar str_ops F.

Lemma fetch_next_token_started F (s : sc strin) :
  sc_stream_start s = true ->
  fetch_next_token str_ops F s = (skip_to_next_token str_ops F ;;; fetch_rest F) (looked s 1).
Proof.
  intros HS. unfold fetch_next_token, fetch_rest.
  unfold bind at 1. unfold look at 1. cbn [lookahead str_ops].
  unfold bind at 1. unfold get at 1. cbn [sc_stream_start set_in upd]. rewrite HS. cbn [negb].
  reflexivity.
Qed.

Theorem tab_indentation_fetch_rejected F (s : sc strin) ws c rest :
  sc_stream_start s = true ->
  chars_of s = 9 :: ws ++ c :: rest -> blank_run SkipYes ws -> is_content_start c ->
  sc_indents s <> [] -> sc_lws s = true -> (Z.of_N (m_col (sc_mark s)) < sc_indent s)%Z ->
  (S (length ws) < F)%nat ->
  fetch_next_token str_ops F s = Err 41 (adv (N.of_nat (S (length ws))) (sc_mark s)).
Proof.
  intros HS HC HB Hc HI HW HL HF. rewrite (fetch_next_token_started F s HS).
  apply bind_Err.
  exact (tab_indentation_rejected F (looked s 1) ws c rest HC HB Hc HI HW HL HF).
Qed.

(* from [fetch_next_token] to the token iterator: with an empty queue the next call of [next_token] fetches *)
Lemma next_token_fetch_err F (s : sc strin) e m :
  sc_stream_end s = false -> sc_token_available s = false -> sc_tokens s = [] -> (0 < F)%nat ->
  fetch_next_token str_ops F s = Err e m -> next_token str_ops F s = Err e m.
Proof.
  intros HE HA HT HF H. unfold next_token.
  unfold bind at 1. unfold get at 1. rewrite HE, HA.
  apply bind_Err. destruct F as [|F']; [lia|].
  cbn [fetch_more_tokens]. unfold bind at 1. unfold get at 1. rewrite HT.
  unfold bind at 1. unfold ret at 1. apply bind_Err. exact H.
Qed.

(* ---- the common first steps of [fetch_next_token] when the scanner already stands on a token character ---- *)
Definition not_skipped (c : N) : Prop := c <> 9 /\ c <> 32 /\ c <> 10 /\ c <> 13 /\ c <> 35.

Lemma skip_to_next_token_stop F (s : sc strin) :
  (0 < F)%nat -> not_skipped (nth 0 (chars_of s) 0) -> skip_to_next_token str_ops F s = Ok (tt, looked s 1).
Proof.
  intros HF (A & B & C & D & E). destruct F as [|F']; [lia|].
  cbn [skip_to_next_token].
  unfold look_ch, look at 1, peek, peekn, bind at 1, bind at 1. cbn [lookahead peek_nth str_ops].
  cbn [sc_in set_in upd si_chars].
  unfold bind at 1, get at 1. unfold bind at 1, is_within_block at 1, gets at 1.
  apply N.eqb_neq in A, B, C, D, E. unfold chr in *. rewrite A, B, C, D, E. cbn [andb orb].
  reflexivity.
Qed.

Definition invalidate (k : simple_key) : simple_key :=
  {| sk_possible := false; sk_required := sk_required k; sk_token_number := sk_token_number k; sk_mark := sk_mark k |}.

Lemma map_invalidate_Forall2 (f : simple_key -> bool) l :
  Forall2 (fun k k' => k' = k \/ k' = invalidate k) l (map (fun k => if f k then invalidate k else k) l).
Proof.
  induction l as [|k r IH]; [constructor|]. cbn [map]. constructor; [|exact IH].
  destruct (f k); [right; reflexivity | left; reflexivity].
Qed.

(* [stale_simple_keys] succeeds when no stale key is required -- in particular in flow context, or when no key is required
   at all; only [sc_sks] changes, and only by invalidation *)
Lemma stale_simple_keys_ok (s : sc strin) :
  sc_flow_level s <> 0 \/ (forall k, In k (sc_sks s) -> sk_required k = false) ->
  exists sks', stale_simple_keys s = Ok (tt, set_sks sks' s)
               /\ Forall2 (fun k k' => k' = k \/ k' = invalidate k) (sc_sks s) sks'.
Proof.
  intros H.
  set (stale := fun k : simple_key => sk_possible k && (sc_flow_level s =? 0)
                 && ((m_line (sk_mark k) <? m_line (sc_mark s)) || (m_index (sk_mark k) + SIMPLE_KEY_MAX <? m_index (sc_mark s)))).
  assert (E : existsb (fun k => stale k && sk_required k) (sc_sks s) = false).
  { apply not_true_is_false. intros HE. apply existsb_exists in HE. destruct HE as (k & Hin & Hk).
    apply andb_prop in Hk. destruct Hk as [Hs Hr]. unfold stale in Hs.
    destruct H as [H|H].
    - apply N.eqb_neq in H. rewrite H in Hs. rewrite andb_false_r in Hs. discriminate.
    - rewrite (H k Hin) in Hr. discriminate. }
  exists (map (fun k => if stale k then invalidate k else k) (sc_sks s)). split.
  - unfold stale_simple_keys. unfold bind at 1. unfold get at 1.
    change (existsb _ (sc_sks s)) with (existsb (fun k => stale k && sk_required k) (sc_sks s)). rewrite E. reflexivity.
  - apply map_invalidate_Forall2.
Qed.

(* ---- a line that starts left of the block indentation while a flow collection is open ("invalid indentation"):
        ANY state in flow context whose next character starts a token, in a column smaller than the indentation of the
        enclosing block collection (not "---" / "..." / "%" at column 0, which are treated earlier): site 102 ---- *)
Theorem flow_line_left_of_block_indentation_rejected F (s : sc strin) :
  let c := nth 0 (chars_of s) 0 in
  sc_stream_start s = true -> (0 < F)%nat ->
  sc_flow_level s <> 0 ->
  not_skipped c -> c <> 0 ->
  (m_col (sc_mark s) <> 0 \/ (c <> 37 /\ c <> 45 /\ c <> 46)) ->
  (Z.of_N (m_col (sc_mark s)) < sc_indent s)%Z ->
  fetch_next_token str_ops F s = Err 102 (sc_mark s).
Proof.
  intros c HS HF HFL HN HZ HD HL. subst c. rewrite (fetch_next_token_started F s HS).
  rewrite (bind_Ok _ _ _ _ _ (skip_to_next_token_stop F (looked s 1) HF HN)). unfold fetch_rest.
  destruct (stale_simple_keys_ok (looked (looked s 1) 1) (or_introl HFL)) as (sks' & E & _).
  rewrite (bind_Ok _ _ _ _ _ E).
  unfold bind at 1. unfold mark at 1, gets at 1.
  unfold bind at 1. unfold unroll_indent at 1. unfold bind at 1. unfold get at 1.
  cbn [sc_flow_level set_sks set_struct looked with_chars set_in upd].
  assert (HFL' : (0 <? sc_flow_level s) = true) by (apply N.ltb_lt; lia).
  rewrite HFL'. unfold ret at 1.
  unfold bind at 1. unfold look at 1. cbn [lookahead str_ops sc_in set_sks set_struct looked with_chars set_in upd si_chars si_look].
  unfold bind at 1. unfold next_is at 1, bind at 1, peek at 1, peekn at 1. cbn [peek_nth str_ops sc_in set_in upd si_chars].
  unfold ret at 1. unfold is_z. apply N.eqb_neq in HZ. unfold chr in *. rewrite HZ.
  unfold bind at 1. unfold get at 1.
  unfold bind at 1. unfold peek at 1, peekn at 1. cbn [peek_nth str_ops sc_in set_in upd si_chars sc_mark set_sks set_struct looked with_chars].
  apply Z.ltb_lt in HL. unfold chr in *.
  destruct HD as [HD|(D1 & D2 & D3)].
  - apply N.eqb_neq in HD. rewrite HD. cbn [andb]. unfold bind at 1, ret at 1. unfold bind at 1, ret at 1.
    cbn [sc_indent set_in upd set_sks set_struct looked with_chars]. rewrite HL. reflexivity.
  - apply N.eqb_neq in D1, D2, D3. rewrite D1. cbn [negb andb].
    destruct (m_col (sc_mark s) =? 0) eqn:EC.
    + cbn [andb].
      assert (LB4 : forall a, Nat.ltb (Nat.max a 4) 4 = false) by (intros a; apply Nat.ltb_ge; lia).
      assert (LB3 : forall a, Nat.ltb (Nat.max a 4) 3 = false) by (intros a; apply Nat.ltb_ge; lia).
      unfold bind at 1. unfold next_is_document_start at 1, bind at 1, assert_buflen at 1. cbn [buflen str_ops sc_in set_in upd si_look].
      rewrite LB4. unfold bind at 1. unfold next_3_are at 1, bind at 1, assert_buflen at 1. cbn [buflen str_ops sc_in set_in upd si_look].
      rewrite LB3. unfold bind at 1, peek at 1, peekn at 1. cbn [peek_nth str_ops sc_in set_in upd si_chars].
      unfold bind at 1, peekn at 1. cbn [peek_nth str_ops sc_in set_in upd si_chars].
      unfold bind at 1, peekn at 1. cbn [peek_nth str_ops sc_in set_in upd si_chars].
      unfold ret at 1. unfold chr in *. rewrite D2. cbn [andb]. unfold ret at 1. cbn [negb].
      unfold bind at 1. unfold next_is_document_end at 1, bind at 1, assert_buflen at 1. cbn [buflen str_ops sc_in set_in upd si_look].
      rewrite LB4. unfold bind at 1. unfold next_3_are at 1, bind at 1, assert_buflen at 1. cbn [buflen str_ops sc_in set_in upd si_look].
      rewrite LB3. unfold bind at 1, peek at 1, peekn at 1. cbn [peek_nth str_ops sc_in set_in upd si_chars].
      unfold bind at 1, peekn at 1. cbn [peek_nth str_ops sc_in set_in upd si_chars].
      unfold bind at 1, peekn at 1. cbn [peek_nth str_ops sc_in set_in upd si_chars].
      unfold ret at 1. unfold chr in *. rewrite D3. cbn [andb]. unfold ret at 1.
      cbn [sc_indent set_in upd set_sks set_struct looked with_chars]. rewrite HL. reflexivity.
    + cbn [andb]. unfold bind at 1, ret at 1. unfold bind at 1, ret at 1.
      cbn [sc_indent set_in upd set_sks set_struct looked with_chars]. rewrite HL. reflexivity.
Qed.

(* ---- unrolling the indentation stack never fails on a well-formed stack (SInv.inv2: strictly increasing, bottom -1);
        it only touches the token queue and the indentation stack ---- *)
Definition same_but_block (t t' : sc strin) : Prop :=
  sc_in t' = sc_in t /\ sc_mark t' = sc_mark t /\ sc_sks t' = sc_sks t /\ sc_flow_level t' = sc_flow_level t
  /\ sc_ifms t' = sc_ifms t.

Lemma same_but_block_refl t : same_but_block t t.
Proof. repeat split. Qed.
Lemma same_but_block_trans a b c : same_but_block a b -> same_but_block b c -> same_but_block a c.
Proof. intros (A1 & A2 & A3 & A4 & A5) (B1 & B2 & B3 & B4 & B5). repeat split; congruence. Qed.

Lemma sorted_from_bottom l : forall top, sorted_from top l = true -> (-1 <= top)%Z.
Proof.
  induction l as [|i r IH]; intros top H; cbn [sorted_from] in H.
  - apply Z.eqb_eq in H. lia.
  - apply andb_prop in H. destruct H as [A B]. apply Z.ltb_lt in A. specialize (IH _ B). lia.
Qed.

Lemma unroll_go_ok col : (-1 <= col)%Z -> forall inds (t : sc strin) fuel,
  sc_indents t = inds -> sorted_from (sc_indent t) inds = true -> (length inds < fuel)%nat ->
  exists t', unroll_indent_go fuel col t = Ok (tt, t') /\ same_but_block t t'
             /\ sorted_from (sc_indent t') (sc_indents t') = true.
Proof.
  intros Hcol. induction inds as [|i r IH]; intros t fuel HI HS HL.
  - destruct fuel as [|fuel]; [cbn in HL; lia|]. cbn [unroll_indent_go].
    unfold bind at 1. unfold get at 1. cbn [sorted_from] in HS. apply Z.eqb_eq in HS. rewrite HS.
    assert (E : (col <? -1)%Z = false) by (apply Z.ltb_ge; lia). rewrite E.
    exists t. split; [reflexivity|]. split; [apply same_but_block_refl|]. rewrite HI, HS. reflexivity.
  - destruct fuel as [|fuel]; [cbn in HL; lia|]. cbn [unroll_indent_go].
    unfold bind at 1. unfold get at 1.
    destruct (col <? sc_indent t)%Z eqn:EC.
    + rewrite HI. cbn [sorted_from] in HS. apply andb_prop in HS. destruct HS as [_ HS].
      unfold bind at 1. unfold put at 1. unfold bind at 1.
      set (t0 := set_indent (in_indent i) r t).
      assert (H1 : exists t1, (if in_needs_block_end i then push_tok (span_empty (sc_mark t), TBlockEnd) else ret tt) t0 = Ok (tt, t1)
                              /\ same_but_block t t1 /\ sc_indents t1 = r /\ sc_indent t1 = in_indent i).
      { destruct (in_needs_block_end i); eexists; (split; [reflexivity|]); repeat split. }
      destruct H1 as (t1 & E1 & SB1 & I1 & I2). rewrite E1.
      destruct (IH t1 fuel I1 ltac:(rewrite I2; exact HS) ltac:(cbn in HL; lia)) as (t' & E' & SB' & S').
      exists t'. split; [exact E'|]. split; [exact (same_but_block_trans _ _ _ SB1 SB')|exact S'].
    + exists t. split; [reflexivity|]. split; [apply same_but_block_refl|]. rewrite HI. exact HS.
Qed.

Lemma unroll_indent_ok col (t : sc strin) :
  (-1 <= col)%Z -> sorted_from (sc_indent t) (sc_indents t) = true ->
  exists t', unroll_indent col t = Ok (tt, t') /\ same_but_block t t'
             /\ sorted_from (sc_indent t') (sc_indents t') = true.
Proof.
  intros Hc HS. unfold unroll_indent. unfold bind at 1. unfold get at 1.
  destruct (0 <? sc_flow_level t).
  - exists t. split; [reflexivity|]. split; [apply same_but_block_refl|exact HS].
  - apply (unroll_go_ok col Hc (sc_indents t) t _ eq_refl HS). lia.
Qed.

Lemma fetch_document_indicator_ok tk (t : sc strin) k r :
  sorted_from (sc_indent t) (sc_indents t) = true ->
  sc_sks t = k :: r -> sk_required k = false ->
  exists t', fetch_document_indicator str_ops tk t = Ok (tt, t')
             /\ chars_of t' = skipn 3 (chars_of t) /\ sc_mark t' = adv 3 (sc_mark t).
Proof.
  intros HS HK HR. unfold fetch_document_indicator.
  destruct (unroll_indent_ok (-1) t ltac:(lia) HS) as (t1 & E1 & (A1 & A2 & A3 & A4) & _).
  rewrite (bind_Ok _ _ _ _ _ E1).
  unfold bind at 1. unfold remove_simple_key at 1. unfold bind at 1. unfold get at 1.
  rewrite A3, HK, HR, andb_false_r. unfold put at 1.
  unfold bind at 1. unfold disallow_simple_key at 1, modify at 1.
  unfold bind at 1. unfold mark at 1, gets at 1.
  unfold bind at 1. unfold skip_n_non_blank at 1.
  unfold bind at 1. unfold in_skip_n at 1. cbn [skip_n str_ops].
  unfold bind at 1. unfold adv_mark at 1, modify at 1. unfold modify at 1.
  unfold bind at 1. unfold mark at 1, gets at 1. unfold push_tok, modify.
  eexists. split; [reflexivity|]. cbn. rewrite A1, A2. split; reflexivity.
Qed.

(* ---- content after a document-end marker (scanner.rs fetch_next_token: "invalid content after document end marker"):
        ANY state at column 0 whose input continues with "..." , at least one blank, any further blanks and then content
        (not a comment, not a line break, not the end of input); the indentation stack is well-formed and no pending
        simple key is required: error site 101 at the content character ---- *)
Theorem content_after_document_end_rejected F (s : sc strin) b ws c rest k0 r0 :
  sc_stream_start s = true ->
  chars_of s = 46 :: 46 :: 46 :: b :: ws ++ c :: rest -> (b = 32 \/ b = 9) -> blank_run SkipYes ws -> is_content_start c ->
  m_col (sc_mark s) = 0 ->
  sorted_from (sc_indent s) (sc_indents s) = true ->
  sc_sks s = k0 :: r0 -> (forall k, In k (sc_sks s) -> sk_required k = false) ->
  (S (length ws) < F)%nat ->
  fetch_next_token str_ops F s = Err 101 (adv (N.of_nat (S (length ws))) (adv 3 (sc_mark s))).
Proof.
  intros HSS HC Hb HB (C1 & C2 & C3 & C4) Hcol HS HK HR HF.
  rewrite (fetch_next_token_started F s HSS).
  assert (HN : not_skipped (nth 0 (chars_of (looked s 1)) 0)).
  { cbn [looked with_chars set_in upd sc_in si_chars]. rewrite HC. cbn [nth]. repeat split; discriminate. }
  rewrite (bind_Ok _ _ _ _ _ (skip_to_next_token_stop F (looked s 1) ltac:(lia) HN)). unfold fetch_rest.
  set (s1 := looked (looked s 1) 1).
  destruct (stale_simple_keys_ok s1 (or_intror HR)) as (sks' & E & HF2).
  rewrite (bind_Ok _ _ _ _ _ E).
  set (s2 := set_sks sks' s1).
  unfold bind at 1. unfold mark at 1, gets at 1.
  assert (HS2 : sorted_from (sc_indent s2) (sc_indents s2) = true) by exact HS.
  destruct (unroll_indent_ok (Z.of_N (m_col (sc_mark s2))) s2 ltac:(lia) HS2) as (s3 & E3 & (A1 & A2 & A3 & A4) & HS3).
  rewrite (bind_Ok _ _ _ _ _ E3).
  assert (HC3 : chars_of s3 = 46 :: 46 :: 46 :: b :: ws ++ c :: rest) by (rewrite A1; exact HC).
  assert (HM3 : sc_mark s3 = sc_mark s) by (rewrite A2; reflexivity).
  assert (HK3 : exists k' r', sc_sks s3 = k' :: r' /\ sk_required k' = false).
  { rewrite A3. change (sc_sks s2) with sks'. change (sc_sks s1) with (sc_sks s) in HF2. rewrite HK in HF2.
    inversion HF2 as [|x y l l' Hxy Hl]; subst. exists y, l'. split; [reflexivity|].
    assert (Hk0 : sk_required k0 = false) by (apply HR; rewrite HK; left; reflexivity).
    destruct Hxy as [->| ->]; exact Hk0. }
  destruct HK3 as (k' & r' & HK3 & HR3).
  (* look 4, end of input? *)
  unfold bind at 1. unfold look at 1. cbn [lookahead str_ops].
  set (s4 := set_in {| si_chars := chars_of s3; si_look := Nat.max (si_look (sc_in s3)) 4 |} s3).
  assert (HC4 : chars_of s4 = 46 :: 46 :: 46 :: b :: ws ++ c :: rest) by exact HC3.
  unfold bind at 1. unfold next_is at 1, bind at 1, peek at 1, peekn at 1. cbn [peek_nth str_ops]. rewrite HC4. cbn [nth].
  unfold ret at 1. change (is_z 46) with false. cbn iota.
  unfold bind at 1. unfold get at 1.
  unfold bind at 1. unfold peek at 1, peekn at 1. cbn [peek_nth str_ops]. rewrite HC4. cbn [nth].
  assert (HM4 : m_col (sc_mark s4) =? 0 = true) by (change (sc_mark s4) with (sc_mark s3); rewrite HM3, Hcol; reflexivity).
  rewrite HM4. change (46 =? 37) with false. cbn [andb negb].
  assert (LB4 : Nat.ltb (buflen str_ops (sc_in s4)) 4 = false) by (apply Nat.ltb_ge; cbn; lia).
  assert (LB3 : Nat.ltb (buflen str_ops (sc_in s4)) 3 = false) by (apply Nat.ltb_ge; cbn; lia).
  assert (Hbz : is_blank_or_breakz b = true) by (destruct Hb as [->| ->]; reflexivity).
  assert (DS : next_is_document_start str_ops s4 = Ok (false, s4)).
  { unfold next_is_document_start, bind at 1, assert_buflen at 1. rewrite LB4.
    unfold bind at 1. unfold next_3_are at 1, bind at 1, assert_buflen at 1. rewrite LB3.
    unfold bind, peek, peekn. cbn [peek_nth str_ops]. rewrite HC4. reflexivity. }
  assert (DE : next_is_document_end str_ops s4 = Ok (true, s4)).
  { unfold next_is_document_end, bind at 1, assert_buflen at 1. rewrite LB4.
    unfold bind at 1. unfold next_3_are at 1, bind at 1, assert_buflen at 1. rewrite LB3.
    unfold bind, peek, peekn. cbn [peek_nth str_ops]. rewrite HC4. cbn [nth]. unfold ret.
    change ((46 =? 46) && (46 =? 46) && (46 =? 46)) with true. cbn beta iota. rewrite HC4. cbn [nth]. rewrite Hbz. reflexivity. }
  rewrite (bind_Ok _ _ _ _ _ DS). cbn [negb]. rewrite (bind_Ok _ _ _ _ _ DE). cbn iota.
  destruct (fetch_document_indicator_ok TDocumentEnd s4 k' r' HS3 HK3 HR3) as (s5 & E5 & HC5 & HM5).
  rewrite (bind_Ok _ _ _ _ _ E5).
  rewrite HC4 in HC5. cbn [skipn] in HC5.
  assert (HC5' : chars_of s5 = (b :: ws) ++ c :: rest) by exact HC5.
  assert (HB5 : blank_run SkipYes (b :: ws)).
  { constructor; [|exact HB]. destruct Hb as [->| ->]; [left; reflexivity | right; split; reflexivity]. }
  assert (HSt : stops_ws SkipYes c) by (repeat split; [exact C1 | intros E9; contradiction | exact C3]).
  assert (HL5 : (length (b :: ws) < F)%nat) by (cbn [length]; lia).
  destruct (skip_ws_to_eol_run (b :: ws) F SkipYes s5 c rest HC5' HB5 HSt HL5) as (lk & tw & E6).
  rewrite (bind_Ok _ _ _ _ _ E6).
  unfold next_is, peek, peekn, bind at 1, bind at 1. cbn [peek_nth str_ops sc_in set_mark with_chars set_in upd si_chars nth].
  unfold ret at 1. rewrite C4. unfold bind, mark, gets, fail. cbn [sc_mark set_mark upd with_chars set_in].
  rewrite HM5. change (sc_mark s4) with (sc_mark s3). rewrite HM3. reflexivity.
Qed.

(* ================================================================================================ *)
(* a quoted scalar that is still open at the end of the input                                         *)
(* ================================================================================================ *)
Definition errs {A} (o : outcome A) : Prop := exists e m, o = Err e m.

Lemma errs_bind {I A B} (m : @M I A) (f : A -> @M I B) s : errs (m s) -> errs (bind m f s).
Proof. intros (e & k & H). exists e, k. apply bind_Err. exact H. Qed.
Lemma errs_Err {A} e m : errs (@Err A e m).
Proof. exists e, m. reflexivity. Qed.

Lemma In_skipn {A} (x : A) k : forall l, In x (skipn k l) -> In x l.
Proof.
  induction k as [|k IH]; intros l H; [exact H|]. destruct l as [|y r]; [exact H|]. right. apply IH. exact H.
Qed.
Lemma skipn_skipn' {A} a : forall b (l : list A), skipn a (skipn b l) = skipn (b + a) l.
Proof.
  intros b. induction b as [|b IH]; intros l; [reflexivity|].
  destruct l as [|y r]; [cbn; destruct a; reflexivity|]. cbn [skipn Nat.add]. apply IH.
Qed.
Lemma nth0_In (l : list N) x : nth 0 l 0 = x -> x <> 0 -> In x l.
Proof. destruct l as [|y r]; cbn; intros H Hx; [congruence | left; exact H]. Qed.
Lemma tl_skipn {A} (l : list A) : tl l = skipn 1 l.
Proof. destruct l; reflexivity. Qed.

(* "no panic, not out of fuel; if it returns, then with [P]" *)
Definition post {A} (o : outcome (A * sc strin)) (P : A -> sc strin -> Prop) : Prop :=
  match o with Ok (a, s') => P a s' | Err _ _ => True | _ => False end.

Lemma post_bind {A B} (m : @M strin A) (f : A -> @M strin B) s (Q : B -> sc strin -> Prop) :
  post (m s) (fun a s' => post (f a s') Q) -> post (bind m f s) Q.
Proof. unfold bind. destruct (m s) as [[a s']|e k|n|]; cbn; intros H; exact H. Qed.
Lemma post_weaken {A} (o : outcome (A * sc strin)) (P Q : A -> sc strin -> Prop) :
  post o P -> (forall a s', P a s' -> Q a s') -> post o Q.
Proof. destruct o as [[a s']|e k|n|]; cbn; intros H HI; auto. Qed.
Lemma post_false_errs {A} (o : outcome (A * sc strin)) : post o (fun _ _ => False) -> errs o.
Proof. destruct o as [[a s']|e k|n|]; cbn; intros H; try contradiction. exists e, k. reflexivity. Qed.

Lemma skip_linebreak_spec (s : sc strin) :
  (2 <= si_look (sc_in s))%nat ->
  post (skip_linebreak str_ops s) (fun _ s' => exists k, chars_of s' = skipn k (chars_of s)).
Proof.
  intros HL. unfold skip_linebreak.
  unfold bind at 1. unfold next_2_are at 1, bind at 1, assert_buflen at 1. cbn [buflen str_ops].
  assert (E : Nat.ltb (si_look (sc_in s)) 2 = false) by (apply Nat.ltb_ge; exact HL). rewrite E.
  unfold bind at 1, peek at 1, peekn at 1. cbn [peek_nth str_ops].
  unfold bind at 1, peekn at 1. cbn [peek_nth str_ops]. unfold ret at 1.
  destruct ((nth 0 (chars_of s) 0 =? 13) && (nth 1 (chars_of s) 0 =? 10)).
  - cbn. exists 2%nat. destruct (chars_of s) as [|a [|b r]]; reflexivity.
  - unfold bind at 1, peek at 1, peekn at 1. cbn [peek_nth str_ops].
    destruct (is_break (nth 0 (chars_of s) 0)).
    + cbn. exists 1%nat. apply tl_skipn.
    + cbn. exists 0%nat. reflexivity.
Qed.

Lemma read_hex_keeps n : forall i acc start (s : sc strin),
  post (read_hex str_ops n i acc start s) (fun _ s' => s' = s).
Proof.
  induction n as [|n IH]; intros i acc start s; [reflexivity|].
  cbn [read_hex]. unfold bind, peekn. cbn [peek_nth str_ops].
  destruct (is_hex (nth i (chars_of s) 0)); [apply IH | exact I].
Qed.

Lemma resolve_escape_spec start (s : sc strin) :
  post (resolve_escape str_ops start s) (fun _ s' => exists k, chars_of s' = skipn k (chars_of s) /\ (2 <= k)%nat).
Proof.
  unfold resolve_escape. unfold bind at 1, peekn at 1. cbn [peek_nth str_ops].
  destruct (assocc (nth 1 (chars_of s) 0) escape_table) as [r|].
  - cbn. exists 2%nat. split; [reflexivity|lia].
  - destruct (Nat.eqb (code_length (nth 1 (chars_of s) 0)) 0); [exact I|].
    set (n := code_length (nth 1 (chars_of s) 0)).
    unfold bind at 1. unfold skip_n_non_blank at 1, bind at 1, in_skip_n at 1. cbn [skip_n str_ops].
    unfold bind at 1, adv_mark at 1, modify at 1. unfold modify at 1.
    unfold bind at 1, look at 1. cbn [lookahead str_ops].
    apply post_bind. eapply post_weaken; [apply read_hex_keeps|].
    intros v s' ->. destruct (is_scalar_value v); [|exact I].
    unfold skip_n_non_blank, bind, in_skip_n, adv_mark, modify, ret. cbn [skip_n str_ops].
    cbn [post sc_in set_in upd set_mark set_lws set_flags si_chars]. exists (2 + n)%nat. split; [|lia]. rewrite skipn_skipn'. reflexivity.
Qed.

Definition qchar (single : bool) : N := if single then 39 else 34.
Definition qfree (single : bool) (l : list N) : Prop := ~ In (qchar single) l.

Lemma qfree_skipn single k l : qfree single l -> qfree single (skipn k l).
Proof. intros H Hin. apply H. exact (In_skipn _ _ _ Hin). Qed.
Lemma qfree_head single l : qfree single l -> nth 0 l 0 =? qchar single = false.
Proof.
  intros H. apply N.eqb_neq. intros E. apply H. apply (nth0_In l _ E). destruct single; cbn; discriminate.
Qed.
Lemma nonblank_nonempty (l : list N) : is_blank_or_breakz (nth 0 l 0) = false -> (1 <= length l)%nat.
Proof. destruct l; cbn; [discriminate | lia]. Qed.
Lemma skipn_length' {A} k (l : list A) : length (skipn k l) = (length l - k)%nat.
Proof. revert l. induction k as [|k IH]; intros l; [cbn; lia|]. destruct l; cbn; [reflexivity|apply IH]. Qed.

(* the character loop of a quoted scalar on input that holds no closing quote: it only moves forward *)
Definition moved (s : sc strin) (s' : sc strin) : Prop :=
  exists k, chars_of s' = skipn k (chars_of s)
            /\ (is_blank_or_breakz (nth 0 (chars_of s) 0) = false -> (1 <= k)%nat)
            /\ (is_blank_or_breakz (nth 0 (chars_of s) 0) = true -> k = 0%nat).

Lemma consume_nonws_spec fuel : forall single acc start (s : sc strin),
  qfree single (chars_of s) -> (length (chars_of s) < fuel)%nat ->
  post (consume_nonws str_ops fuel single acc start s) (fun _ s' => moved s s').
Proof.
  induction fuel as [|fuel IH]; intros single acc start s HQ HL; [lia|].
  cbn [consume_nonws].
  unfold bind at 1, look at 1. cbn [lookahead str_ops].
  set (s0 := set_in {| si_chars := chars_of s; si_look := Nat.max (si_look (sc_in s)) 2 |} s).
  unfold bind at 1, peek at 1, peekn at 1. cbn [peek_nth str_ops sc_in s0 set_in upd si_chars].
  set (c := nth 0 (chars_of s) 0).
  destruct (is_blank_or_breakz c) eqn:EB.
  - cbn [post ret]. exists 0%nat. split; [reflexivity|]. split; [intros E; unfold c in EB; rewrite EB in E; discriminate | reflexivity].
  - unfold bind at 1, peekn at 1. cbn [peek_nth str_ops sc_in s0 set_in upd si_chars].
    set (nc := nth 1 (chars_of s) 0).
    pose proof (qfree_head single _ HQ) as HH. change (nth 0 (chars_of s) 0) with c in HH.
    pose proof (nonblank_nonempty _ EB) as HN.
    assert (REC : forall acc' (s1 : sc strin) k1, chars_of s1 = skipn k1 (chars_of s) -> (1 <= k1)%nat ->
              post (consume_nonws str_ops fuel single acc' start s1) (fun _ s' => moved s s')).
    { intros acc' s1 k1 H1 Hk1.
      eapply post_weaken; [apply IH; [rewrite H1; apply qfree_skipn; exact HQ | rewrite H1, skipn_length'; unfold chr in *; lia]|].
      intros _ s' (k2 & A & _ & _). exists (k1 + k2)%nat. rewrite A, H1, skipn_skipn'.
      split; [reflexivity|]. split; [intros; lia | intros E; unfold c in EB; rewrite EB in E; discriminate]. }
    destruct single; unfold qchar in HH.
    + rewrite HH. cbn [andb negb]. rewrite !andb_false_r. cbn iota.
      apply post_bind. unfold skip_non_blank, bind, in_skip, adv_mark, modify. cbn [post].
      apply (REC _ _ 1%nat); [cbn; apply tl_skipn | lia].
    + rewrite HH. cbn [andb negb]. rewrite !andb_false_r, !andb_true_r. cbn iota.
      destruct (c =? 92) eqn:E92; cbn [andb].
      * destruct (is_break nc) eqn:EBR.
        -- unfold bind at 1, look at 1. cbn [lookahead str_ops].
           unfold bind at 1. unfold skip_non_blank at 1, bind at 1, in_skip at 1, modify at 1.
           unfold bind at 1, adv_mark at 1, modify at 1. unfold modify at 1.
           apply post_bind. eapply post_weaken; [apply skip_linebreak_spec; cbn; lia|].
           intros _ s' (k & A). cbn [post ret]. exists (1 + k)%nat.
           rewrite A. cbn [sc_in set_lws set_flags set_mark set_in upd si_chars skip1 str_ops s0].
           rewrite tl_skipn, skipn_skipn'.
           split; [reflexivity|]. split; [intros; lia | intros E; unfold c in EB; rewrite EB in E; discriminate].
        -- apply post_bind. eapply post_weaken; [apply resolve_escape_spec|].
           intros r s1 (k1 & A & Hk1). apply (REC _ _ k1); [exact A | lia].
      * apply post_bind. unfold skip_non_blank, bind, in_skip, adv_mark, modify. cbn [post].
        apply (REC _ _ 1%nat); [cbn; apply tl_skipn | lia].
Qed.

Lemma skip_break_spec (s : sc strin) :
  is_break (nth 0 (chars_of s) 0) = true ->
  post (skip_break str_ops s) (fun _ s' => exists k, chars_of s' = skipn k (chars_of s) /\ (1 <= k)%nat).
Proof.
  intros HB. unfold skip_break.
  unfold bind at 1, peek at 1, peekn at 1. cbn [peek_nth str_ops].
  unfold bind at 1, peekn at 1. cbn [peek_nth str_ops]. unfold chr in *. rewrite HB.
  unfold bind at 1, ret at 1.
  match goal with |- context [if ?b then _ else _] => destruct b end;
    unfold bind, ret, skip_blank, skip_nl, in_skip, adv_mark, modify; cbn [post sc_in set_in upd set_lws set_flags set_mark si_chars skip1 str_ops].
  - exists 2%nat. split; [|lia]. destruct (chars_of s) as [|a [|b r]]; reflexivity.
  - exists 1%nat. split; [apply tl_skipn|lia].
Qed.

Lemma flow_blanks_spec fuel : forall lbl lb tb ws (s : sc strin),
  (length (chars_of s) < fuel)%nat ->
  post (flow_blanks str_ops fuel lbl lb tb ws s)
    (fun _ s' => exists k, chars_of s' = skipn k (chars_of s)
                 /\ (is_blank (nth 0 (chars_of s) 0) || is_break (nth 0 (chars_of s) 0) = true -> (1 <= k)%nat)).
Proof.
  induction fuel as [|fuel IH]; intros lbl lb tb ws s HL; [lia|].
  cbn [flow_blanks].
  unfold bind at 1, peek at 1, peekn at 1. cbn [peek_nth str_ops].
  set (c := nth 0 (chars_of s) 0).
  assert (REC : forall lbl' lb' tb' ws' (s1 : sc strin) k1, chars_of s1 = skipn k1 (chars_of s) -> (1 <= k1)%nat ->
            (1 <= length (chars_of s))%nat ->
            post (flow_blanks str_ops fuel lbl' lb' tb' ws' s1)
              (fun _ s' => exists k, chars_of s' = skipn k (chars_of s) /\ (is_blank c || is_break c = true -> (1 <= k)%nat))).
  { intros lbl' lb' tb' ws' s1 k1 H1 Hk1 HN.
    eapply post_weaken; [apply IH; rewrite H1, skipn_length'; unfold chr in *; lia|].
    intros _ s' (k2 & A & _). exists (k1 + k2)%nat. rewrite A, H1, skipn_skipn'. split; [reflexivity|intros; lia]. }
  assert (NE : is_blank c || is_break c = true -> (1 <= length (chars_of s))%nat).
  { unfold c. destruct (chars_of s); cbn; [discriminate | intros; lia]. }
  destruct (is_blank c) eqn:EB.
  - specialize (NE eq_refl).
    assert (STEP : forall ws', post ((skip_blank str_ops ;;; look str_ops 1 ;;; flow_blanks str_ops fuel lbl lb tb ws') s)
              (fun _ s' => exists k, chars_of s' = skipn k (chars_of s) /\ (true || is_break c = true -> (1 <= k)%nat))).
    { intros ws'. unfold skip_blank, bind at 1, bind at 1, in_skip at 1, modify at 1.
      unfold adv_mark at 1, modify at 1. unfold bind at 1, look at 1. cbn [lookahead str_ops].
      eapply post_weaken; [apply (REC lbl lb tb ws' _ 1%nat); [cbn; apply tl_skipn | lia | exact NE]|].
      intros _ s' (k & A & B). exists k. split; [exact A|]. intros _. apply B. reflexivity. }
    destruct lbl.
    + unfold bind at 1, col_lt_indent at 1, gets at 1.
      destruct ((c =? 9) && (Z.of_N (m_col (sc_mark s)) <? sc_indent s)%Z).
      * unfold bind, mark, gets, fail. exact I.
      * apply STEP.
    + apply STEP.
  - destruct (is_break c) eqn:EK.
    + specialize (NE eq_refl).
      unfold bind at 1, look at 1. cbn [lookahead str_ops].
      set (s0 := set_in {| si_chars := chars_of s; si_look := Nat.max (si_look (sc_in s)) 2 |} s).
      assert (STEP : forall lbl' lb' tb' ws',
                post ((skip_break str_ops ;;; look str_ops 1 ;;; flow_blanks str_ops fuel lbl' lb' tb' ws') s0)
                  (fun _ s' => exists k, chars_of s' = skipn k (chars_of s) /\ (false || true = true -> (1 <= k)%nat))).
      { intros lbl' lb' tb' ws'. apply post_bind.
        eapply post_weaken; [apply (skip_break_spec s0); exact EK|].
        intros _ s1 (k1 & A1 & Hk1). unfold bind at 1, look at 1. cbn [lookahead str_ops].
        eapply post_weaken; [apply (REC lbl' lb' tb' ws' _ k1); [exact A1 | exact Hk1 | exact NE]|].
        intros _ s' (k & A & B). exists k. split; [exact A|]. intros _. apply B. reflexivity. }
      destruct lbl; apply STEP.
    + cbn. exists 0%nat. split; [reflexivity | intros; discriminate].
Qed.

(* the outer loop of scan_flow_scalar, named *)
Definition flow_go (F : nat) (single : bool) (start : marker) :=
  fix go (f : nat) (acc : list chr) (lb : bool) (tb : N) (ws : list chr) : @M strin (list chr) :=
     match f with
     | O => oof
     | S f =>
       look str_ops 4 ;;;
       s <- get ;;
       di <- (if m_col (sc_mark s) =? 0 then next_is_document_indicator str_ops else ret false) ;;
       if di then fail 70 start else
       z <- next_is str_ops is_z ;;
       if z then fail 71 start else
       lt <- col_lt_indent ;;
       if lt then fail 72 start else
       r <- consume_nonws str_ops F single acc start ;;
       let '(acc, lbl) := r in
       c <- look_ch str_ops ;;
       if (single && (c =? 39)) || (negb single && (c =? 34)) then ret acc
       else
         r <- flow_blanks str_ops F lbl lb tb ws ;;
         let '(lbl, lb, tb, ws) := r in
         if lbl then
           if negb lb then go f (nls tb acc) false 0 ws
           else if tb =? 0 then go f (32 :: acc) false 0 ws
           else go f (nls tb acc) false 0 ws
         else go f (ws ++ acc) lb tb []
     end.

Lemma scan_flow_scalar_unfold F single :
  scan_flow_scalar str_ops F single
  = (start <- mark ;; skip_non_blank str_ops ;;; str <- flow_go F single start F [] false 0 [] ;;
     skip_non_blank str_ops ;;; skip_ws_to_eol str_ops F SkipYes ;;;
     c <- peek str_ops ;; s <- get ;;
     let fl := 0 <? sc_flow_level s in
     if (((c =? 44) || (c =? 125) || (c =? 93)) && fl) || is_breakz c
        || ((c =? 58) && negb fl && (m_line start =? m_line (sc_mark s))) || ((c =? 58) && fl)
     then ret ({| sp_start := start; sp_end := sc_mark s |},
               TScalar (if single then SingleQuoted else DoubleQuoted) (rev str))
     else fail 74 (sc_mark s)).
Proof. reflexivity. Qed.

Lemma next_is_document_indicator_keeps (s : sc strin) :
  (4 <= si_look (sc_in s))%nat -> exists b, next_is_document_indicator str_ops s = Ok (b, s).
Proof.
  intros HL. unfold next_is_document_indicator.
  assert (E4 : Nat.ltb (si_look (sc_in s)) 4 = false) by (apply Nat.ltb_ge; exact HL).
  assert (E3 : Nat.ltb (si_look (sc_in s)) 3 = false) by (apply Nat.ltb_ge; lia).
  unfold bind at 1, assert_buflen at 1. cbn [buflen str_ops]. rewrite E4.
  unfold bind at 1, peekn at 1. cbn [peek_nth str_ops].
  destruct (is_blank_or_breakz (nth 3 (chars_of s) 0)); [|eexists; reflexivity].
  assert (N3 : forall a b c, exists r, next_3_are str_ops a b c s = Ok (r, s)).
  { intros a b c. unfold next_3_are, bind, assert_buflen, peek, peekn, ret. cbn [buflen peek_nth str_ops]. rewrite E3.
    eexists; reflexivity. }
  destruct (N3 46 46 46) as (r1 & R1). rewrite (bind_Ok _ _ _ _ _ R1).
  destruct r1; [eexists; reflexivity|]. apply N3.
Qed.

(* the loop never returns (and never panics or runs out of fuel) on input without the closing quote *)
Ltac nlia := unfold chr in *; lia.

Lemma flow_go_no_close F single start : forall n f acc lb tb ws (s : sc strin),
  (length (chars_of s) <= n)%nat -> (n < f)%nat -> (n < F)%nat -> qfree single (chars_of s) ->
  post (flow_go F single start f acc lb tb ws s) (fun _ _ => False).
Proof.
  induction n as [|n IH]; intros f acc lb tb ws s HLen Hf HF HQ.
  - destruct f as [|f]; [nlia|]. cbn [flow_go].
    unfold bind at 1, look at 1. cbn [lookahead str_ops].
    set (s0 := set_in {| si_chars := chars_of s; si_look := Nat.max (si_look (sc_in s)) 4 |} s).
    unfold bind at 1, get at 1.
    assert (HE : chars_of s = []) by (destruct (chars_of s); [reflexivity | cbn in HLen; nlia]).
    assert (DI : exists b, (if m_col (sc_mark s0) =? 0 then next_is_document_indicator str_ops else ret false) s0 = Ok (b, s0)).
    { destruct (m_col (sc_mark s0) =? 0); [apply next_is_document_indicator_keeps; cbn; nlia | eexists; reflexivity]. }
    destruct DI as (b & DI). rewrite (bind_Ok _ _ _ _ _ DI). destruct b; [exact I|].
    unfold bind at 1, next_is at 1, bind at 1, peek at 1, peekn at 1. cbn [peek_nth str_ops sc_in s0 set_in upd si_chars].
    rewrite HE. cbn. exact I.
  - destruct f as [|f]; [nlia|]. cbn [flow_go].
    unfold bind at 1, look at 1. cbn [lookahead str_ops].
    set (s0 := set_in {| si_chars := chars_of s; si_look := Nat.max (si_look (sc_in s)) 4 |} s).
    unfold bind at 1, get at 1.
    assert (DI : exists b, (if m_col (sc_mark s0) =? 0 then next_is_document_indicator str_ops else ret false) s0 = Ok (b, s0)).
    { destruct (m_col (sc_mark s0) =? 0); [apply next_is_document_indicator_keeps; cbn; nlia | eexists; reflexivity]. }
    destruct DI as (b & DI). rewrite (bind_Ok _ _ _ _ _ DI). destruct b; [exact I|].
    unfold bind at 1, next_is at 1, bind at 1, peek at 1, peekn at 1. cbn [peek_nth str_ops sc_in s0 set_in upd si_chars].
    unfold ret at 1. set (c := nth 0 (chars_of s) 0).
    destruct (is_z c) eqn:EZ; [exact I|].
    unfold bind at 1, col_lt_indent at 1, gets at 1.
    destruct (Z.of_N (m_col (sc_mark s0)) <? sc_indent s0)%Z; [exact I|].
    assert (HQ0 : qfree single (chars_of s0)) by exact HQ.
    assert (HL0 : (length (chars_of s0) < F)%nat) by (change (chars_of s0) with (chars_of s); nlia).
    apply post_bind. eapply post_weaken; [apply (consume_nonws_spec F single acc start s0 HQ0 HL0)|].
    intros [acc1 lbl1] s1 (k1 & A1 & B1 & C1). change (chars_of s0) with (chars_of s) in A1, B1, C1. fold c in B1, C1.
    unfold bind at 1, look_ch at 1, bind at 1, look at 1. cbn [lookahead str_ops].
    unfold peek at 1, peekn at 1. cbn [peek_nth str_ops sc_in set_in upd si_chars].
    assert (HQ1 : qfree single (chars_of s1)) by (rewrite A1; apply qfree_skipn; exact HQ).
    pose proof (qfree_head single _ HQ1) as HH1.
    assert (NOQ : (single && (nth 0 (chars_of s1) 0 =? 39)) || (negb single && (nth 0 (chars_of s1) 0 =? 34)) = false).
    { destruct single; cbn [qchar] in HH1; cbn [andb negb orb]; unfold chr in *; rewrite HH1; reflexivity. }
    unfold chr in *. rewrite NOQ.
    set (s1' := set_in {| si_chars := chars_of s1; si_look := Nat.max (si_look (sc_in s1)) 1 |} s1).
    assert (HL1 : (length (chars_of s1') < F)%nat).
    { change (chars_of s1') with (chars_of s1). rewrite A1, skipn_length'. nlia. }
    apply post_bind. eapply post_weaken; [apply (flow_blanks_spec F lbl1 lb tb ws s1' HL1)|].
    intros [[[lbl2 lb2] tb2] ws2] s2 (k2 & A2 & B2). change (chars_of s1') with (chars_of s1) in A2, B2.
    (* every continuation is the loop again, on strictly less input *)
    assert (NE : (1 <= length (chars_of s))%nat).
    { unfold c in EZ. destruct (chars_of s); [cbn in EZ; discriminate | cbn; nlia]. }
    assert (DEC : (length (chars_of s2) <= n)%nat).
    { rewrite A2, A1, skipn_skipn', skipn_length'.
      destruct (is_blank_or_breakz c) eqn:EBB.
      - specialize (C1 eq_refl). subst k1. cbn [skipn] in A1. rewrite A1 in B2. fold c in B2.
        assert (K2 : (1 <= k2)%nat).
        { apply B2. unfold is_blank_or_breakz, is_breakz in EBB. rewrite EZ, orb_false_r in EBB. exact EBB. }
        nlia.
      - specialize (B1 eq_refl). nlia. }
    assert (HQ2 : qfree single (chars_of s2)) by (rewrite A2; apply qfree_skipn; exact HQ1).
    assert (GO : forall acc' lb' tb' ws', post (flow_go F single start f acc' lb' tb' ws' s2) (fun _ _ => False)).
    { intros. apply IH; [exact DEC | nlia | nlia | exact HQ2]. }
    destruct lbl2; [destruct (negb lb2); [apply GO | destruct (tb2 =? 0); apply GO] | apply GO].
Qed.

(* ---- ANY scanner state about to scan a quoted scalar whose remaining input holds no closing quote character: the scan
        ends in an error (end of input 71; or, earlier, a document marker 70, indentation 72 / 73, a bad escape 30-32) --
        never in a token, a panic or exhausted fuel ---- *)
Theorem open_quoted_scalar_rejected F single (s : sc strin) body :
  chars_of s = qchar single :: body -> qfree single body -> (length body < F)%nat ->
  errs (scan_flow_scalar str_ops F single s).
Proof.
  intros HC HQ HL. rewrite scan_flow_scalar_unfold.
  unfold bind at 1, mark at 1, gets at 1.
  unfold bind at 1. unfold skip_non_blank at 1, bind at 1, in_skip at 1, modify at 1.
  unfold bind at 1, adv_mark at 1, modify at 1. unfold modify at 1.
  apply errs_bind. apply post_false_errs.
  apply (flow_go_no_close F single (sc_mark s) (length body)); [ | exact HL | exact HL | ].
  - cbn [sc_in set_lws set_flags set_mark set_in upd si_chars skip1 str_ops]. rewrite HC. cbn [tl]. nlia.
  - cbn [sc_in set_lws set_flags set_mark set_in upd si_chars skip1 str_ops]. rewrite HC. exact HQ.
Qed.

Lemma errs_post {A} (o : outcome (A * sc strin)) P : errs o -> post o P.
Proof. intros (e & m & ->). exact I. Qed.

Lemma save_simple_key_post (s : sc strin) :
  sorted_from (sc_indent s) (sc_indents s) = true ->
  post (save_simple_key s) (fun _ s' => sc_in s' = sc_in s).
Proof.
  intros HS. unfold save_simple_key. unfold bind at 1, get at 1.
  destruct (sc_ska s); [|reflexivity].
  destruct ((sc_flow_level s =? 0) && (sc_indent s =? Z.of_N (m_col (sc_mark s)))%Z) eqn:E.
  - destruct (sc_indents s) as [|i r] eqn:EI.
    + exfalso. cbn [sorted_from] in HS. apply andb_prop in E. destruct E as [_ E].
      apply Z.eqb_eq in HS, E. lia.
    + reflexivity.
  - reflexivity.
Qed.

Theorem open_quoted_scalar_fetch_rejected F single (s : sc strin) body :
  sorted_from (sc_indent s) (sc_indents s) = true ->
  chars_of s = qchar single :: body -> qfree single body -> (length body < F)%nat ->
  errs (fetch_flow_scalar str_ops F single s).
Proof.
  intros HS HC HQ HL. unfold fetch_flow_scalar. apply post_false_errs.
  apply post_bind. eapply post_weaken; [apply (save_simple_key_post s HS)|].
  intros u s1 H1. cbn beta in H1. unfold bind at 1, disallow_simple_key at 1, modify at 1.
  apply post_bind. apply errs_post.
  apply (open_quoted_scalar_rejected F single _ body); [ | exact HQ | exact HL ].
  cbn [sc_in set_ska set_flags]. rewrite H1. exact HC.
Qed.

(* ---- the same from [fetch_next_token]: ANY started scanner state that stands on an opening quote while the rest of the
        input holds no closing quote (well-formed indentation stack, no required pending key): the fetch ends in an error.
        First for the part of fetch_next_token behind skip_to_next_token ---- *)
Lemma open_quoted_scalar_rest_rejected F single (s1 : sc strin) body :
  chars_of s1 = qchar single :: body -> qfree single body -> (length body < F)%nat ->
  sorted_from (sc_indent s1) (sc_indents s1) = true ->
  (sc_flow_level s1 <> 0 \/ forall k, In k (sc_sks s1) -> sk_required k = false) ->
  errs (fetch_rest F s1).
Proof.
  intros HC HQ HL HS HR. unfold fetch_rest.
  destruct (stale_simple_keys_ok s1 HR) as (sks' & E & _).
  rewrite (bind_Ok _ _ _ _ _ E).
  set (s2 := set_sks sks' s1).
  unfold bind at 1. unfold mark at 1, gets at 1.
  assert (HS2 : sorted_from (sc_indent s2) (sc_indents s2) = true) by exact HS.
  destruct (unroll_indent_ok (Z.of_N (m_col (sc_mark s2))) s2 ltac:(lia) HS2) as (s3 & E3 & (A1 & A2 & A3 & A4) & HS3).
  rewrite (bind_Ok _ _ _ _ _ E3).
  assert (HC3 : chars_of s3 = qchar single :: body) by (rewrite A1; exact HC).
  unfold bind at 1. unfold look at 1. cbn [lookahead str_ops].
  set (s4 := set_in {| si_chars := chars_of s3; si_look := Nat.max (si_look (sc_in s3)) 4 |} s3).
  assert (HC4 : chars_of s4 = qchar single :: body) by exact HC3.
  unfold bind at 1. unfold next_is at 1, bind at 1, peek at 1, peekn at 1. cbn [peek_nth str_ops]. rewrite HC4. cbn [nth].
  unfold ret at 1. replace (is_z (qchar single)) with false by (destruct single; reflexivity). cbn iota.
  unfold bind at 1. unfold get at 1.
  unfold bind at 1. unfold peek at 1, peekn at 1. cbn [peek_nth str_ops]. rewrite HC4. cbn [nth].
  replace (qchar single =? 37) with false by (destruct single; reflexivity). rewrite andb_false_r. cbn [negb andb].
  assert (LB4 : Nat.ltb (buflen str_ops (sc_in s4)) 4 = false) by (apply Nat.ltb_ge; cbn; lia).
  assert (LB3 : Nat.ltb (buflen str_ops (sc_in s4)) 3 = false) by (apply Nat.ltb_ge; cbn; lia).
  assert (DS : next_is_document_start str_ops s4 = Ok (false, s4)).
  { unfold next_is_document_start, bind at 1, assert_buflen at 1. rewrite LB4.
    unfold bind at 1. unfold next_3_are at 1, bind at 1, assert_buflen at 1. rewrite LB3.
    unfold bind, peek, peekn. cbn [peek_nth str_ops]. rewrite HC4. cbn [nth]. unfold ret.
    replace (qchar single =? 45) with false by (destruct single; reflexivity). reflexivity. }
  assert (DE : next_is_document_end str_ops s4 = Ok (false, s4)).
  { unfold next_is_document_end, bind at 1, assert_buflen at 1. rewrite LB4.
    unfold bind at 1. unfold next_3_are at 1, bind at 1, assert_buflen at 1. rewrite LB3.
    unfold bind, peek, peekn. cbn [peek_nth str_ops]. rewrite HC4. cbn [nth]. unfold ret.
    replace (qchar single =? 46) with false by (destruct single; reflexivity). reflexivity. }
  assert (D1 : exists b, (if m_col (sc_mark s4) =? 0 then next_is_document_start str_ops else ret false) s4 = Ok (false, s4) /\
                         (if (m_col (sc_mark s4) =? 0) && true && negb false then next_is_document_end str_ops else ret false) s4 = Ok (b, s4) /\ b = false).
  { exists false. destruct (m_col (sc_mark s4) =? 0); cbn [andb negb]; repeat split; assumption || reflexivity. }
  destruct D1 as (b & D1 & D2 & ->).
  rewrite (bind_Ok _ _ _ _ _ D1). rewrite (bind_Ok _ _ _ _ _ D2). cbn iota.
  destruct (Z.of_N (m_col (sc_mark s4)) <? sc_indent s4)%Z; [apply errs_Err|].
  unfold bind at 1, peek at 1, peekn at 1. cbn [peek_nth str_ops]. rewrite HC4. cbn [nth].
  unfold bind at 1, peekn at 1. cbn [peek_nth str_ops]. cbn zeta.
  assert (FIN : errs (fetch_flow_scalar str_ops F single s4)).
  { apply (open_quoted_scalar_fetch_rejected F single s4 body HS3 HC4 HQ HL). }
  destruct single; cbn [qchar].
  - change (39 =? 91) with false. change (39 =? 123) with false. change (39 =? 93) with false.
    change (39 =? 125) with false. change (39 =? 44) with false. change (39 =? 45) with false.
    change (39 =? 63) with false. change (39 =? 58) with false. change (39 =? 42) with false.
    change (39 =? 38) with false. change (39 =? 33) with false. change (39 =? 124) with false.
    change (39 =? 62) with false. change (39 =? 39) with true. cbn [andb orb]. exact FIN.
  - change (34 =? 91) with false. change (34 =? 123) with false. change (34 =? 93) with false.
    change (34 =? 125) with false. change (34 =? 44) with false. change (34 =? 45) with false.
    change (34 =? 63) with false. change (34 =? 58) with false. change (34 =? 42) with false.
    change (34 =? 38) with false. change (34 =? 33) with false. change (34 =? 124) with false.
    change (34 =? 62) with false. change (34 =? 39) with false. change (34 =? 34) with true. cbn [andb orb]. exact FIN.
Qed.

Theorem open_quoted_scalar_next_rejected F single (s : sc strin) body :
  sc_stream_start s = true ->
  chars_of s = qchar single :: body -> qfree single body -> (length body < F)%nat ->
  sorted_from (sc_indent s) (sc_indents s) = true ->
  (sc_flow_level s <> 0 \/ forall k, In k (sc_sks s) -> sk_required k = false) ->
  errs (fetch_next_token str_ops F s).
Proof.
  intros HSS HC HQ HL HS HR.
  rewrite (fetch_next_token_started F s HSS).
  assert (HN : not_skipped (nth 0 (chars_of (looked s 1)) 0)).
  { cbn [looked with_chars set_in upd sc_in si_chars]. rewrite HC. cbn [nth]. destruct single; repeat split; discriminate. }
  rewrite (bind_Ok _ _ _ _ _ (skip_to_next_token_stop F (looked s 1) ltac:(lia) HN)).
  exact (open_quoted_scalar_rest_rejected F single (looked (looked s 1) 1) body HC HQ HL HS HR).
Qed.

(* ---- text level: the scanner state behind the StreamStart token ---- *)
Definition after_stream_start (l : list N) : sc strin := {|
  sc_in := {| si_chars := l; si_look := Nat.max 0 1 |}; sc_mark := {| m_index := 0; m_line := 1; m_col := 0 |};
  sc_tokens := []; sc_stream_start := true; sc_stream_end := false; sc_adjacent := 0; sc_ska := true;
  sc_sks := [{| sk_possible := false; sk_required := false; sk_token_number := 0; sk_mark := mk0 |}];
  sc_indent := (-1)%Z; sc_indents := []; sc_flow_level := 0; sc_tokens_parsed := 1;
  sc_token_available := false; sc_lws := true; sc_ifms := [] |}.

Lemma first_token F l :
  next_token str_ops (S (S F)) (init_sc {| si_chars := l; si_look := 0 |})
  = Ok (Some (span_empty {| m_index := 0; m_line := 1; m_col := 0 |}, TStreamStart), after_stream_start l).
Proof. reflexivity. Qed.

(* the first fetch after StreamStart fails => the whole text is rejected *)
Lemma first_fetch_error_rejected l :
  errs (fetch_next_token str_ops (scan_fuel l) (after_stream_start l)) -> snd (run_str l) <> PDone.
Proof.
  intros (e & m & HE). apply scan_error_rejected. left. exists e, m.
  unfold scan_of.
  assert (HF : exists F', scan_fuel l = S (S F')) by (unfold scan_fuel; exists (2 * length l + 8)%nat; lia).
  destruct HF as (F' & HF).
  assert (HO : exists fuel, (4 * scan_fuel l + 20 = S (S fuel))%nat) by (exists (4 * scan_fuel l + 18)%nat; lia).
  destruct HO as (fuel & HO). rewrite HO.
  cbn [scan_all]. rewrite HF. rewrite first_token. rewrite <- HF.
  cbn [scan_all].
  rewrite (next_token_fetch_err (scan_fuel l) (after_stream_start l) e m eq_refl eq_refl eq_refl ltac:(rewrite HF; lia) HE).
  reflexivity.
Qed.

(* ---- EVERY text that consists of an opening quote and any characters other than that quote is rejected ---- *)
Theorem open_quoted_text_rejected single body :
  qfree single body -> snd (run_str (qchar single :: body)) <> PDone.
Proof.
  intros HQ. apply first_fetch_error_rejected.
  apply (open_quoted_scalar_next_rejected _ single _ body); try reflexivity; try exact HQ.
  - unfold scan_fuel. cbn [length]. lia.
  - right. intros k [<-|[]]. reflexivity.
Qed.

(* the same for a text that starts with a document-end marker followed by content on its line *)
Theorem content_after_document_end_text_rejected b ws c rest :
  (b = 32 \/ b = 9) -> blank_run SkipYes ws -> is_content_start c ->
  snd (run_str (46 :: 46 :: 46 :: b :: ws ++ c :: rest)) <> PDone.
Proof.
  intros Hb HB HC. apply first_fetch_error_rejected.
  set (l := 46 :: 46 :: 46 :: b :: ws ++ c :: rest).
  assert (HF : (S (length ws) < scan_fuel l)%nat).
  { unfold scan_fuel, l. cbn [length]. rewrite app_length. cbn [length]. lia. }
  rewrite (content_after_document_end_rejected (scan_fuel l) (after_stream_start l) b ws c rest _ [] eq_refl eq_refl Hb HB HC
             eq_refl eq_refl eq_refl ltac:(intros k [<-|[]]; reflexivity) HF).
  apply errs_Err.
Qed.

(* ================================================================================================ *)
(* (4) mis-indented block entries / keys; a second root node behind a scalar root                      *)
(* ================================================================================================ *)
Close Scope N_scope.

(* scanner half: in block context a key / entry in a column DEEPER than the innermost open block collection opens a new
   collection (a Block*Start token is queued and the column is pushed) -- it does not continue the open one *)
Theorem roll_indent_deeper_starts_collection (s : sc strin) col tk mk :
  sc_flow_level s = 0%N -> (sc_indent s < Z.of_N col)%Z ->
  (forall i r, sc_indents s = i :: r -> in_needs_block_end i = true) ->
  (N.of_nat (length (sc_indents s)) < BLOCK_NESTING_MAX)%N ->
  roll_indent col None tk mk s
  = Ok (tt, set_tokens (sc_tokens s ++ [(span_empty mk, tk)])
              (set_indent (Z.of_N col) ({| in_indent := sc_indent s; in_needs_block_end := true |} :: sc_indents s) s)).
Proof.
  intros HF HL HI HN. unfold roll_indent. unfold bind at 1, get at 1. rewrite HF. cbn [N.ltb N.compare].
  assert (E1 : (sc_indent s <=? Z.of_N col)%Z = true) by (apply Z.leb_le; lia). rewrite E1.
  assert (E2 : (sc_indent s <? Z.of_N col)%Z = true) by (apply Z.ltb_lt; lia).
  apply N.leb_gt in HN.
  destruct (sc_indents s) as [|i r] eqn:EI.
  - rewrite E2, HN. reflexivity.
  - rewrite (HI i r eq_refl). cbn [negb]. rewrite E2, HN. reflexivity.
Qed.

(* /repo 99c201b: ... unless BLOCK_NESTING_MAX (= 255) block collections are open already: then the new collection is the
   scan error "recursion limit exceeded" (site 46) at the current mark.  [effective_indents]: roll_indent first drops a
   one-column indent (pushed behind ':' / '-' in front of a line break or a flow collection) that the new column reaches *)
Definition effective_indents (s : sc strin) (col : N) : Z * list indent_rec :=
  if (sc_indent s <=? Z.of_N col)%Z then
    match sc_indents s with
    | i :: r => if negb (in_needs_block_end i) then (in_indent i, r) else (sc_indent s, sc_indents s)
    | [] => (sc_indent s, sc_indents s)
    end
  else (sc_indent s, sc_indents s).

Theorem block_nesting_limit_rejected (s : sc strin) col number tk mk :
  sc_flow_level s = 0%N ->
  (fst (effective_indents s col) < Z.of_N col)%Z ->
  (BLOCK_NESTING_MAX <= N.of_nat (length (snd (effective_indents s col))))%N ->
  roll_indent col number tk mk s = Err 46 (sc_mark s).
Proof.
  intros HF HL HN. unfold roll_indent. unfold bind at 1, get at 1. rewrite HF. cbn [N.ltb N.compare].
  fold (effective_indents s col).
  destruct (effective_indents s col) as [ind inds]. cbn [fst snd] in HL, HN.
  apply Z.ltb_lt in HL. apply N.leb_le in HN. rewrite HL, HN. reflexivity.
Qed.

(* the plain case: every open indentation level is a block collection and 255 (or more) of them are open *)
Corollary block_nesting_limit_plain_rejected (s : sc strin) col number tk mk :
  sc_flow_level s = 0%N -> (sc_indent s < Z.of_N col)%Z ->
  (forall i r, sc_indents s = i :: r -> in_needs_block_end i = true) ->
  (255 <= length (sc_indents s))%nat ->
  roll_indent col number tk mk s = Err 46 (sc_mark s).
Proof.
  intros HF HL HI HN.
  assert (E : effective_indents s col = (sc_indent s, sc_indents s)).
  { unfold effective_indents. destruct (sc_indent s <=? Z.of_N col)%Z; [|reflexivity].
    destruct (sc_indents s) as [|i r] eqn:EI; [reflexivity|]. rewrite (HI i r eq_refl). reflexivity. }
  apply block_nesting_limit_rejected; [exact HF | rewrite E; exact HL | rewrite E; cbn [snd]].
  change BLOCK_NESTING_MAX with 255%N. lia.
Qed.

(* parser half: where a block mapping expects its next key (or its end) anything else -- in particular the
   BlockMappingStart / BlockSequenceStart / scalar of a mis-indented line -- is error site 5 at that token; where a block
   sequence expects its next entry, site 8 *)
Definition continues_block_mapping (tk : tok) : bool :=
  match tk with TKey | TValue | TBlockEnd => true | _ => false end.
Definition continues_block_sequence (tk : tok) : bool :=
  match tk with TBlockEntry | TBlockEnd => true | _ => false end.

Theorem misindented_key_rejected p sp tk r :
  p_state p = SBlockMappingKey -> toks_ahead p = (sp, tk) :: r -> continues_block_mapping tk = false ->
  state_machine p = Parser.Err (PErr 5 (sp_start sp)).
Proof.
  intros HS HT HC. unfold state_machine. rewrite HS. unfold block_mapping_key. rewrite (peek_norm _ _ _ HT).
  destruct tk; cbn in HC; try discriminate; reflexivity.
Qed.

Theorem misindented_entry_rejected p sp tk r :
  p_state p = SBlockSequenceEntry -> toks_ahead p = (sp, tk) :: r -> continues_block_sequence tk = false ->
  state_machine p = Parser.Err (PErr 8 (sp_start sp)).
Proof.
  intros HS HT HC. unfold state_machine. rewrite HS. unfold block_sequence_entry. rewrite (peek_norm _ _ _ HT).
  destruct tk; cbn in HC; try discriminate; reflexivity.
Qed.

(* a document whose root node is a scalar, followed by any token that can only be more content: every such TOKEN stream,
   and every TEXT whose token stream has this shape, is rejected with site 3 at that token *)
Theorem second_root_after_scalar_rejected sp0 sp1 st v sp2 tk r keep se fuel :
  content_tok tk = true ->
  run_end (5 + fuel) (init_parser ((sp0, TStreamStart) :: (sp1, TScalar st v) :: (sp2, tk) :: r) keep) se []
  = PParseErr 3 (sp_start sp2).
Proof.
  intros HC. cbn [Nat.add].
  erewrite run_ok1; [ | cbn; discriminate | reflexivity ].
  erewrite run_ok1; [ | cbn; discriminate | reflexivity ].
  erewrite run_ok1; [ | cbn; discriminate | reflexivity ].
  apply (second_root_run_rejected _ sp2 tk r fuel se); [reflexivity | reflexivity | exact HC].
Qed.

Lemma run_end_eq f p se acc : run_end f p se acc = snd (parse_all f p se acc).
Proof. reflexivity. Qed.

Theorem second_root_after_scalar_text_rejected s sp0 sp1 st v sp2 tk r :
  fst (scan_of s) = (sp0, TStreamStart) :: (sp1, TScalar st v) :: (sp2, tk) :: r -> content_tok tk = true ->
  snd (run_str s) = PParseErr 3 (sp_start sp2).
Proof.
  intros HT HC. destruct (run_str_scan_of s) as (pf & Hpf & ->). rewrite HT.
  assert (HO : exists fuel, (pf = 5 + fuel)%nat) by (exists (pf - 5)%nat; lia).
  destruct HO as (fuel & ->).
  generalize (snd (scan_of s)). intros se.
  pose proof (second_root_after_scalar_rejected sp0 sp1 st v sp2 tk r false se fuel HC) as H.
  rewrite run_end_eq in H. exact H.
Qed.

(* ================================================================================================ *)
(* (5) the recorded texts: three repaired (now rejected), one still accepted                          *)
(* ================================================================================================ *)
Open Scope N_scope.
Definition stray_closer_text : list N := [91;32;63;32;93;32;93].                               (* [ ? ] ]            *)
Definition empty_explicit_key_text : list N := [91;32;63;32;93].                               (* [ ? ]              *)
Definition multiline_flow_pair_key_text : list N :=                                             (* - {} NL - [ DQ a NL b DQ: v ] *)
  [45;32;123;125;10;45;32;91;32;34;97;10;32;98;34;58;32;118;32;93;10].
Definition multiline_flow_pair_key_other_document_text : list N :=                              (* {} NL --- NL [ a NL b: v ] *)
  [123;125;10;45;45;45;10;91;32;97;10;32;98;58;32;118;32;93;10].
Definition long_flow_pair_key_text : list N := [91;32] ++ repeat 107 1025 ++ [58;32;118;32;93;10].  (* [ k^1025: v ]  *)
Definition longest_flow_pair_key_text : list N := [91;32] ++ repeat 107 1024 ++ [58;32;118;32;93;10]. (* [ k^1024: v ] *)
Definition long_flow_mapping_key_text : list N := [123;32] ++ repeat 107 1025 ++ [58;32;118;32;125;10]. (* { k^1025: v } *)
Definition flow_continuation_text : list N := [107;58;32;91;97;44;10;39;98;39;93;10].         (* k: [a,  NL 'b']   *)

(* repaired by /repo c5ad60c: the implementation now reports "did not find expected <document start>" at 6:1:6 *)
Lemma stray_closer_rejected :
  snd (run_str stray_closer_text) = PParseErr 3 {| m_index := 6; m_line := 1; m_col := 6 |}.
Proof. vm_compute. reflexivity. Qed.
(* ... and the legal "[ ? ]" is accepted (the repair does not reject too much) *)
Lemma empty_explicit_key_accepted : snd (run_str empty_explicit_key_text) = PDone.
Proof. vm_compute. reflexivity. Qed.

(* repaired by /repo ad74b3e: "illegal placement of ':' indicator" also behind an earlier flow mapping, in the same
   document and in an earlier one *)
Lemma multiline_flow_pair_key_text_rejected :
  snd (run_str multiline_flow_pair_key_text) = PScanErr 98 {| m_index := 15; m_line := 3; m_col := 3 |}.
Proof. vm_compute. reflexivity. Qed.
Lemma multiline_flow_pair_key_other_document_rejected :
  snd (run_str multiline_flow_pair_key_other_document_text) = PScanErr 98 {| m_index := 13; m_line := 4; m_col := 2 |}.
Proof. vm_compute. reflexivity. Qed.

(* repaired by /repo 57aa316: "illegal placement of ':' indicator" at the ':' behind a 1025-character key of a flow-sequence
   pair; a key of exactly 1024 characters and a 1025-character key of a flow MAPPING stay accepted *)
Lemma long_flow_pair_key_text_rejected :
  snd (run_str long_flow_pair_key_text) = PScanErr 98 {| m_index := 1027; m_line := 1; m_col := 1027 |}.
Proof. vm_compute. reflexivity. Qed.
Lemma longest_flow_pair_key_accepted : snd (run_str longest_flow_pair_key_text) = PDone.
Proof. vm_compute. reflexivity. Qed.
Lemma long_flow_mapping_key_accepted : snd (run_str long_flow_mapping_key_text) = PDone.
Proof. vm_compute. reflexivity. Qed.

(* still accepted (known finding) *)
Lemma flow_continuation_at_block_indentation_accepted : snd (run_str flow_continuation_text) = PDone.
Proof. vm_compute. reflexivity. Qed.

Lemma long_flow_pair_key_is_damaged : damaged_long_key long_flow_pair_key_text.
Proof. exact long_flow_pair_key_damaged. Qed.
Lemma flow_continuation_is_damaged : damaged_known flow_continuation_text.
Proof.
  change flow_continuation_text with ([107] ++ [58; 32; 91] ++ [97] ++ [44; 10; 39] ++ [98] ++ [39; 93; 10]).
  apply DFlowContinuationAtBlockIndent; (split; [discriminate | repeat constructor; cbv; discriminate]).
Qed.

Definition C06_full_for (ill_formed : list N -> Prop) : Prop := forall s, ill_formed s -> snd (run_str s) <> PDone.

Lemma C06_full_for_refuted_by_known (ill_formed : list N -> Prop) :
  ill_formed flow_continuation_text -> ~ C06_full_for ill_formed.
Proof. intros H HF. apply (HF _ H). exact flow_continuation_at_block_indentation_accepted. Qed.

(* what IS proved of the full statement, for every text: the partial form *)
Definition C06_full_partial_statement : Prop :=
  forall s, (exists e m, snd (scan_of s) = SError e m) \/ (exists n, snd (scan_of s) = SPanic n)
            \/ flow_balanced (fst (scan_of s)) [] = false ->
            snd (run_str s) <> PDone.

(* ================================================================================================ *)
(* (6) composition: a scanner-layer rejection at ANY point the scanner reaches rejects the whole text   *)
(* ================================================================================================ *)
(* [reach F n s s']: the token iterator, started in [s], delivers [n] tokens and is then in state [s'] *)
Inductive reach (F : nat) : nat -> sc strin -> sc strin -> Prop :=
| reach_0 s : reach F 0 s s
| reach_S n s t s1 s2 : next_token str_ops F s = Ok (Some t, s1) -> reach F n s1 s2 -> reach F (S n) s s2.

Lemma scan_all_reach F n s s' : reach F n s s' ->
  forall fuel acc, exists acc', scan_all str_ops F (n + fuel) s acc = scan_all str_ops F fuel s' acc'.
Proof.
  induction 1 as [s|n s t s1 s2 HN HR IH]; intros fuel acc.
  - exists acc. reflexivity.
  - cbn [Nat.add scan_all]. rewrite HN. apply IH.
Qed.

Theorem reachable_scan_error_rejected l n s e m :
  reach (scan_fuel l) n (init_sc {| si_chars := l; si_look := 0 |}) s ->
  (n < 4 * scan_fuel l + 20)%nat ->
  next_token str_ops (scan_fuel l) s = Err e m ->
  snd (run_str l) <> PDone.
Proof.
  intros HR Hn HE. apply scan_error_rejected. left. exists e, m. unfold scan_of.
  assert (HO : exists fuel, (4 * scan_fuel l + 20 = n + S fuel)%nat) by (exists (4 * scan_fuel l + 19 - n)%nat; lia).
  destruct HO as (fuel & ->).
  destruct (scan_all_reach _ _ _ _ HR (S fuel) []) as (acc' & ->).
  cbn [scan_all]. rewrite HE. reflexivity.
Qed.

(* with an empty token queue a failing [fetch_next_token] is enough *)
Corollary reachable_fetch_error_rejected l n s e m :
  reach (scan_fuel l) n (init_sc {| si_chars := l; si_look := 0 |}) s ->
  (n < 4 * scan_fuel l + 20)%nat ->
  sc_stream_end s = false -> sc_token_available s = false -> sc_tokens s = [] ->
  fetch_next_token str_ops (scan_fuel l) s = Err e m ->
  snd (run_str l) <> PDone.
Proof.
  intros HR Hn H1 H2 H3 HE. apply (reachable_scan_error_rejected l n s e m HR Hn).
  apply next_token_fetch_err; try assumption. unfold scan_fuel. lia.
Qed.

(* the state behind StreamStart is reached after one token *)
Lemma reach_after_stream_start l :
  reach (scan_fuel l) 1 (init_sc {| si_chars := l; si_look := 0 |}) (after_stream_start l).
Proof.
  assert (HF : exists F', scan_fuel l = S (S F')) by (unfold scan_fuel; exists (2 * length l + 8)%nat; lia).
  destruct HF as (F' & ->). eapply reach_S; [apply first_token | apply reach_0].
Qed.

(* ================================================================================================ *)
(* (7) a quoted implicit key that spans lines (block context)                                         *)
(* ================================================================================================ *)
(* what scan_flow_scalar does once its loop has stopped at the closing quote *)
Definition flow_scalar_tail (F : nat) (single : bool) (start : marker) (str : list chr) : @M strin token :=
  skip_non_blank str_ops ;;; skip_ws_to_eol str_ops F SkipYes ;;;
  c <- peek str_ops ;; s <- get ;;
  let fl := 0 <? sc_flow_level s in
  if (((c =? 44) || (c =? 125) || (c =? 93)) && fl) || is_breakz c
     || ((c =? 58) && negb fl && (m_line start =? m_line (sc_mark s))) || ((c =? 58) && fl)
  then ret ({| sp_start := start; sp_end := sc_mark s |},
            TScalar (if single then SingleQuoted else DoubleQuoted) (rev str))
  else fail 74 (sc_mark s).

Lemma scan_flow_scalar_tail F single :
  scan_flow_scalar str_ops F single
  = (start <- mark ;; skip_non_blank str_ops ;;; str <- flow_go F single start F [] false 0 [] ;;
     flow_scalar_tail F single start str).
Proof. reflexivity. Qed.

(* ANY state in block context standing on the closing quote of a quoted scalar that began on an EARLIER line, followed by
   blanks and ':' (the scalar would be an implicit key): site 74 ("invalid trailing content after double-quoted scalar")
   at the ':' -- a quoted implicit key may not span lines *)
Theorem multiline_quoted_key_rejected F single start str (s : sc strin) q ws rest :
  chars_of s = q :: ws ++ 58 :: rest -> blank_run SkipYes ws ->
  sc_flow_level s = 0 -> m_line start <> m_line (sc_mark s) -> (length ws < F)%nat ->
  flow_scalar_tail F single start str s = Err 74 (adv (N.of_nat (length ws)) (adv 1 (sc_mark s))).
Proof.
  intros HC HB HFL HLn HF. unfold flow_scalar_tail.
  unfold bind at 1. unfold skip_non_blank at 1, bind at 1, in_skip at 1, modify at 1.
  unfold bind at 1, adv_mark at 1, modify at 1. unfold modify at 1.
  match goal with |- context [bind (skip_ws_to_eol str_ops F SkipYes) ?f ?st] => set (s1 := st) end.
  assert (HC1 : chars_of s1 = ws ++ 58 :: rest).
  { unfold s1. cbn [sc_in set_lws set_flags set_mark set_in upd si_chars skip1 str_ops]. rewrite HC. reflexivity. }
  assert (HSt : stops_ws SkipYes 58) by (repeat split; discriminate).
  destruct (skip_ws_to_eol_run ws F SkipYes s1 58 rest HC1 HB HSt HF) as (lk & tw & E).
  rewrite (bind_Ok _ _ _ _ _ E).
  unfold bind at 1, peek at 1, peekn at 1. cbn [peek_nth str_ops sc_in set_mark with_chars set_in upd si_chars nth].
  unfold bind at 1, get at 1.
  cbn [sc_flow_level sc_mark set_mark with_chars set_in upd s1 set_lws set_flags]. rewrite HFL.
  change (0 <? 0) with false. change (58 =? 44) with false. change (58 =? 125) with false. change (58 =? 93) with false.
  change (is_breakz 58) with false. change (58 =? 58) with true. cbn [andb orb negb].
  assert (EL : (m_line start =? m_line (sc_mark s)) = false) by (apply N.eqb_neq; exact HLn).
  unfold adv at 1. cbn [m_line]. unfold adv at 1. cbn [m_line]. rewrite EL. cbn [orb]. reflexivity.
Qed.

(* ================================================================================================ *)
(* (8) text-level families: a fixed first part, then ANY continuation of the stated shape               *)
(* ================================================================================================ *)
(* one evaluation step of the token iterator on a state whose input has a concrete beginning and a symbolic rest *)
Ltac reach_step :=
  eapply reach_S;
  [ match goal with |- ?lhs = _ => let r := eval vm_compute in lhs in exact (@eq_refl _ r <: lhs = r) end | ].

Lemma scan_fuel_big l : (4 <= length l)%nat -> exists F', scan_fuel l = (18 + F')%nat.
Proof. intros H. unfold scan_fuel. exists (2 * length l - 8)%nat. lia. Qed.

(* skip_to_next_token over one space / one line feed *)
Definition after_space (s : sc strin) : sc strin :=
  set_mark (adv 1 (sc_mark s)) (with_chars s (tl (chars_of s)) (Nat.max (si_look (sc_in s)) 1)).
Lemma skip_to_next_token_space F (s : sc strin) :
  nth 0 (chars_of s) 0 = 32 -> skip_to_next_token str_ops (S F) s = skip_to_next_token str_ops F (after_space s).
Proof.
  intros HC. cbn [skip_to_next_token].
  unfold look_ch, look at 1, peek, peekn, bind at 1, bind at 1. cbn [lookahead peek_nth str_ops].
  cbn [sc_in set_in upd si_chars]. unfold chr in *. rewrite HC.
  unfold bind at 1, get at 1. unfold bind at 1, is_within_block at 1, gets at 1.
  change (32 =? 9) with false. change (32 =? 32) with true. cbn [andb orb].
  unfold bind at 1. unfold skip_blank at 1, bind at 1, in_skip at 1, modify at 1. unfold adv_mark at 1, modify at 1.
  reflexivity.
Qed.

Definition after_newline (s : sc strin) : sc strin :=
  let s1 := set_lws true (set_mark (nlm (sc_mark s)) (with_chars s (tl (chars_of s)) (Nat.max (Nat.max (si_look (sc_in s)) 1) 2))) in
  if sc_flow_level s =? 0 then set_ska true s1 else s1.
Lemma skip_to_next_token_newline F (s : sc strin) :
  nth 0 (chars_of s) 0 = 10 ->
  skip_to_next_token str_ops (S F) s = skip_to_next_token str_ops F (after_newline s).
Proof.
  intros HC. cbn [skip_to_next_token].
  unfold look_ch, look at 1, peek, peekn, bind at 1, bind at 1. cbn [lookahead peek_nth str_ops].
  cbn [sc_in set_in upd si_chars]. unfold chr in *. rewrite HC.
  unfold bind at 1, get at 1. unfold bind at 1, is_within_block at 1, gets at 1.
  change (10 =? 9) with false. change (10 =? 32) with false. change (10 =? 10) with true. cbn [andb orb].
  unfold bind at 1, look at 1. cbn [lookahead str_ops].
  unfold bind at 1. unfold skip_linebreak at 1.
  unfold bind at 1. unfold next_2_are at 1, bind at 1, assert_buflen at 1. cbn [buflen str_ops sc_in set_in upd si_look].
  assert (E : forall a, Nat.ltb (Nat.max a 2) 2 = false) by (intros a; apply Nat.ltb_ge; lia). rewrite E.
  unfold bind at 1, peek at 1, peekn at 1. cbn [peek_nth str_ops sc_in set_in upd si_chars]. unfold chr in *; rewrite HC.
  unfold bind at 1, peekn at 1. cbn [peek_nth str_ops sc_in set_in upd si_chars]. unfold ret at 1.
  change (10 =? 13) with false. cbn [andb].
  unfold bind at 1, peek at 1, peekn at 1. cbn [peek_nth str_ops sc_in set_in upd si_chars]. unfold chr in *; rewrite HC.
  change (is_break 10) with true. cbn iota.
  unfold skip_nl at 1, bind at 1, in_skip at 1, modify at 1. unfold modify at 1.
  unfold bind at 1, flow_level at 1, gets at 1. cbn [sc_flow_level set_lws set_flags set_mark set_in upd].
  unfold after_newline.
  destruct (sc_flow_level s =? 0); unfold bind at 1, allow_simple_key, modify, ret; reflexivity.
Qed.

(* ---- family 1: a block mapping whose first value opens a quoted scalar that is never closed (k: QUOTE ...) ---- *)
Theorem open_quote_in_mapping_value_rejected single body :
  qfree single body -> snd (run_str ([107; 58; 32] ++ qchar single :: body)) <> PDone.
Proof.
  intros HQ. set (l := [107; 58; 32] ++ qchar single :: body).
  destruct (scan_fuel_big l) as (F' & HF); [unfold l; cbn [length app]; lia|].
  assert (R : exists s5, reach (18 + F') 5 (init_sc {| si_chars := l; si_look := 0 |}) s5
                /\ chars_of s5 = 32 :: qchar single :: body /\ sc_tokens s5 = [] /\ sc_stream_end s5 = false
                /\ sc_token_available s5 = false /\ sc_stream_start s5 = true
                /\ sorted_from (sc_indent s5) (sc_indents s5) = true /\ sc_flow_level s5 = 0
                /\ (forall k, In k (sc_sks s5) -> sk_required k = false)).
  { unfold l. destruct single; cbn [app qchar]; eexists; (split;
    [ reach_step; reach_step; reach_step; reach_step; reach_step; apply reach_0
    | cbn; repeat split; intros k [<-|[]]; reflexivity ]). }
  destruct R as (s5 & R & HC & HT & HE & HA & HSS & HS & HFL & HR).
  rewrite <- HF in R.
  assert (EF : errs (fetch_next_token str_ops (scan_fuel l) s5)).
  { rewrite (fetch_next_token_started _ s5 HSS). rewrite HF. cbn [Nat.add].
    unfold bind at 1. rewrite skip_to_next_token_space; [|cbn [looked with_chars set_in upd sc_in si_chars]; rewrite HC; reflexivity].
    set (s6 := after_space (looked s5 1)).
    assert (HC6 : chars_of s6 = qchar single :: body).
    { unfold s6, after_space. cbn [looked with_chars set_in upd sc_in si_chars set_mark]. rewrite HC. reflexivity. }
    assert (HN : not_skipped (nth 0 (chars_of s6) 0)).
    { rewrite HC6. cbn [nth]. destruct single; repeat split; discriminate. }
    match goal with |- context [skip_to_next_token str_ops ?f s6] => set (f0 := f) end.
    assert (Hf : (0 < f0)%nat) by (unfold f0; lia).
    rewrite (skip_to_next_token_stop f0 s6 Hf HN). cbn beta iota.
    assert (HC7 : chars_of (looked s6 1) = qchar single :: body) by exact HC6.
    assert (HS7 : sorted_from (sc_indent (looked s6 1)) (sc_indents (looked s6 1)) = true) by exact HS.
    assert (HR7 : forall k, In k (sc_sks (looked s6 1)) -> sk_required k = false) by exact HR.
    apply (open_quoted_scalar_rest_rejected (S f0) single (looked s6 1) body HC7 HQ); [ | exact HS7 | right; exact HR7 ].
    unfold f0.
    unfold scan_fuel, l in HF. cbn [length app] in HF. lia. }
  destruct EF as (e & m & EF).
  apply (reachable_fetch_error_rejected l 5 s5 e m R); try assumption. lia.
Qed.

(* ---- family 2: a block sequence whose first entry opens a quoted scalar that is never closed (- QUOTE ...) ---- *)
Theorem open_quote_in_sequence_entry_rejected single body :
  qfree single body -> snd (run_str ([45; 32] ++ qchar single :: body)) <> PDone.
Proof.
  intros HQ. set (l := [45; 32] ++ qchar single :: body).
  assert (HF : exists F', scan_fuel l = (16 + F')%nat).
  { unfold scan_fuel, l. cbn [length app]. exists (2 * length body)%nat. lia. }
  destruct HF as (F' & HF).
  assert (R : exists s3, reach (16 + F') 3 (init_sc {| si_chars := l; si_look := 0 |}) s3
                /\ chars_of s3 = qchar single :: body /\ sc_tokens s3 = [] /\ sc_stream_end s3 = false
                /\ sc_token_available s3 = false /\ sc_stream_start s3 = true
                /\ sorted_from (sc_indent s3) (sc_indents s3) = true
                /\ (forall k, In k (sc_sks s3) -> sk_required k = false)).
  { unfold l. destruct single; cbn [app qchar]; eexists; (split;
    [ reach_step; reach_step; reach_step; apply reach_0
    | cbn; repeat split; intros k [<-|[]]; reflexivity ]). }
  destruct R as (s3 & R & HC & HT & HE & HA & HSS & HS & HR).
  rewrite <- HF in R.
  assert (EF : errs (fetch_next_token str_ops (scan_fuel l) s3)).
  { apply (open_quoted_scalar_next_rejected _ single s3 body HSS HC HQ); [ | exact HS | right; exact HR ].
    unfold scan_fuel, l. cbn [length app]. lia. }
  destruct EF as (e & m & EF).
  apply (reachable_fetch_error_rejected l 3 s3 e m R); try assumption. lia.
Qed.

(* ---- family 3: a tab as indentation of the first nested line of a block mapping:
        "a:" NL TAB, any blanks, then content, then anything ---- *)
Theorem tab_indentation_text_rejected ws c rest :
  blank_run SkipYes ws -> is_content_start c ->
  snd (run_str ([97; 58; 10; 9] ++ ws ++ c :: rest)) <> PDone.
Proof.
  intros HB HCc. set (l := [97; 58; 10; 9] ++ ws ++ c :: rest).
  assert (HF : exists F', scan_fuel l = (20 + F')%nat /\ (length ws <= F')%nat).
  { unfold scan_fuel, l. cbn [length app]. rewrite app_length. cbn [length].
    exists (2 * (length ws + length rest))%nat. lia. }
  destruct HF as (F' & HF & HW).
  assert (R : exists s5, reach (20 + F') 5 (init_sc {| si_chars := l; si_look := 0 |}) s5
                /\ chars_of s5 = 10 :: 9 :: ws ++ c :: rest /\ sc_tokens s5 = [] /\ sc_stream_end s5 = false
                /\ sc_token_available s5 = false /\ sc_stream_start s5 = true
                /\ sc_indents s5 <> [] /\ sc_flow_level s5 = 0 /\ sc_indent s5 = 1%Z
                /\ sc_mark s5 = {| m_index := 2; m_line := 1; m_col := 2 |}).
  { unfold l. cbn [app]. eexists. split.
    - reach_step. reach_step. reach_step. reach_step. reach_step. apply reach_0.
    - cbn. repeat split. discriminate. }
  destruct R as (s5 & R & HC & HT & HE & HA & HSS & HI & HFL & HIN & HM).
  rewrite <- HF in R.
  assert (EF : errs (fetch_next_token str_ops (scan_fuel l) s5)).
  { rewrite (fetch_next_token_started _ s5 HSS). rewrite HF. cbn [Nat.add].
    apply errs_bind.
    rewrite skip_to_next_token_newline; [|cbn [looked with_chars set_in upd sc_in si_chars]; rewrite HC; reflexivity].
    set (s6 := after_newline (looked s5 1)).
    match goal with |- context [skip_to_next_token str_ops ?f s6] => set (f0 := f) end.
    assert (E : skip_to_next_token str_ops f0 s6 = Err 41 (adv (N.of_nat (S (length ws))) (sc_mark s6))).
    { apply (tab_indentation_rejected f0 s6 ws c rest).
      - unfold s6, after_newline. cbn [sc_flow_level looked with_chars set_in upd]. rewrite HFL. change (0 =? 0) with true.
        cbn [sc_in set_ska set_flags set_lws set_mark set_in upd with_chars si_chars looked]. rewrite HC. reflexivity.
      - exact HB.
      - exact HCc.
      - unfold s6, after_newline. cbn [sc_flow_level looked with_chars set_in upd]. rewrite HFL. change (0 =? 0) with true.
        exact HI.
      - unfold s6, after_newline. cbn [sc_flow_level looked with_chars set_in upd]. rewrite HFL. reflexivity.
      - unfold s6, after_newline. cbn [sc_flow_level looked with_chars set_in upd]. rewrite HFL. change (0 =? 0) with true.
        cbn [sc_mark sc_indent set_ska set_flags set_lws set_mark set_in upd with_chars looked]. rewrite HIN. cbn. lia.
      - unfold f0. lia. }
    rewrite E. apply errs_Err. }
  destruct EF as (e & m & EF).
  apply (reachable_fetch_error_rejected l 5 s5 e m R); try assumption. lia.
Qed.

(* ---- family 4: a root scalar, then a document-end marker with content on its line:
        "a" NL "..." blank, any blanks, content, anything ---- *)
Theorem content_after_document_end_behind_scalar_rejected b ws c rest :
  (b = 32 \/ b = 9) -> blank_run SkipYes ws -> is_content_start c ->
  snd (run_str ([97; 10; 46; 46; 46] ++ b :: ws ++ c :: rest)) <> PDone.
Proof.
  intros Hb HB HCc. set (l := [97; 10; 46; 46; 46] ++ b :: ws ++ c :: rest).
  assert (HF : exists F', scan_fuel l = (20 + F')%nat /\ (length ws <= F')%nat).
  { unfold scan_fuel, l. cbn [length app]. rewrite app_length. cbn [length].
    exists (4 + 2 * (length ws + length rest))%nat. lia. }
  destruct HF as (F' & HF & HW).
  assert (R : exists s2 k0 r0, reach (20 + F') 2 (init_sc {| si_chars := l; si_look := 0 |}) s2
                /\ chars_of s2 = 46 :: 46 :: 46 :: b :: ws ++ c :: rest /\ sc_tokens s2 = [] /\ sc_stream_end s2 = false
                /\ sc_token_available s2 = false /\ sc_stream_start s2 = true
                /\ m_col (sc_mark s2) = 0 /\ sorted_from (sc_indent s2) (sc_indents s2) = true
                /\ sc_sks s2 = k0 :: r0 /\ (forall k, In k (sc_sks s2) -> sk_required k = false)).
  { unfold l. destruct Hb as [-> | ->]; cbn [app]; do 3 eexists; (split;
    [ reach_step; reach_step; apply reach_0
    | cbn; repeat split; intros k [<-|[]]; reflexivity ]). }
  destruct R as (s2 & k0 & r0 & R & HC & HT & HE & HA & HSS & HCol & HS & HK & HR).
  rewrite <- HF in R.
  assert (EF : errs (fetch_next_token str_ops (scan_fuel l) s2)).
  { rewrite (content_after_document_end_rejected (scan_fuel l) s2 b ws c rest k0 r0 HSS HC Hb HB HCc HCol HS HK HR).
    - apply errs_Err.
    - rewrite HF. lia. }
  destruct EF as (e & m & EF).
  apply (reachable_fetch_error_rejected l 2 s2 e m R); try assumption. lia.
Qed.

(* ================================================================================================ *)
(* (9) a flow collection closed by the bracket of the other kind (/repo 88700d3)                       *)
(* ================================================================================================ *)
(* everything [fetch_next_token] does once it knows that the token is no directive / document marker / end of stream *)
Definition dispatch (F : nat) (s : sc strin) : @M strin unit :=
  if (Z.of_N (m_col (sc_mark s)) <? sc_indent s)%Z then fail 102 (sc_mark s) else
  c <- peek str_ops ;; nc <- peekn str_ops 1 ;;
  let fl := 0 <? sc_flow_level s in
  let bz := is_blank_or_breakz nc in
  if c =? 91 then fetch_flow_collection_start str_ops F true
  else if c =? 123 then fetch_flow_collection_start str_ops F false
  else if c =? 93 then fetch_flow_collection_end str_ops F true
  else if c =? 125 then fetch_flow_collection_end str_ops F false
  else if c =? 44 then fetch_flow_entry str_ops F
  else if (c =? 45) && bz then fetch_block_entry str_ops F
  else if (c =? 63) && bz then fetch_key str_ops F
  else if (c =? 58) && bz then fetch_value str_ops F
  else if (c =? 58) && fl && (is_flow nc || (m_index (sc_mark s) =? sc_adjacent s)) then fetch_flow_value str_ops F
  else if c =? 42 then fetch_anchor str_ops F true
  else if c =? 38 then fetch_anchor str_ops F false
  else if c =? 33 then fetch_tag str_ops F
  else if (c =? 124) && negb fl then fetch_block_scalar str_ops F true
  else if (c =? 62) && negb fl then fetch_block_scalar str_ops F false
  else if c =? 39 then fetch_flow_scalar str_ops F true
  else if c =? 34 then fetch_flow_scalar str_ops F false
  else if (c =? 45) && negb bz then fetch_plain_scalar str_ops F
  else if ((c =? 58) || (c =? 63)) && negb bz && negb fl then fetch_plain_scalar str_ops F
  else if (c =? 37) || (c =? 64) || (c =? 96) then fail 103 (sc_mark s)
  else fetch_plain_scalar str_ops F.

(* a character that starts neither a directive nor (possibly) a document marker where the scanner stands *)
Definition no_marker_start (s : sc strin) (c : N) : Prop :=
  c <> 0 /\ (m_col (sc_mark s) <> 0 \/ (c <> 37 /\ c <> 45 /\ c <> 46)).

(* ANY state with a well-formed indentation stack and no required stale key, standing on such a character: what is left of
   [fetch_next_token] behind skip_to_next_token is [dispatch], in a state that differs only by invalidated key candidates,
   closed block collections (block context only) and the lookahead counter *)
Lemma fetch_rest_dispatch F (s1 : sc strin) :
  sorted_from (sc_indent s1) (sc_indents s1) = true ->
  (sc_flow_level s1 <> 0 \/ forall k, In k (sc_sks s1) -> sk_required k = false) ->
  no_marker_start s1 (nth 0 (chars_of s1) 0) ->
  exists s4, fetch_rest F s1 = dispatch F s4 s4
             /\ chars_of s4 = chars_of s1 /\ (4 <= si_look (sc_in s4))%nat /\ sc_mark s4 = sc_mark s1
             /\ sc_flow_level s4 = sc_flow_level s1 /\ sc_ifms s4 = sc_ifms s1
             /\ Forall2 (fun k k' => k' = k \/ k' = invalidate k) (sc_sks s1) (sc_sks s4)
             /\ sorted_from (sc_indent s4) (sc_indents s4) = true
             /\ (sc_flow_level s1 <> 0 -> sc_indent s4 = sc_indent s1 /\ sc_indents s4 = sc_indents s1 /\ sc_tokens s4 = sc_tokens s1).
Proof.
  intros HS HR (HZ & HD). unfold fetch_rest.
  destruct (stale_simple_keys_ok s1 HR) as (sks' & E & HF2).
  rewrite (bind_Ok _ _ _ _ _ E).
  set (s2 := set_sks sks' s1).
  unfold bind at 1. unfold mark at 1, gets at 1.
  assert (HS2 : sorted_from (sc_indent s2) (sc_indents s2) = true) by exact HS.
  destruct (unroll_indent_ok (Z.of_N (m_col (sc_mark s2))) s2 ltac:(lia) HS2) as (s3 & E3 & (A1 & A2 & A3 & A4 & A5) & HS3).
  rewrite (bind_Ok _ _ _ _ _ E3).
  assert (FL3 : sc_flow_level s1 <> 0 -> s3 = s2).
  { intros HFL. unfold unroll_indent, bind, get in E3. change (sc_flow_level s2) with (sc_flow_level s1) in E3.
    assert (HFL' : (0 <? sc_flow_level s1) = true) by (apply N.ltb_lt; lia). rewrite HFL' in E3. inversion E3. reflexivity. }
  unfold bind at 1. unfold look at 1. cbn [lookahead str_ops].
  set (s4 := set_in {| si_chars := chars_of s3; si_look := Nat.max (si_look (sc_in s3)) 4 |} s3).
  assert (HC4 : chars_of s4 = chars_of s1) by (unfold s4; cbn [sc_in set_in upd si_chars]; rewrite A1; reflexivity).
  assert (HM4 : sc_mark s4 = sc_mark s1) by (unfold s4; cbn [sc_mark set_in upd]; rewrite A2; reflexivity).
  unfold bind at 1. unfold next_is at 1, bind at 1, peek at 1, peekn at 1. cbn [peek_nth str_ops]. rewrite HC4.
  unfold ret at 1. unfold is_z. apply N.eqb_neq in HZ. unfold chr in *. rewrite HZ.
  unfold bind at 1. unfold get at 1.
  unfold bind at 1. unfold peek at 1, peekn at 1. cbn [peek_nth str_ops]. rewrite HC4.
  assert (EC4 : (m_col (sc_mark s4) =? 0) = (m_col (sc_mark s1) =? 0)) by (rewrite HM4; reflexivity).
  rewrite !EC4.
  assert (LB4 : Nat.ltb (buflen str_ops (sc_in s4)) 4 = false) by (apply Nat.ltb_ge; cbn; lia).
  assert (LB3 : Nat.ltb (buflen str_ops (sc_in s4)) 3 = false) by (apply Nat.ltb_ge; cbn; lia).
  assert (FIN : dispatch F s4 s4 = dispatch F s4 s4 ->
                exists s4', dispatch F s4 s4 = dispatch F s4' s4'
             /\ chars_of s4' = chars_of s1 /\ (4 <= si_look (sc_in s4'))%nat /\ sc_mark s4' = sc_mark s1
             /\ sc_flow_level s4' = sc_flow_level s1 /\ sc_ifms s4' = sc_ifms s1
             /\ Forall2 (fun k k' => k' = k \/ k' = invalidate k) (sc_sks s1) (sc_sks s4')
             /\ sorted_from (sc_indent s4') (sc_indents s4') = true
             /\ (sc_flow_level s1 <> 0 -> sc_indent s4' = sc_indent s1 /\ sc_indents s4' = sc_indents s1 /\ sc_tokens s4' = sc_tokens s1)).
  { intros _. exists s4. split; [reflexivity|]. split; [exact HC4|]. split; [cbn; lia|]. split; [exact HM4|].
    split; [unfold s4; cbn [sc_flow_level set_in upd]; rewrite A4; reflexivity|].
    split; [unfold s4; cbn [sc_ifms set_in upd]; rewrite A5; reflexivity|].
    split; [unfold s4; cbn [sc_sks set_in upd]; rewrite A3; exact HF2|].
    split; [exact HS3|].
    intros HFL. unfold s4. rewrite (FL3 HFL). repeat split. }
  destruct HD as [HD|(D1 & D2 & D3)].
  - apply N.eqb_neq in HD. rewrite HD. cbn [andb]. unfold bind at 1, ret at 1. unfold bind at 1, ret at 1.
    exact (FIN eq_refl).
  - apply N.eqb_neq in D1, D2, D3. unfold chr in *. rewrite D1. cbn [negb andb].
    destruct (m_col (sc_mark s1) =? 0) eqn:EC.
    + cbn [andb].
      assert (DS : next_is_document_start str_ops s4 = Ok (false, s4)).
      { unfold next_is_document_start, bind at 1, assert_buflen at 1. rewrite LB4.
        unfold bind at 1. unfold next_3_are at 1, bind at 1, assert_buflen at 1. rewrite LB3.
        unfold bind, peek, peekn. cbn [peek_nth str_ops]. rewrite HC4. unfold ret. unfold chr in *. rewrite D2. reflexivity. }
      assert (DE : next_is_document_end str_ops s4 = Ok (false, s4)).
      { unfold next_is_document_end, bind at 1, assert_buflen at 1. rewrite LB4.
        unfold bind at 1. unfold next_3_are at 1, bind at 1, assert_buflen at 1. rewrite LB3.
        unfold bind, peek, peekn. cbn [peek_nth str_ops]. rewrite HC4. unfold ret. unfold chr in *. rewrite D3. reflexivity. }
      rewrite (bind_Ok _ _ _ _ _ DS). cbn [negb]. rewrite (bind_Ok _ _ _ _ _ DE). cbn iota.
      exact (FIN eq_refl).
    + cbn [andb]. unfold bind at 1, ret at 1. unfold bind at 1, ret at 1.
      exact (FIN eq_refl).
Qed.

(* the same from [fetch_next_token], for a started state standing on a token character *)
Lemma fetch_next_token_dispatch F (s : sc strin) :
  sc_stream_start s = true -> (0 < F)%nat ->
  not_skipped (nth 0 (chars_of s) 0) -> no_marker_start s (nth 0 (chars_of s) 0) ->
  sorted_from (sc_indent s) (sc_indents s) = true ->
  (sc_flow_level s <> 0 \/ forall k, In k (sc_sks s) -> sk_required k = false) ->
  exists s4, fetch_next_token str_ops F s = dispatch F s4 s4
             /\ chars_of s4 = chars_of s /\ (4 <= si_look (sc_in s4))%nat /\ sc_mark s4 = sc_mark s
             /\ sc_flow_level s4 = sc_flow_level s /\ sc_ifms s4 = sc_ifms s
             /\ Forall2 (fun k k' => k' = k \/ k' = invalidate k) (sc_sks s) (sc_sks s4)
             /\ sorted_from (sc_indent s4) (sc_indents s4) = true
             /\ (sc_flow_level s <> 0 -> sc_indent s4 = sc_indent s /\ sc_indents s4 = sc_indents s /\ sc_tokens s4 = sc_tokens s).
Proof.
  intros HSS HF HN HM HS HR.
  rewrite (fetch_next_token_started F s HSS).
  rewrite (bind_Ok _ _ _ _ _ (skip_to_next_token_stop F (looked s 1) HF HN)).
  exact (fetch_rest_dispatch F (looked (looked s 1) 1) HS HR HM).
Qed.

Definition is_mapping_level (st : ims) : bool := match st with ImMapping => true | _ => false end.

(* the check itself: with at least one flow level open, the closer must be of the kind of the innermost level *)
Theorem check_flow_closer_spec (s : sc strin) seq top rest :
  sc_ifms s = top :: rest ->
  check_flow_closer seq s
  = if Bool.eqb (is_mapping_level top) (negb seq) then Ok (tt, s)
    else Err (if is_mapping_level top then 47 else 48) (sc_mark s).
Proof.
  intros Hi. unfold check_flow_closer, bind, get. rewrite Hi. unfold is_mapping_level.
  destruct top, seq; reflexivity.
Qed.

(* ANY scanner state with a flow level open: ']' where the innermost open flow collection is a mapping is error site 47
   ("while parsing a flow mapping, did not find expected ',' or '}'"), '}' where it is a sequence (whatever the state of its
   implicit single-pair mapping: Possible / Inside / InsideExplicitKey) is error site 48 ("while parsing a flow sequence,
   expected ',' or ']'"), both at the closer, before anything else happens *)
Theorem mismatched_flow_closer_rejected F (s : sc strin) (seq : bool) top rest :
  sc_ifms s = top :: rest -> is_mapping_level top = seq ->
  fetch_flow_collection_end str_ops F seq s = Err (if seq then 47 else 48) (sc_mark s).
Proof.
  intros Hi Hm. unfold fetch_flow_collection_end. apply bind_Err.
  rewrite (check_flow_closer_spec s seq top rest Hi). rewrite Hm.
  destruct seq; reflexivity.
Qed.

(* the same from [fetch_next_token]: ANY started state in flow context that stands on the closer, not left of the block
   indentation (that is site 102), with a well-formed indentation stack *)
Theorem mismatched_flow_closer_fetch_rejected F (s : sc strin) (seq : bool) top rest :
  sc_stream_start s = true -> (0 < F)%nat ->
  nth 0 (chars_of s) 0 = (if seq then 93 else 125) ->
  sc_ifms s = top :: rest -> is_mapping_level top = seq ->
  sc_flow_level s <> 0 ->
  sorted_from (sc_indent s) (sc_indents s) = true ->
  (sc_indent s <= Z.of_N (m_col (sc_mark s)))%Z ->
  fetch_next_token str_ops F s = Err (if seq then 47 else 48) (sc_mark s).
Proof.
  intros HSS HF HC Hi Hm HFL HS HCol.
  assert (HN : not_skipped (nth 0 (chars_of s) 0)) by (rewrite HC; destruct seq; repeat split; discriminate).
  assert (HM : no_marker_start s (nth 0 (chars_of s) 0)).
  { rewrite HC. split; [destruct seq; discriminate|]. right. destruct seq; repeat split; discriminate. }
  destruct (fetch_next_token_dispatch F s HSS HF HN HM HS (or_introl HFL))
    as (s4 & E & C4 & _ & M4 & _ & I4 & _ & _ & B4).
  destruct (B4 HFL) as (B1 & _ & _).
  rewrite E. unfold dispatch. rewrite M4, B1.
  assert (EL : (Z.of_N (m_col (sc_mark s)) <? sc_indent s)%Z = false) by (apply Z.ltb_ge; exact HCol).
  rewrite EL.
  unfold bind at 1, peek at 1, peekn at 1. cbn [peek_nth str_ops]. rewrite C4, HC.
  unfold bind at 1, peekn at 1. cbn [peek_nth str_ops]. cbv zeta.
  rewrite <- M4.
  destruct seq.
  - change (93 =? 91) with false. change (93 =? 123) with false. change (93 =? 93) with true. cbn iota.
    apply (mismatched_flow_closer_rejected F s4 true top rest); [rewrite I4; exact Hi | exact Hm].
  - change (125 =? 91) with false. change (125 =? 123) with false. change (125 =? 93) with false.
    change (125 =? 125) with true. cbn iota.
    apply (mismatched_flow_closer_rejected F s4 false top rest); [rewrite I4; exact Hi | exact Hm].
Qed.

(* ================================================================================================ *)
(* (10) block context: ':' separated from the value by tabs only (the implementation's rule, site 97)  *)
(* ================================================================================================ *)
Lemma in_skip_ws_tabs ts : forall fuel tab wsf n (s : sc strin) c rest,
  chars_of s = ts ++ c :: rest -> Forall (fun x => x = 9) ts -> stops_ws SkipYes c -> (length ts < fuel)%nat ->
  exists lk, in_skip_ws_to_eol str_ops fuel SkipYes tab wsf n s
             = Ok ((n + N.of_nat (length ts), Some (match ts with [] => tab | _ => true end, wsf)), with_chars s (c :: rest) lk).
Proof.
  induction ts as [|w ts IH]; intros fuel tab wsf n s c rest HC HB (Hc1 & Hc2 & Hc3) HL.
  - destruct fuel as [|fuel]; [cbn in HL; lia|]. cbn [app] in HC.
    cbn [in_skip_ws_to_eol]. unfold look_ch, look, peek, peekn, bind. cbn. rewrite HC. cbn.
    apply N.eqb_neq in Hc1, Hc3. rewrite Hc1, Hc3.
    assert (E9 : (c =? 9) = false).
    { destruct (N.eqb_spec c 9) as [E|E]; [specialize (Hc2 E); discriminate | reflexivity]. }
    rewrite E9. cbn [andb]. unfold ret, with_chars. eexists. rewrite N.add_0_r. reflexivity.
  - destruct fuel as [|fuel]; [cbn in HL; lia|]. cbn [app] in HC.
    inversion HB as [|x y Hw HB']; subst.
    cbn [length]. rewrite Nat2N.inj_succ.
    set (s1 := set_in {| si_chars := ts ++ c :: rest; si_look := Nat.max (si_look (sc_in s)) 1 |} s).
    assert (HC1 : chars_of s1 = ts ++ c :: rest) by reflexivity.
    assert (HL1 : (length ts < fuel)%nat) by (cbn in HL; lia).
    cbn [in_skip_ws_to_eol]. unfold look_ch, look, peek, peekn, bind at 1. cbn -[N.of_nat]. rewrite HC. cbn -[N.of_nat].
    change (9 =? 32) with false. change (9 =? 9) with true. cbn beta iota.
    destruct (IH fuel true wsf (n + 1) s1 c rest HC1 HB' (conj Hc1 (conj Hc2 Hc3)) HL1) as (lk & E).
    unfold bind, in_skip, modify. cbn -[N.of_nat].
    exists lk. refine (eq_trans _ (eq_trans E _)); [reflexivity|].
    unfold with_chars, s1. f_equal. f_equal. f_equal; [lia|]. destruct ts; reflexivity.
Qed.

Lemma skip_ws_to_eol_tabs ts fuel (s : sc strin) c rest :
  chars_of s = ts ++ c :: rest -> Forall (fun x => x = 9) ts -> stops_ws SkipYes c -> (length ts < fuel)%nat ->
  exists lk, skip_ws_to_eol str_ops fuel SkipYes s
             = Ok ((match ts with [] => false | _ => true end, false),
                   set_mark (adv (N.of_nat (length ts)) (sc_mark s)) (with_chars s (c :: rest) lk)).
Proof.
  intros HC HB HS HL.
  destruct (in_skip_ws_tabs ts fuel false false 0 s c rest HC HB HS HL) as (lk & E).
  unfold skip_ws_to_eol. rewrite (bind_Ok _ _ _ _ _ E). cbn [fst snd]. rewrite N.add_0_l.
  exists lk. reflexivity.
Qed.

(* ANY state in block context at a ':' that is followed by one or more tabs (and no space) and then by '-' or a word
   character: site 97 ("':' must be followed by a valid YAML whitespace") at that character.  Still so after /repo b87c12b,
   which removed the test in FLOW context only. *)
Theorem tab_after_colon_in_block_rejected F (s : sc strin) k r ts c rest :
  sc_sks s = k :: r -> sc_flow_level s = 0 ->
  chars_of s = 58 :: 9 :: ts ++ c :: rest -> Forall (fun x => x = 9) ts ->
  (c = 45 \/ is_alpha c = true) -> c <> 32 -> c <> 9 -> c <> 35 ->
  (S (length ts) < F)%nat ->
  fetch_value str_ops F s = Err 97 (adv (N.of_nat (S (length ts))) (adv 1 (sc_mark s))).
Proof.
  intros Hk HFL HC HT Hc C32 C9 C35 HF. unfold fetch_value.
  unfold bind at 1. unfold get at 1. rewrite Hk. unfold bind at 1. unfold ret at 1. cbv zeta.
  rewrite HFL. change (0 =? 0) with true. cbv iota.
  assert (PRE : forall s0 : sc strin, chars_of s0 = chars_of s -> sc_mark s0 = sc_mark s ->
            forall (K : @M strin unit),
            (skip_non_blank str_ops ;;; c <- look_ch str_ops ;;
             (if c =? 9 then
                tw <- skip_ws_to_eol str_ops F SkipYes ;;
                if negb (snd tw) then
                  c <- peek str_ops ;;
                  if (c =? 45) || is_alpha c then m <- mark ;; fail 97 m else ret tt
                else ret tt
              else ret tt) ;;; K) s0 = Err 97 (adv (N.of_nat (S (length ts))) (adv 1 (sc_mark s)))).
  { intros s0 H0 M0 K.
    unfold bind at 1. unfold skip_non_blank at 1, bind at 1, in_skip at 1, modify at 1.
    unfold bind at 1, adv_mark at 1, modify at 1. unfold modify at 1.
    unfold bind at 1. unfold look_ch at 1, bind at 1, look at 1. cbn [lookahead str_ops].
    unfold peek at 1, peekn at 1. cbn [peek_nth str_ops sc_in set_lws set_flags set_mark set_in upd si_chars skip1].
    rewrite H0, HC. cbn [tl nth]. change (9 =? 9) with true. cbv iota.
    apply bind_Err.
    match goal with |- bind (skip_ws_to_eol str_ops F SkipYes) _ ?st = _ => set (s1 := st) end.
    assert (HC1 : chars_of s1 = (9 :: ts) ++ c :: rest) by reflexivity.
    assert (HT1 : Forall (fun x => x = 9) (9 :: ts)) by (constructor; [reflexivity | exact HT]).
    assert (HS1 : stops_ws SkipYes c) by (repeat split; [exact C32 | intros E; contradiction | exact C35]).
    destruct (skip_ws_to_eol_tabs (9 :: ts) F s1 c rest HC1 HT1 HS1 ltac:(cbn [length]; nlia)) as (lk & E).
    rewrite (bind_Ok _ _ _ _ _ E). cbn [snd negb].
    unfold bind at 1, peek at 1, peekn at 1. cbn [peek_nth str_ops sc_in set_mark with_chars set_in upd si_chars nth].
    assert (EA : (c =? 45) || is_alpha c = true).
    { destruct Hc as [->|Hc]; [reflexivity | rewrite Hc; apply orb_true_r]. }
    unfold chr in *. rewrite EA. unfold bind, mark, gets, fail.
    cbn [sc_mark set_mark with_chars set_in upd s1 set_lws set_flags]. rewrite M0. reflexivity. }
  destruct (match sc_ifms s with ImPossible :: _ => true | _ => false end).
  - unfold bind at 1, modify at 1. apply (PRE (set_ifms (ImInside :: tl (sc_ifms s)) s) eq_refl eq_refl).
  - unfold bind at 1, ret at 1. apply (PRE s eq_refl eq_refl).
Qed.

(* ================================================================================================ *)
(* (11) text level: a fixed first part that leads the scanner into an error, then ANY continuation      *)
(* ================================================================================================ *)
(* if, for every continuation and every surplus of fuel, the token iterator run on [pre ++ rest] delivers [n] tokens and
   then fails, every text that starts with [pre] is rejected *)
Theorem text_prefix_rejected pre n e m :
  (n < 20)%nat ->
  (forall rest F', exists s, reach (2 * length pre + 10 + F') n (init_sc {| si_chars := pre ++ rest; si_look := 0 |}) s
                             /\ next_token str_ops (2 * length pre + 10 + F') s = Err e m) ->
  forall rest, snd (run_str (pre ++ rest)) <> PDone.
Proof.
  intros Hn H rest.
  assert (HF : scan_fuel (pre ++ rest) = (2 * length pre + 10 + 2 * length rest)%nat).
  { unfold scan_fuel. rewrite app_length. lia. }
  destruct (H rest (2 * length rest)%nat) as (s & R & E). rewrite <- HF in R, E.
  apply (reachable_scan_error_rejected (pre ++ rest) n s e m R); [lia | exact E].
Qed.

Ltac eval_exact :=
  match goal with |- ?lhs = _ => let r := eval vm_compute in lhs in exact (@eq_refl _ r <: lhs = r) end.
Tactic Notation "prefix_rejected" integer(n) :=
  intros rest F'; cbn [length Nat.mul Nat.add app]; eexists; split; [ do n reach_step; apply reach_0 | eval_exact ].

(* a flow collection closed by the bracket of the other kind, in each state of implicit_flow_mapping_states: directly behind
   the opener, behind an entry, inside an implicit pair, inside an explicit "? key" pair, nested, as value of a block mapping
   and as entry of a block sequence -- whatever follows the wrong closer *)
Definition wrong_closer_prefixes : list (list N * N * marker) :=
  [ ([91;125],                       48, {| m_index := 1; m_line := 1; m_col := 1 |});     (* [}        *)
    ([123;93],                       47, {| m_index := 1; m_line := 1; m_col := 1 |});     (* {]        *)
    ([91;32;97;32;125],              48, {| m_index := 4; m_line := 1; m_col := 4 |});     (* [ a }     *)
    ([123;32;97;32;93],              47, {| m_index := 4; m_line := 1; m_col := 4 |});     (* { a ]     *)
    ([91;32;97;58;32;98;32;125],     48, {| m_index := 7; m_line := 1; m_col := 7 |});     (* [ a: b }  *)
    ([91;32;63;32;97;32;125],        48, {| m_index := 6; m_line := 1; m_col := 6 |});     (* [ ? a }   *)
    ([91;32;58;32;125],              48, {| m_index := 4; m_line := 1; m_col := 4 |});     (* [ : }     *)
    ([123;32;97;58;32;98;32;93],     47, {| m_index := 7; m_line := 1; m_col := 7 |});     (* { a: b ]  *)
    ([91;32;91;32;97;32;125],        48, {| m_index := 6; m_line := 1; m_col := 6 |});     (* [ [ a }   *)
    ([91;32;123;32;97;32;93],        47, {| m_index := 6; m_line := 1; m_col := 6 |});     (* [ { a ]   *)
    ([91;97;44;32;98;125],           48, {| m_index := 5; m_line := 1; m_col := 5 |});     (* [a, b}    *)
    ([123;97;58;32;49;93],           47, {| m_index := 5; m_line := 1; m_col := 5 |}) ].   (* {a: 1]    *)

Lemma wrong_closer_prefix_scan_error :
  Forall (fun p => forall rest F', exists s,
            reach (2 * length (fst (fst p)) + 10 + F') 1 (init_sc {| si_chars := fst (fst p) ++ rest; si_look := 0 |}) s
            /\ next_token str_ops (2 * length (fst (fst p)) + 10 + F') s = Err (snd (fst p)) (snd p)) wrong_closer_prefixes.
Proof. repeat constructor; cbn [fst snd]; prefix_rejected 1. Qed.

Theorem wrong_closer_text_rejected :
  forall pre e m rest, In (pre, e, m) wrong_closer_prefixes -> snd (run_str (pre ++ rest)) <> PDone.
Proof.
  intros pre e m rest Hin.
  pose proof (proj1 (Forall_forall _ _) wrong_closer_prefix_scan_error _ Hin) as H. cbn [fst snd] in H.
  apply (text_prefix_rejected pre 1 e m); [lia | exact H].
Qed.

(* the same behind a block mapping key and behind a block sequence entry (the error arises in a later call of the iterator) *)
Theorem wrong_closer_in_block_value_rejected tail :
  snd (run_str ([107;58;32;91;32;97;32;125] ++ tail)) <> PDone            (* k: [ a }  *)
  /\ snd (run_str ([45;32;123;32;97;32;93] ++ tail)) <> PDone.             (* - { a ]   *)
Proof.
  split.
  - apply (text_prefix_rejected [107;58;32;91;32;97;32;125] 6 48 {| m_index := 7; m_line := 1; m_col := 7 |}); [lia|].
    prefix_rejected 6.
  - apply (text_prefix_rejected [45;32;123;32;97;32;93] 3 47 {| m_index := 6; m_line := 1; m_col := 6 |}); [lia|].
    prefix_rejected 3.
Qed.

(* the same in one evaluation of the whole token iterator: if, for every continuation and every surplus of fuel, the scan
   of [pre ++ rest] ends in the error, every text that starts with [pre] is rejected *)
Theorem text_prefix_scan_error_rejected pre e m :
  (forall rest F' G', snd (scan_all str_ops (2 * length pre + 10 + F') (4 * (2 * length pre + 10) + 20 + G')
                             (init_sc {| si_chars := pre ++ rest; si_look := 0 |}) []) = SError e m) ->
  forall rest, snd (run_str (pre ++ rest)) <> PDone.
Proof.
  intros H rest. apply scan_error_rejected. left. exists e, m. unfold scan_of.
  assert (HF : scan_fuel (pre ++ rest) = (2 * length pre + 10 + 2 * length rest)%nat).
  { unfold scan_fuel. rewrite app_length. lia. }
  rewrite HF.
  replace (4 * (2 * length pre + 10 + 2 * length rest) + 20)%nat
    with (4 * (2 * length pre + 10) + 20 + 8 * length rest)%nat by lia.
  apply H.
Qed.

(* /repo 99c201b at text level: 256 nested block sequences "- - - ... " or explicit keys "? ? ? ... " on one line, whatever
   follows: "recursion limit exceeded" (site 46) where the 256th collection would start *)
Definition dashes (n : nat) : list N := concat (repeat [45; 32] n).
Definition question_marks (n : nat) : list N := concat (repeat [63; 32] n).

Theorem deep_block_nesting_text_rejected rest :
  snd (run_str (dashes 256 ++ rest)) <> PDone /\ snd (run_str (question_marks 256 ++ rest)) <> PDone.
Proof.
  split.
  - apply (text_prefix_scan_error_rejected (dashes 256) 46 {| m_index := 511; m_line := 1; m_col := 511 |}).
    intros rest0 F' G'. vm_compute. reflexivity.
  - apply (text_prefix_scan_error_rejected (question_marks 256) 46 {| m_index := 510; m_line := 1; m_col := 510 |}).
    intros rest0 F' G'. vm_compute. reflexivity.
Qed.

(* 255 levels are accepted: the limit does not reject too much *)
Lemma block_nesting_255_accepted : snd (run_str (dashes 255 ++ [97; 10])) = PDone.
Proof. vm_compute. reflexivity. Qed.

(* ================================================================================================ *)
(* (12) composition, one level down: a failing fetch in ANY round of the iterator's refill loop        *)
(* ================================================================================================ *)
(* [fetch_more_tokens] keeps fetching while the queue is empty or a possible key candidate waits at its head.  [need_more] is
   its test (it runs stale_simple_keys), [rounds F n s s'] = n successful rounds lead from s to s' *)
Definition need_more : @M strin bool :=
  s <- get ;;
  match sc_tokens s with
  | [] => ret true
  | _ => stale_simple_keys ;;;
         s <- get ;;
         ret (existsb (fun k => sk_possible k && (sk_token_number k =? sc_tokens_parsed s)) (sc_sks s))
  end.

Lemma fetch_more_tokens_unfold F f :
  fetch_more_tokens str_ops F (S f)
  = (need <- need_more ;; if need then fetch_next_token str_ops F ;;; fetch_more_tokens str_ops F f else modify (set_ta true)).
Proof. reflexivity. Qed.

Inductive rounds (F : nat) : nat -> sc strin -> sc strin -> Prop :=
| rounds_0 s : rounds F 0 s s
| rounds_S n s s1 s2 s3 :
    need_more s = Ok (true, s1) -> fetch_next_token str_ops F s1 = Ok (tt, s2) -> rounds F n s2 s3 -> rounds F (S n) s s3.

Lemma fetch_more_tokens_rounds F n s s' : rounds F n s s' ->
  forall f, fetch_more_tokens str_ops F (n + f) s = fetch_more_tokens str_ops F f s'.
Proof.
  induction 1 as [s|n s s1 s2 s3 HN HFe HR IH]; intros f; [reflexivity|].
  cbn [Nat.add]. rewrite fetch_more_tokens_unfold.
  rewrite (bind_Ok _ _ _ _ _ HN). rewrite (bind_Ok _ _ _ _ _ HFe). apply IH.
Qed.

(* ANY state of the iterator (between two tokens): if after [n] rounds of refilling another round is needed and its fetch
   fails, the call of the iterator fails with that error *)
Theorem round_fetch_error_is_scan_error F n (s s' s1 : sc strin) e m :
  sc_stream_end s = false -> sc_token_available s = false ->
  rounds F n s s' -> need_more s' = Ok (true, s1) -> fetch_next_token str_ops F s1 = Err e m -> (n < F)%nat ->
  next_token str_ops F s = Err e m.
Proof.
  intros HE HA HR HN HFe Hn. unfold next_token.
  unfold bind at 1, get at 1. rewrite HE, HA. apply bind_Err.
  replace F with (n + S (F - S n))%nat at 2 by lia.
  rewrite (fetch_more_tokens_rounds F n s s' HR). rewrite fetch_more_tokens_unfold.
  rewrite (bind_Ok _ _ _ _ _ HN). apply bind_Err. exact HFe.
Qed.

(* hence for texts: every state-level theorem about [fetch_next_token] rejects the whole text in which its situation
   arises -- between two tokens or in the middle of a refill *)
Corollary reachable_round_error_rejected l n k (s s' s1 : sc strin) e m :
  reach (scan_fuel l) n (init_sc {| si_chars := l; si_look := 0 |}) s ->
  (n < 4 * scan_fuel l + 20)%nat ->
  sc_stream_end s = false -> sc_token_available s = false ->
  rounds (scan_fuel l) k s s' -> (k < scan_fuel l)%nat ->
  need_more s' = Ok (true, s1) -> fetch_next_token str_ops (scan_fuel l) s1 = Err e m ->
  snd (run_str l) <> PDone.
Proof.
  intros HR Hn HE HA HRo Hk HN HFe. apply (reachable_scan_error_rejected l n s e m HR Hn).
  exact (round_fetch_error_is_scan_error _ k s s' s1 e m HE HA HRo HN HFe Hk).
Qed.
