(* C14, scanner level: the line-break style does not change what the scanner computes.

   Two runs of the scanner model over the STRING input are related: side 1 reads a CR-free text [x], side 2 reads its
   image [img md x] in which every LF is replaced by CR LF ([md = CRLF]) or by a lone CR ([md = CR]).  Relational
   partial-correctness calculus [bwp]: when both runs end properly (a value or an error) the values / states
   satisfy the postcondition, or the errors are the same error site at markers with the same LINE and COLUMN
   (character indices differ: in CRLF mode side 2 has consumed one more character per line break).  A run that
   ends in OutOfFuel or Panic (either side) is not this proof's concern (ScanFuel*.v / ScanSafe*.v).

   See SCANBRK.md for the brief; the rules for the derived primitives of SPrim.v are in ScanBrkPrim.v. *)
From Coq Require Import List NArith ZArith Bool Arith Lia.
Import ListNotations.
Require Import Parser SBase SPrim SDir SScalar SFetch Positions BreakProofs.
Local Open Scope nat_scope.

Notation bst := (sc strin).
Notation BM := (@M strin).
Notation sops := str_ops.

Arguments N.add : simpl never.
Arguments N.eqb : simpl never.
Arguments N.ltb : simpl never.
Arguments N.leb : simpl never.
Arguments Nat.ltb : simpl never.
Arguments Nat.leb : simpl never.
Arguments Nat.eqb : simpl never.
Arguments Nat.max : simpl never.

(* ================================================================================================ *)
(* 1. The substitution                                                                              *)
(* ================================================================================================ *)
Inductive mode := CRLF | CR.
(* what a line feed becomes *)
Definition brk (md : mode) : list chr := match md with CRLF => [13%N; 10%N] | CR => [13%N] end.
Definition img (md : mode) (x : list chr) : list chr := flat_map (fun c => if (c =? 10)%N then brk md else [c]) x.
(* one character seen through the substitution at an ALIGNED position: LF is seen as CR, everything else as itself *)
Definition b1 (c : chr) : chr := if (c =? 10)%N then 13%N else c.

Definition nocr (l : list chr) : Prop := Forall (fun c => c <> 13%N) l.
(* none of the first k characters is a line feed: positions 0..k are aligned on the two sides *)
Definition noLF (k : nat) (l : list chr) : Prop := forall i, i < k -> nth i l 0%N <> 10%N.

Lemma img_crlf x : img CRLF x = crlf x.
Proof. reflexivity. Qed.
Lemma img_cr x : img CR x = cr x.
Proof.
  induction x as [|c r IH]; [reflexivity|]. unfold img, cr in *. cbn [flat_map map]. rewrite IH.
  destruct (c =? 10)%N; reflexivity.
Qed.

Lemma img_nil md : img md [] = [].
Proof. reflexivity. Qed.
Lemma img_lf md r : img md (10%N :: r) = brk md ++ img md r.
Proof. reflexivity. Qed.
Lemma img_other md c r : c <> 10%N -> img md (c :: r) = c :: img md r.
Proof. intros H. unfold img. cbn [flat_map]. apply N.eqb_neq in H. rewrite H. reflexivity. Qed.
Lemma img_app md a b : img md (a ++ b) = img md a ++ img md b.
Proof. unfold img. apply flat_map_app. Qed.

Lemma b1_other c : c <> 10%N -> b1 c = c.
Proof. intros H. unfold b1. apply N.eqb_neq in H. rewrite H. reflexivity. Qed.
Lemma b1_lf : b1 10%N = 13%N.
Proof. reflexivity. Qed.
Lemma b1_0 : b1 0%N = 0%N.
Proof. reflexivity. Qed.
Lemma b1_not_lf c : b1 c <> 10%N.
Proof. unfold b1. destruct (N.eqb_spec c 10); [discriminate|assumption]. Qed.

Lemma noLF_0 l : noLF 0 l.
Proof. intros i Hi. lia. Qed.
Lemma noLF_1 l : nth 0 l 0%N <> 10%N -> noLF 1 l.
Proof. intros H i Hi. assert (i = 0) as -> by lia. exact H. Qed.
Lemma noLF_le k k' l : noLF k l -> k' <= k -> noLF k' l.
Proof. intros H Hk i Hi. apply H. lia. Qed.
Lemma noLF_S k l : noLF k l -> nth k l 0%N <> 10%N -> noLF (S k) l.
Proof. intros H Hk i Hi. destruct (Nat.eq_dec i k) as [->|Hne]; [exact Hk|apply H; lia]. Qed.
Lemma noLF_cons k c l : noLF (S k) (c :: l) <-> c <> 10%N /\ noLF k l.
Proof.
  split.
  - intros H. split; [exact (H 0 ltac:(lia))|]. intros i Hi. exact (H (S i) ltac:(lia)).
  - intros [Hc H] i Hi. destruct i as [|i]; [exact Hc|]. cbn [nth]. apply H. lia.
Qed.
Lemma noLF_nil k : noLF k [].
Proof. intros i _. destruct i; discriminate. Qed.
Lemma noLF_skipn k n l : noLF (n + k) l -> noLF k (skipn n l).
Proof.
  revert l. induction n as [|n IH]; intros l H; [exact H|].
  destruct l as [|c l]; [apply noLF_nil|]. cbn [skipn]. apply IH. apply (noLF_cons (n + k) c l). exact H.
Qed.
Lemma noLF_tl k l : noLF (S k) l -> noLF k (tl l).
Proof. intros H. destruct l as [|c l]; [apply noLF_nil|]. apply (noLF_cons k c l). exact H. Qed.

(* the character at an aligned position *)
Lemma nth_img md k r : noLF k r -> nth k (img md r) 0%N = b1 (nth k r 0%N).
Proof.
  revert r. induction k as [|k IH]; intros r H.
  - destruct r as [|c r]; [reflexivity|]. destruct (N.eq_dec c 10) as [->|Hc].
    + rewrite img_lf. destruct md; reflexivity.
    + rewrite img_other by exact Hc. cbn [nth]. symmetry. apply b1_other. exact Hc.
  - destruct r as [|c r]; [reflexivity|]. apply noLF_cons in H. destruct H as [Hc H].
    rewrite img_other by exact Hc. cbn [nth]. apply IH. exact H.
Qed.
Lemma tl_img md r : nth 0 r 0%N <> 10%N -> tl (img md r) = img md (tl r).
Proof. destruct r as [|c r]; [reflexivity|]. cbn [nth]. intros H. rewrite img_other by exact H. reflexivity. Qed.
Lemma skipn_img md n r : noLF n r -> skipn n (img md r) = img md (skipn n r).
Proof.
  revert r. induction n as [|n IH]; intros r H; [reflexivity|].
  destruct r as [|c r]; [reflexivity|]. apply noLF_cons in H. destruct H as [Hc H].
  rewrite img_other by exact Hc. cbn [skipn]. apply IH. exact H.
Qed.
Lemma nocr_tl l : nocr l -> nocr (tl l).
Proof. intros H. destruct l; [exact H|]. inversion H; assumption. Qed.
Lemma nocr_skipn n l : nocr l -> nocr (skipn n l).
Proof. revert l. induction n as [|n IH]; intros l H; [exact H|]. destruct l; [exact H|]. cbn [skipn]. apply IH. inversion H; assumption. Qed.
Lemma nocr_nth l i : nocr l -> nth i l 0%N <> 13%N.
Proof.
  intros H. revert i. induction H as [|c r Hc Hr IH]; intros i; [destruct i; discriminate|].
  destruct i as [|i]; [exact Hc|apply IH].
Qed.

(* ---- character classes do not see the substitution (b1 only moves LF to CR, and the scanner's classes never
        separate the two) ---- *)
Definition bblind (p : chr -> bool) : Prop := forall c, p (b1 c) = p c.
Ltac bblind_tac := intros c; unfold b1; destruct (N.eqb_spec c 10) as [->|_]; reflexivity.
Lemma b1_is_z : bblind is_z. Proof. bblind_tac. Qed.
Lemma b1_is_break : bblind is_break. Proof. bblind_tac. Qed.
Lemma b1_is_breakz : bblind is_breakz. Proof. bblind_tac. Qed.
Lemma b1_is_blank : bblind is_blank. Proof. bblind_tac. Qed.
Lemma b1_is_blank_or_breakz : bblind is_blank_or_breakz. Proof. bblind_tac. Qed.
Lemma b1_is_digit : bblind is_digit. Proof. bblind_tac. Qed.
Lemma b1_is_alpha : bblind is_alpha. Proof. bblind_tac. Qed.
Lemma b1_is_hex : bblind is_hex. Proof. bblind_tac. Qed.
Lemma b1_is_flow : bblind is_flow. Proof. bblind_tac. Qed.
Lemma b1_is_anchor_char : bblind is_anchor_char. Proof. bblind_tac. Qed.
Lemma b1_is_uri_char : bblind is_uri_char. Proof. bblind_tac. Qed.
Lemma b1_is_tag_char : bblind is_tag_char. Proof. bblind_tac. Qed.
Lemma b1_not_breakz : bblind (fun c => negb (is_breakz c)). Proof. bblind_tac. Qed.
(* comparison with a constant that is neither LF nor CR (side condition by [reflexivity]) *)
Lemma b1_eqb c k : ((k =? 10) || (k =? 13))%N = false -> (b1 c =? k)%N = (c =? k)%N.
Proof.
  intros Hk. apply orb_false_iff in Hk. destruct Hk as [H10 H13]. apply N.eqb_neq in H10, H13.
  unfold b1. destruct (N.eqb_spec c 10) as [->|_]; [|reflexivity].
  destruct (N.eqb_spec 13 k); [congruence|]. destruct (N.eqb_spec 10 k); [congruence|reflexivity].
Qed.
Lemma b1_eqb_blind k : ((k =? 10) || (k =? 13))%N = false -> bblind (fun c => (c =? k)%N).
Proof. intros Hk c. apply b1_eqb. exact Hk. Qed.
(* "is it a line break" spelled with two comparisons (skip_to_next_token, skip_yaml_whitespace) *)
Lemma b1_lf_or_cr c : ((b1 c =? 10) || (b1 c =? 13))%N = ((c =? 10) || (c =? 13))%N.
Proof. unfold b1. destruct (N.eqb_spec c 10) as [->|H]; [reflexivity|]. apply N.eqb_neq in H. rewrite H. reflexivity. Qed.
Lemma b1_eq_lf_false c : (b1 c =? 10)%N = false.
Proof. apply N.eqb_neq. apply b1_not_lf. Qed.
Lemma b1_eq_cr c : c <> 13%N -> (b1 c =? 13)%N = (c =? 10)%N.
Proof.
  intros H. unfold b1. destruct (N.eqb_spec c 10) as [->|_]; [reflexivity|]. apply N.eqb_neq. exact H.
Qed.
Lemma b1_as_hex c : as_hex (b1 c) = as_hex c.
Proof. unfold b1. destruct (N.eqb_spec c 10) as [->|_]; reflexivity. Qed.
(* [b1_norm]: remove every [b1] under a character class / a comparison with a literal in the goal *)
Ltac b1_norm :=
  rewrite ?b1_is_z, ?b1_is_break, ?b1_is_breakz, ?b1_is_blank, ?b1_is_blank_or_breakz, ?b1_is_digit, ?b1_is_alpha,
          ?b1_is_hex, ?b1_is_flow, ?b1_is_anchor_char, ?b1_is_uri_char, ?b1_is_tag_char, ?b1_lf_or_cr, ?b1_as_hex;
  repeat match goal with |- context [(b1 ?c =? ?k)%N] => rewrite (b1_eqb c k) by reflexivity end.

(* ================================================================================================ *)
(* 2. The relations                                                                                 *)
(* ================================================================================================ *)
Definition rm (s : bst) : list chr := si_chars (sc_in s).         (* remaining characters *)
Definition rn (s : bst) (i : nat) : chr := nth i (rm s) 0%N.        (* the i-th of them, NUL beyond the end *)
Definition lk (s : bst) : nat := si_look (sc_in s).                 (* the string input's lookahead counter *)

(* inputs: side 2 holds the image of side 1's remaining text; side 1 is CR-free; the lookahead counters (only
   observable through [buf_is_empty] and the [assert_buflen] panics) are equal: both sides run the same [look n] *)
Record IR (md : mode) (i1 i2 : strin) : Prop := {
  ir_chars : si_chars i2 = img md (si_chars i1);
  ir_nocr : nocr (si_chars i1);
  ir_look : si_look i2 = si_look i1 }.

(* markers: same line, same column; the index is not observable *)
Definition MR (m1 m2 : marker) : Prop := m_line m1 = m_line m2 /\ m_col m1 = m_col m2.
Definition SPR (a b : span) : Prop := MR (sp_start a) (sp_start b) /\ MR (sp_end a) (sp_end b).
Definition TR (t1 t2 : token) : Prop := SPR (fst t1) (fst t2) /\ snd t1 = snd t2.

(* simple keys: everything equal up to [MR]; the marker of a POSSIBLE key is never below the current line, and one
   that is ON the current line has the same index shift (index on side 2 - index on side 1) as the current mark -
   so the 1024-character distance of [stale_simple_keys], which is only looked at for a possible key on the
   current line, is the same on both sides.  (Keys that are not possible - e.g. the placeholder 0:0:0 of a new
   flow level - carry no index information.)  [c1 c2] = the current marks. *)
Record KR (c1 c2 : marker) (k1 k2 : simple_key) : Prop := {
  kr_possible : sk_possible k1 = sk_possible k2;
  kr_required : sk_required k1 = sk_required k2;
  kr_number : sk_token_number k1 = sk_token_number k2;
  kr_mark : MR (sk_mark k1) (sk_mark k2);
  kr_line : sk_possible k1 = true -> (m_line (sk_mark k1) <= m_line c1)%N;
  kr_shift : sk_possible k1 = true -> m_line (sk_mark k1) = m_line c1 ->
             (m_index (sk_mark k2) + m_index c1 = m_index (sk_mark k1) + m_index c2)%N }.

(* adjacent_value_allowed_at is only ever compared for equality with the current index *)
Definition ADJ (a1 i1 a2 i2 : N) : Prop := (a1 <= i1 /\ a2 <= i2 /\ (a1 = i1 <-> a2 = i2))%N.

(* the fields that are plainly equal *)
Definition skel (s : bst) :=
  (sc_stream_start s, sc_stream_end s, sc_ska s, sc_indent s, sc_indents s, sc_flow_level s, sc_tokens_parsed s,
   sc_token_available s, sc_lws s, sc_ifms s).

(* THE STATE RELATION *)
Record BR (md : mode) (s1 s2 : bst) : Prop := {
  br_in : IR md (sc_in s1) (sc_in s2);
  br_mark : MR (sc_mark s1) (sc_mark s2);
  br_tokens : Forall2 TR (sc_tokens s1) (sc_tokens s2);
  br_sks : Forall2 (KR (sc_mark s1) (sc_mark s2)) (sc_sks s1) (sc_sks s2);
  br_adj : ADJ (sc_adjacent s1) (m_index (sc_mark s1)) (sc_adjacent s2) (m_index (sc_mark s2));
  br_skel : skel s1 = skel s2 }.
Arguments br_in {md s1 s2}. Arguments br_mark {md s1 s2}. Arguments br_tokens {md s1 s2}.
Arguments br_sks {md s1 s2}. Arguments br_adj {md s1 s2}. Arguments br_skel {md s1 s2}.
Arguments ir_chars {md i1 i2}. Arguments ir_nocr {md i1 i2}. Arguments ir_look {md i1 i2}.
Arguments kr_possible {c1 c2 k1 k2}. Arguments kr_required {c1 c2 k1 k2}. Arguments kr_number {c1 c2 k1 k2}.
Arguments kr_mark {c1 c2 k1 k2}. Arguments kr_line {c1 c2 k1 k2}. Arguments kr_shift {c1 c2 k1 k2}.

(* everything but the input (frame conditions of the input primitives: [ers t = ers s]) *)
Definition ers {I} (s : sc I) : sc unit :=
  {| sc_in := tt; sc_mark := sc_mark s; sc_tokens := sc_tokens s;
     sc_stream_start := sc_stream_start s; sc_stream_end := sc_stream_end s; sc_adjacent := sc_adjacent s;
     sc_ska := sc_ska s; sc_sks := sc_sks s; sc_indent := sc_indent s; sc_indents := sc_indents s;
     sc_flow_level := sc_flow_level s; sc_tokens_parsed := sc_tokens_parsed s;
     sc_token_available := sc_token_available s; sc_lws := sc_lws s; sc_ifms := sc_ifms s |}.
Lemma ers_set_in {I} (i : I) (s : sc I) : ers (set_in i s) = ers s.
Proof. reflexivity. Qed.
Lemma ers_fields {I J} (s : sc I) (t : sc J) : ers s = ers t ->
  sc_mark s = sc_mark t /\ sc_tokens s = sc_tokens t /\ sc_stream_start s = sc_stream_start t
  /\ sc_stream_end s = sc_stream_end t /\ sc_adjacent s = sc_adjacent t /\ sc_ska s = sc_ska t
  /\ sc_sks s = sc_sks t /\ sc_indent s = sc_indent t /\ sc_indents s = sc_indents t
  /\ sc_flow_level s = sc_flow_level t /\ sc_tokens_parsed s = sc_tokens_parsed t
  /\ sc_token_available s = sc_token_available t /\ sc_lws s = sc_lws t
  /\ sc_ifms s = sc_ifms t.
Proof. unfold ers. intros H. inversion H. repeat split; assumption. Qed.

(* ---- markers ---- *)
Lemma MR_refl m : MR m m.
Proof. split; reflexivity. Qed.
Lemma MR_adv n m1 m2 : MR m1 m2 -> MR (adv n m1) (adv n m2).
Proof. intros [L C]. split; cbn [adv m_line m_col]; congruence. Qed.
Lemma MR_nlm m1 m2 : MR m1 m2 -> MR (nlm m1) (nlm m2).
Proof. intros [L C]. split; cbn [nlm m_line m_col]; congruence. Qed.
Lemma MR_nlm_adv n m1 m2 : MR m1 m2 -> MR (nlm m1) (nlm (adv n m2)).
Proof. intros [L C]. split; cbn [nlm adv m_line m_col]; congruence. Qed.
Lemma SPR_empty m1 m2 : MR m1 m2 -> SPR (span_empty m1) (span_empty m2).
Proof. intros H. split; exact H. Qed.
Lemma SPR_mk a1 b1' a2 b2 : MR a1 a2 -> MR b1' b2 -> SPR {| sp_start := a1; sp_end := b1' |} {| sp_start := a2; sp_end := b2 |}.
Proof. intros H1 H2. split; assumption. Qed.
Lemma TR_mk sp1 sp2 t : SPR sp1 sp2 -> TR (sp1, t) (sp2, t).
Proof. intros H. split; [exact H|reflexivity]. Qed.
Lemma TR_empty m1 m2 t : MR m1 m2 -> TR (span_empty m1, t) (span_empty m2, t).
Proof. intros H. apply TR_mk. apply SPR_empty. exact H. Qed.

(* ---- how the mark may move: [mark_step c1 c2 m1 m2] (old marks c, new marks m) keeps [KR] and [ADJ] ---- *)
Definition mark_step (c1 c2 m1 m2 : marker) : Prop :=
  MR m1 m2 /\ (m_line c1 <= m_line m1)%N /\ (m_index c1 <= m_index m1)%N /\ (m_index c2 <= m_index m2)%N
  /\ (m_index m1 = m_index c1 <-> m_index m2 = m_index c2)
  /\ (m_line m1 = m_line c1 -> (m_index m2 + m_index c1 = m_index m1 + m_index c2)%N).
Lemma mark_step_refl c1 c2 : MR c1 c2 -> mark_step c1 c2 c1 c2.
Proof. intros [L C]. unfold mark_step, MR. repeat split; intros; auto; lia. Qed.
(* n characters of the same line, the same n on both sides *)
Lemma mark_step_adv n c1 c2 : MR c1 c2 -> mark_step c1 c2 (adv n c1) (adv n c2).
Proof. intros H. unfold mark_step. split; [apply MR_adv; exact H|]. cbn [adv m_index m_line m_col]. repeat split; intros; lia. Qed.
(* a line break: one character on side 1, k characters (k >= 1) on side 2 *)
Lemma mark_step_nl k c1 c2 : MR c1 c2 -> mark_step c1 c2 (nlm c1) (nlm (adv k c2)).
Proof.
  intros H. unfold mark_step. split; [apply MR_nlm_adv; exact H|]. cbn [adv nlm m_index m_line m_col]. repeat split; intros; lia.
Qed.
Lemma mark_step_nl0 c1 c2 : MR c1 c2 -> mark_step c1 c2 (nlm c1) (nlm c2).
Proof.
  intros H. unfold mark_step. split; [apply MR_nlm; exact H|]. cbn [nlm m_index m_line m_col]. repeat split; intros; lia.
Qed.
(* fetch_stream_end: a new line without consuming anything *)
Lemma mark_step_eol c1 c2 : MR c1 c2 ->
  mark_step c1 c2 {| m_index := m_index c1; m_line := m_line c1 + 1; m_col := 0 |}
                  {| m_index := m_index c2; m_line := m_line c2 + 1; m_col := 0 |}.
Proof.
  intros [L C]. unfold mark_step, MR. cbn [m_index m_line m_col]. repeat split; intros; lia.
Qed.
Lemma KR_step c1 c2 m1 m2 k1 k2 : mark_step c1 c2 m1 m2 -> KR c1 c2 k1 k2 -> KR m1 m2 k1 k2.
Proof.
  intros (HM & HL & H1 & H2 & HE & HS) [P R N' M L S]. split; try assumption.
  - intros EP. specialize (L EP). lia.
  - intros EP E. specialize (L EP). assert (E1 : m_line m1 = m_line c1) by lia.
    assert (E2 : m_line (sk_mark k1) = m_line c1) by lia.
    specialize (S EP E2). specialize (HS E1). lia.
Qed.
Lemma KRs_step c1 c2 m1 m2 l1 l2 : mark_step c1 c2 m1 m2 -> Forall2 (KR c1 c2) l1 l2 -> Forall2 (KR m1 m2) l1 l2.
Proof. intros H HF. induction HF; constructor; [eapply KR_step; eassumption|assumption]. Qed.
Lemma ADJ_step c1 c2 m1 m2 a1 a2 : mark_step c1 c2 m1 m2 ->
  ADJ a1 (m_index c1) a2 (m_index c2) -> ADJ a1 (m_index m1) a2 (m_index m2).
Proof. intros (HM & HL & H1 & H2 & HE & HS) (A1 & A2 & AE). unfold ADJ. lia. Qed.
Lemma ADJ_here i1 i2 : ADJ i1 i1 i2 i2.
Proof. unfold ADJ. lia. Qed.
(* a key saved at the current mark *)
Lemma KR_here c1 c2 p r n : MR c1 c2 ->
  KR c1 c2 {| sk_possible := p; sk_required := r; sk_token_number := n; sk_mark := c1 |}
           {| sk_possible := p; sk_required := r; sk_token_number := n; sk_mark := c2 |}.
Proof. intros H. split; cbn [sk_possible sk_required sk_token_number sk_mark]; auto; intros; lia. Qed.
(* a key that is not possible: only [MR] of the markers matters (placeholder 0:0:0 of a new flow level, a removed key) *)
Lemma KR_dead c1 c2 r n m1 m2 : MR m1 m2 ->
  KR c1 c2 {| sk_possible := false; sk_required := r; sk_token_number := n; sk_mark := m1 |}
           {| sk_possible := false; sk_required := r; sk_token_number := n; sk_mark := m2 |}.
Proof. intros H. split; cbn [sk_possible sk_required sk_token_number sk_mark]; auto; intros; discriminate. Qed.
Lemma KR_kill c1 c2 k1 k2 : KR c1 c2 k1 k2 ->
  KR c1 c2 {| sk_possible := false; sk_required := sk_required k1; sk_token_number := sk_token_number k1; sk_mark := sk_mark k1 |}
           {| sk_possible := false; sk_required := sk_required k2; sk_token_number := sk_token_number k2; sk_mark := sk_mark k2 |}.
Proof.
  intros [P R N' M L S]. split; cbn [sk_possible sk_required sk_token_number sk_mark]; auto; intros; discriminate.
Qed.

(* ================================================================================================ *)
(* 3. Reading the state relation                                                                    *)
(* ================================================================================================ *)
Ltac skel_cbn :=
  cbn [sc_in sc_mark sc_tokens sc_stream_start sc_stream_end sc_adjacent sc_ska sc_sks sc_indent sc_indents
       sc_flow_level sc_tokens_parsed sc_token_available sc_lws sc_ifms
       upd set_in set_mark set_tokens set_flags set_ska set_lws set_adj set_ta set_ss set_se
       set_struct set_sks set_indent set_fl set_tp set_ifms].

Lemma skel_fields (s t : bst) : skel s = skel t ->
  sc_stream_start s = sc_stream_start t /\ sc_stream_end s = sc_stream_end t /\ sc_ska s = sc_ska t
  /\ sc_indent s = sc_indent t /\ sc_indents s = sc_indents t /\ sc_flow_level s = sc_flow_level t
  /\ sc_tokens_parsed s = sc_tokens_parsed t /\ sc_token_available s = sc_token_available t
  /\ sc_lws s = sc_lws t /\ sc_ifms s = sc_ifms t.
Proof. unfold skel. intros H. inversion H. repeat split; assumption. Qed.

Lemma F2_length {A B} (R : A -> B -> Prop) l1 l2 : Forall2 R l1 l2 -> length l1 = length l2.
Proof. induction 1; cbn [length]; congruence. Qed.

Section Read.
Context {md : mode} {s1 s2 : bst} (H : BR md s1 s2).
Lemma BR_line : m_line (sc_mark s1) = m_line (sc_mark s2). Proof. exact (proj1 (br_mark H)). Qed.
Lemma BR_col : m_col (sc_mark s1) = m_col (sc_mark s2). Proof. exact (proj2 (br_mark H)). Qed.
Lemma BR_stream_start : sc_stream_start s1 = sc_stream_start s2. Proof. pose proof (skel_fields _ _ (br_skel H)). tauto. Qed.
Lemma BR_stream_end : sc_stream_end s1 = sc_stream_end s2. Proof. pose proof (skel_fields _ _ (br_skel H)). tauto. Qed.
Lemma BR_ska : sc_ska s1 = sc_ska s2. Proof. pose proof (skel_fields _ _ (br_skel H)). tauto. Qed.
Lemma BR_indent : sc_indent s1 = sc_indent s2. Proof. pose proof (skel_fields _ _ (br_skel H)). tauto. Qed.
Lemma BR_indents : sc_indents s1 = sc_indents s2. Proof. pose proof (skel_fields _ _ (br_skel H)). tauto. Qed.
Lemma BR_flow_level : sc_flow_level s1 = sc_flow_level s2. Proof. pose proof (skel_fields _ _ (br_skel H)). tauto. Qed.
Lemma BR_tokens_parsed : sc_tokens_parsed s1 = sc_tokens_parsed s2. Proof. pose proof (skel_fields _ _ (br_skel H)). tauto. Qed.
Lemma BR_token_available : sc_token_available s1 = sc_token_available s2. Proof. pose proof (skel_fields _ _ (br_skel H)). tauto. Qed.
Lemma BR_lws : sc_lws s1 = sc_lws s2. Proof. pose proof (skel_fields _ _ (br_skel H)). tauto. Qed.
Lemma BR_ifms : sc_ifms s1 = sc_ifms s2. Proof. pose proof (skel_fields _ _ (br_skel H)). tauto. Qed.
(* adjacent_value_allowed_at = the current index: the same answer on both sides (fetch_next_token, fetch_flow_value) *)
Lemma BR_adj_eqb : (m_index (sc_mark s2) =? sc_adjacent s2)%N = (m_index (sc_mark s1) =? sc_adjacent s1)%N.
Proof.
  destruct (br_adj H) as (A1 & A2 & AE).
  destruct (N.eqb_spec (m_index (sc_mark s2)) (sc_adjacent s2)) as [E2|N2];
    destruct (N.eqb_spec (m_index (sc_mark s1)) (sc_adjacent s1)) as [E1|N1]; try reflexivity; exfalso.
  - apply N1. symmetry. apply AE. symmetry. exact E2.
  - apply N2. symmetry. apply AE. symmetry. exact E1.
Qed.
Lemma BR_tokens_len : length (sc_tokens s1) = length (sc_tokens s2). Proof. exact (F2_length _ _ _ (br_tokens H)). Qed.
(* the inputs *)
Lemma BR_rm : rm s2 = img md (rm s1). Proof. exact (ir_chars (br_in H)). Qed.
Lemma BR_nocr : nocr (rm s1). Proof. exact (ir_nocr (br_in H)). Qed.
Lemma BR_lk : lk s2 = lk s1. Proof. exact (ir_look (br_in H)). Qed.
Lemma BR_rn_nocr k : rn s1 k <> 13%N. Proof. apply nocr_nth. exact BR_nocr. Qed.
(* the character at an aligned position of side 2 *)
Lemma BR_rn k : noLF k (rm s1) -> rn s2 k = b1 (rn s1 k).
Proof. intros HL. unfold rn. rewrite BR_rm. apply nth_img. exact HL. Qed.
Lemma BR_rn0 : rn s2 0 = b1 (rn s1 0). Proof. apply BR_rn. apply noLF_0. Qed.
Lemma BR_rn1 : rn s1 0 <> 10%N -> rn s2 1 = b1 (rn s1 1). Proof. intros H0. apply BR_rn. apply noLF_1. exact H0. Qed.
(* a line feed on side 1 is seen as CR on side 2, and nothing else is *)
Lemma BR_rn0_cr : (rn s2 0 =? 13)%N = (rn s1 0 =? 10)%N.
Proof. rewrite BR_rn0. apply b1_eq_cr. apply BR_rn_nocr. Qed.
Lemma BR_rn0_lf : (rn s2 0 =? 10)%N = false.
Proof. rewrite BR_rn0. apply b1_eq_lf_false. Qed.
Lemma BR_rn0_other : rn s1 0 <> 10%N -> rn s2 0 = rn s1 0.
Proof. intros H0. rewrite BR_rn0. apply b1_other. exact H0. Qed.
End Read.

(* [br_sync H]: H : BR md s1 s2; every equal-valued field of s2 in the goal (line and column of the mark included)
   becomes the field of s1.  [br_fwd H] rewrites the other way round. *)
Ltac br_sync H :=
  rewrite <- ?(BR_line H), <- ?(BR_col H), <- ?(BR_stream_start H), <- ?(BR_stream_end H), <- ?(BR_ska H),
          <- ?(BR_indent H), <- ?(BR_indents H), <- ?(BR_flow_level H), <- ?(BR_tokens_parsed H),
          <- ?(BR_token_available H), <- ?(BR_lws H), <- ?(BR_ifms H), <- ?(BR_tokens_len H).
Ltac br_fwd H :=
  rewrite ?(BR_line H), ?(BR_col H), ?(BR_stream_start H), ?(BR_stream_end H), ?(BR_ska H),
          ?(BR_indent H), ?(BR_indents H), ?(BR_flow_level H), ?(BR_tokens_parsed H),
          ?(BR_token_available H), ?(BR_lws H), ?(BR_ifms H), ?(BR_tokens_len H).
(* [br_eq]: x1 = x2, the same expression over equal-valued fields of two related states *)
Ltac br_eq :=
  first [ reflexivity
        | match goal with H : BR _ _ _ |- _ = _ => solve [skel_cbn; br_fwd H; reflexivity] end ].
Ltac skel_eq H := unfold skel; skel_cbn; br_fwd H; reflexivity.

(* ================================================================================================ *)
(* 4. The state relation under updates                                                              *)
(* ================================================================================================ *)
Section Upd.
Variable md : mode.

Lemma BR_set_in i1 i2 s1 s2 : BR md s1 s2 -> IR md i1 i2 -> BR md (set_in i1 s1) (set_in i2 s2).
Proof. intros H HI. constructor; skel_cbn; try apply H. exact HI. Qed.
Lemma BR_set_mark m1 m2 s1 s2 : BR md s1 s2 -> mark_step (sc_mark s1) (sc_mark s2) m1 m2 ->
  BR md (set_mark m1 s1) (set_mark m2 s2).
Proof.
  intros H HM. constructor; skel_cbn; try apply H.
  - exact (proj1 HM).
  - eapply KRs_step; [exact HM|apply H].
  - eapply ADJ_step; [exact HM|apply H].
Qed.
Lemma BR_set_tokens l1 l2 s1 s2 : BR md s1 s2 -> Forall2 TR l1 l2 -> BR md (set_tokens l1 s1) (set_tokens l2 s2).
Proof. intros H HL. constructor; skel_cbn; try apply H. exact HL. Qed.
Lemma BR_push s1 s2 t1 t2 : BR md s1 s2 -> TR t1 t2 ->
  BR md (set_tokens (sc_tokens s1 ++ [t1]) s1) (set_tokens (sc_tokens s2 ++ [t2]) s2).
Proof. intros H HT. apply BR_set_tokens; [exact H|]. apply Forall2_app; [apply H|]. constructor; [exact HT|constructor]. Qed.
Lemma BR_set_sks l1 l2 s1 s2 : BR md s1 s2 -> Forall2 (KR (sc_mark s1) (sc_mark s2)) l1 l2 ->
  BR md (set_sks l1 s1) (set_sks l2 s2).
Proof. intros H HL. constructor; skel_cbn; try apply H; try exact HL; skel_eq H. Qed.
Lemma BR_set_ska b s1 s2 : BR md s1 s2 -> BR md (set_ska b s1) (set_ska b s2).
Proof. intros H. constructor; skel_cbn; try apply H. skel_eq H. Qed.
Lemma BR_set_lws b s1 s2 : BR md s1 s2 -> BR md (set_lws b s1) (set_lws b s2).
Proof. intros H. constructor; skel_cbn; try apply H. skel_eq H. Qed.
Lemma BR_set_ta b s1 s2 : BR md s1 s2 -> BR md (set_ta b s1) (set_ta b s2).
Proof. intros H. constructor; skel_cbn; try apply H. skel_eq H. Qed.
Lemma BR_set_ss b s1 s2 : BR md s1 s2 -> BR md (set_ss b s1) (set_ss b s2).
Proof. intros H. constructor; skel_cbn; try apply H. skel_eq H. Qed.
Lemma BR_set_se b s1 s2 : BR md s1 s2 -> BR md (set_se b s1) (set_se b s2).
Proof. intros H. constructor; skel_cbn; try apply H. skel_eq H. Qed.
(* adjacent_value_allowed_at := the current index (the only value it is ever given) *)
Lemma BR_set_adj_here s1 s2 : BR md s1 s2 ->
  BR md (set_adj (m_index (sc_mark s1)) s1) (set_adj (m_index (sc_mark s2)) s2).
Proof. intros H. constructor; skel_cbn; try apply H; try apply ADJ_here; skel_eq H. Qed.
Lemma BR_set_indent z l s1 s2 : BR md s1 s2 -> BR md (set_indent z l s1) (set_indent z l s2).
Proof. intros H. constructor; skel_cbn; try apply H. skel_eq H. Qed.
Lemma BR_set_fl n s1 s2 : BR md s1 s2 -> BR md (set_fl n s1) (set_fl n s2).
Proof. intros H. constructor; skel_cbn; try apply H. skel_eq H. Qed.
Lemma BR_set_tp n s1 s2 : BR md s1 s2 -> BR md (set_tp n s1) (set_tp n s2).
Proof. intros H. constructor; skel_cbn; try apply H. skel_eq H. Qed.
Lemma BR_set_ifms l s1 s2 : BR md s1 s2 -> BR md (set_ifms l s1) (set_ifms l s2).
Proof. intros H. constructor; skel_cbn; try apply H. skel_eq H. Qed.

(* the initial states *)
Lemma BR_init x : nocr x ->
  BR md (init_sc {| si_chars := x; si_look := 0 |}) (init_sc {| si_chars := img md x; si_look := 0 |}).
Proof.
  intros Hx. constructor; cbn [init_sc sc_in sc_mark sc_tokens sc_sks sc_adjacent].
  - constructor; cbn [si_chars si_look]; auto.
  - apply MR_refl.
  - constructor.
  - constructor.
  - apply ADJ_here.
  - reflexivity.
Qed.
End Upd.

(* [br_upd]: closes [BR md (f s1) (f s2)] when [BR md s1 s2] is a hypothesis and [f] is the same composition of
   setters on both sides storing EQUAL values (flags, indents, flow level, ifms ...) or related ones
   (set_mark with [adv n], tokens with a [TR]-related token appended, set_adj at the current index); what it cannot
   close is left as a goal *)
Ltac br_upd_step :=
  first [ eassumption
        | apply BR_set_ska | apply BR_set_lws | apply BR_set_ta | apply BR_set_ss | apply BR_set_se
        | apply BR_set_indent | apply BR_set_fl | apply BR_set_tp | apply BR_set_ifms
        | apply BR_set_adj_here ].
Ltac br_upd := repeat br_upd_step.

(* ================================================================================================ *)
(* 5. The relational calculus                                                                       *)
(* ================================================================================================ *)
Definition bwp {A1 A2} (m1 : BM A1) (m2 : BM A2) (Q : A1 -> bst -> A2 -> bst -> Prop) (s1 s2 : bst) : Prop :=
  match m1 s1 with
  | Panic _ => True
  | OutOfFuel => True
  | Ok (a1, t1) => match m2 s2 with
                   | Ok (a2, t2) => Q a1 t1 a2 t2
                   | Err _ _ => False
                   | _ => True
                   end
  | Err e1 k1 => match m2 s2 with
                 | Err e2 k2 => e1 = e2 /\ MR k1 k2
                 | Ok _ => False
                 | _ => True
                 end
  end.

(* the usual shape of a postcondition: equal values *)
Definition Qe {A} (P : A -> bst -> bst -> Prop) : A -> bst -> A -> bst -> Prop :=
  fun a1 t1 a2 t2 => a1 = a2 /\ P a1 t1 t2.

Lemma bwp_ret {A1 A2} (a1 : A1) (a2 : A2) (Q : A1 -> bst -> A2 -> bst -> Prop) s1 s2 :
  Q a1 s1 a2 s2 -> bwp (ret a1) (ret a2) Q s1 s2.
Proof. auto. Qed.
Lemma bwp_bind {A1 A2 B1 B2} (m1 : BM A1) (m2 : BM A2) (f1 : A1 -> BM B1) (f2 : A2 -> BM B2)
  (Q : B1 -> bst -> B2 -> bst -> Prop) s1 s2 :
  bwp m1 m2 (fun a1 t1 a2 t2 => bwp (f1 a1) (f2 a2) Q t1 t2) s1 s2 -> bwp (bind m1 f1) (bind m2 f2) Q s1 s2.
Proof.
  unfold bwp, bind. destruct (m1 s1) as [[a1 t1]|e1 k1|n1|]; auto.
  - destruct (m2 s2) as [[a2 t2]|e2 k2|n2|]; auto; try tauto.
    + destruct (f1 a1 t1) as [[c1 u1]|? ?|?|]; auto.
    + destruct (f1 a1 t1) as [[c1 u1]|? ?|?|]; auto.
  - destruct (m2 s2) as [[a2 t2]|e2 k2|n2|]; auto; try tauto.
Qed.
(* equal-valued bind: the continuation is the same function on both sides *)
Lemma bwp_bind_e {A B1 B2} (m1 m2 : BM A) (f1 : A -> BM B1) (f2 : A -> BM B2) (Q : B1 -> bst -> B2 -> bst -> Prop) s1 s2 :
  bwp m1 m2 (Qe (fun a t1 t2 => bwp (f1 a) (f2 a) Q t1 t2)) s1 s2 -> bwp (bind m1 f1) (bind m2 f2) Q s1 s2.
Proof.
  intros H. apply bwp_bind. unfold bwp in *. destruct (m1 s1) as [[a1 t1]|e1 k1|n1|]; auto.
  destruct (m2 s2) as [[a2 t2]|e2 k2|n2|]; auto. destruct H as [-> H]. exact H.
Qed.
Lemma bwp_mono {A1 A2} (m1 : BM A1) (m2 : BM A2) (Q Q' : A1 -> bst -> A2 -> bst -> Prop) s1 s2 :
  bwp m1 m2 Q s1 s2 -> (forall a1 t1 a2 t2, Q a1 t1 a2 t2 -> Q' a1 t1 a2 t2) -> bwp m1 m2 Q' s1 s2.
Proof.
  unfold bwp. intros H HQ. destruct (m1 s1) as [[a1 t1]|e1 k1|n1|]; auto.
  destruct (m2 s2) as [[a2 t2]|e2 k2|n2|]; auto.
Qed.
(* the same error site, at markers with the same line and column *)
Lemma bwp_fail {A1 A2} site k1 k2 (Q : A1 -> bst -> A2 -> bst -> Prop) s1 s2 :
  MR k1 k2 -> bwp (@fail strin A1 site k1) (@fail strin A2 site k2) Q s1 s2.
Proof. intros H. unfold bwp, fail. auto. Qed.
Lemma bwp_panic_l {A1 A2} site (m2 : BM A2) (Q : A1 -> bst -> A2 -> bst -> Prop) s1 s2 : bwp (@panic strin A1 site) m2 Q s1 s2.
Proof. exact I. Qed.
Lemma bwp_oof_l {A1 A2} (m2 : BM A2) (Q : A1 -> bst -> A2 -> bst -> Prop) s1 s2 : bwp (@oof strin A1) m2 Q s1 s2.
Proof. exact I. Qed.
Lemma bwp_oof_r {A1 A2} (m1 : BM A1) (Q : A1 -> bst -> A2 -> bst -> Prop) s1 s2 : bwp m1 (@oof strin A2) Q s1 s2.
Proof. unfold bwp, oof. destruct (m1 s1) as [[a1 t1]|e1 k1|n1|]; auto. Qed.
Lemma bwp_panic_r {A1 A2} site (m1 : BM A1) (Q : A1 -> bst -> A2 -> bst -> Prop) s1 s2 : bwp m1 (@panic strin A2 site) Q s1 s2.
Proof. unfold bwp, panic. destruct (m1 s1) as [[a1 t1]|e1 k1|n1|]; auto. Qed.
Lemma bwp_get (Q : bst -> bst -> bst -> bst -> Prop) s1 s2 : Q s1 s1 s2 s2 -> bwp get get Q s1 s2.
Proof. auto. Qed.
Lemma bwp_gets {A1 A2} (f1 : bst -> A1) (f2 : bst -> A2) (Q : A1 -> bst -> A2 -> bst -> Prop) s1 s2 :
  Q (f1 s1) s1 (f2 s2) s2 -> bwp (gets f1) (gets f2) Q s1 s2.
Proof. auto. Qed.
Lemma bwp_put t1 t2 (Q : unit -> bst -> unit -> bst -> Prop) s1 s2 : Q tt t1 tt t2 -> bwp (put t1) (put t2) Q s1 s2.
Proof. auto. Qed.
Lemma bwp_modify f1 f2 (Q : unit -> bst -> unit -> bst -> Prop) s1 s2 :
  Q tt (f1 s1) tt (f2 s2) -> bwp (modify f1) (modify f2) Q s1 s2.
Proof. auto. Qed.

(* unfolding: what a related pair of proper results means *)
Lemma bwp_elim {A1 A2} (m1 : BM A1) (m2 : BM A2) (Q : A1 -> bst -> A2 -> bst -> Prop) s1 s2 : bwp m1 m2 Q s1 s2 ->
  match m1 s1, m2 s2 with
  | Ok (a1, t1), Ok (a2, t2) => Q a1 t1 a2 t2
  | Err e1 k1, Err e2 k2 => e1 = e2 /\ MR k1 k2
  | Ok _, Err _ _ => False
  | Err _ _, Ok _ => False
  | _, _ => True
  end.
Proof.
  unfold bwp. destruct (m1 s1) as [[a1 t1]|e1 k1|n1|]; destruct (m2 s2) as [[a2 t2]|e2 k2|n2|]; auto.
Qed.
Lemma bwp_intro {A1 A2} (m1 : BM A1) (m2 : BM A2) (Q : A1 -> bst -> A2 -> bst -> Prop) s1 s2 :
  match m1 s1, m2 s2 with
  | Ok (a1, t1), Ok (a2, t2) => Q a1 t1 a2 t2
  | Err e1 k1, Err e2 k2 => e1 = e2 /\ MR k1 k2
  | Ok _, Err _ _ => False
  | Err _ _, Ok _ => False
  | _, _ => True
  end -> bwp m1 m2 Q s1 s2.
Proof.
  unfold bwp. destruct (m1 s1) as [[a1 t1]|e1 k1|n1|]; destruct (m2 s2) as [[a2 t2]|e2 k2|n2|]; auto.
Qed.

(* ---- one-sided steps (a line break is one character on side 1 and two on side 2 in CRLF mode; loops whose
        iterations are not in lockstep).  [bwp] does not require the same fuel or the same function on both sides. ---- *)
Lemma bwp_step_l {A B1 B2} (m : BM A) (f1 : A -> BM B1) (m2 : BM B2) (Q : B1 -> bst -> B2 -> bst -> Prop) s1 s2 a t1 :
  m s1 = Ok (a, t1) -> bwp (f1 a) m2 Q t1 s2 -> bwp (bind m f1) m2 Q s1 s2.
Proof. intros Hm H. unfold bwp, bind in *. rewrite Hm. exact H. Qed.
Lemma bwp_step_r {A B1 B2} (m : BM A) (m1 : BM B1) (f2 : A -> BM B2) (Q : B1 -> bst -> B2 -> bst -> Prop) s1 s2 a t2 :
  m s2 = Ok (a, t2) -> bwp m1 (f2 a) Q s1 t2 -> bwp m1 (bind m f2) Q s1 s2.
Proof. intros Hm H. unfold bwp, bind in *. rewrite Hm. exact H. Qed.
(* both sides evaluated *)
Lemma bwp_eval {A1 A2} (m1 : BM A1) (m2 : BM A2) (Q : A1 -> bst -> A2 -> bst -> Prop) s1 s2 a1 t1 a2 t2 :
  m1 s1 = Ok (a1, t1) -> m2 s2 = Ok (a2, t2) -> Q a1 t1 a2 t2 -> bwp m1 m2 Q s1 s2.
Proof. intros H1 H2 HQ. unfold bwp. rewrite H1, H2. exact HQ. Qed.
Lemma bwp_bind_eval {A1 A2 B1 B2} (m1 : BM A1) (m2 : BM A2) (f1 : A1 -> BM B1) (f2 : A2 -> BM B2)
  (Q : B1 -> bst -> B2 -> bst -> Prop) s1 s2 a1 t1 a2 t2 :
  m1 s1 = Ok (a1, t1) -> m2 s2 = Ok (a2, t2) -> bwp (f1 a1) (f2 a2) Q t1 t2 -> bwp (bind m1 f1) (bind m2 f2) Q s1 s2.
Proof. intros H1 H2 HQ. apply bwp_bind. eapply bwp_eval; eassumption. Qed.

(* ================================================================================================ *)
(* 6. Closed forms of the string back-end's primitives (for one-sided steps and for the rules below) *)
(* ================================================================================================ *)
Definition bump (n : nat) (s : bst) : bst := set_in {| si_chars := rm s; si_look := Nat.max (lk s) n |} s.
Definition drop1 (s : bst) : bst := set_in {| si_chars := tl (rm s); si_look := lk s |} s.
Definition dropn (n : nat) (s : bst) : bst := set_in {| si_chars := skipn n (rm s); si_look := lk s |} s.
(* the result of skip_blank / skip_non_blank / skip_nl *)
Definition bl1 (s : bst) : bst := set_mark (adv 1 (sc_mark s)) (drop1 s).
Definition nb1 (s : bst) : bst := set_lws false (bl1 s).
Definition nl1 (s : bst) : bst := set_lws true (set_mark (nlm (sc_mark s)) (drop1 s)).

Lemma look_ok n s : look sops n s = Ok (tt, bump n s). Proof. reflexivity. Qed.
Lemma peekn_ok k s : peekn sops k s = Ok (rn s k, s). Proof. reflexivity. Qed.
Lemma peek_ok s : SPrim.peek sops s = Ok (rn s 0, s). Proof. reflexivity. Qed.
Lemma look_ch_ok s : look_ch sops s = Ok (rn s 0, bump 1 s). Proof. reflexivity. Qed.
Lemma in_skip_ok s : in_skip sops s = Ok (tt, drop1 s). Proof. reflexivity. Qed.
Lemma in_skip_n_ok n s : in_skip_n sops n s = Ok (tt, dropn n s). Proof. reflexivity. Qed.
Lemma skip_blank_ok s : skip_blank sops s = Ok (tt, bl1 s). Proof. reflexivity. Qed.
Lemma skip_non_blank_ok s : skip_non_blank sops s = Ok (tt, nb1 s). Proof. reflexivity. Qed.
Lemma skip_nl_ok s : skip_nl sops s = Ok (tt, nl1 s). Proof. reflexivity. Qed.
Lemma adv_mark_ok n (s : bst) : adv_mark n s = Ok (tt, set_mark (adv n (sc_mark s)) s). Proof. reflexivity. Qed.

Lemma rm_bump n s : rm (bump n s) = rm s. Proof. reflexivity. Qed.
Lemma rm_drop1 s : rm (drop1 s) = tl (rm s). Proof. reflexivity. Qed.
Lemma rm_dropn n s : rm (dropn n s) = skipn n (rm s). Proof. reflexivity. Qed.
Lemma rm_bl1 s : rm (bl1 s) = tl (rm s). Proof. reflexivity. Qed.
Lemma rm_nb1 s : rm (nb1 s) = tl (rm s). Proof. reflexivity. Qed.
Lemma rm_nl1 s : rm (nl1 s) = tl (rm s). Proof. reflexivity. Qed.
Lemma lk_bump n s : lk (bump n s) = Nat.max (lk s) n. Proof. reflexivity. Qed.
Lemma ers_bump n s : ers (bump n s) = ers s. Proof. reflexivity. Qed.
Lemma ers_drop1 s : ers (drop1 s) = ers s. Proof. reflexivity. Qed.
Lemma ers_dropn n s : ers (dropn n s) = ers s. Proof. reflexivity. Qed.
Lemma rn_tl (t s : bst) i : rm t = tl (rm s) -> rn t i = rn s (S i).
Proof. unfold rn. intros ->. destruct (rm s); [destruct i; reflexivity|reflexivity]. Qed.
Lemma rn_eq (t s : bst) i : rm t = rm s -> rn t i = rn s i.
Proof. unfold rn. intros ->. reflexivity. Qed.
Lemma nth_skipn {A} n i (l : list A) d : nth i (skipn n l) d = nth (n + i) l d.
Proof.
  revert l; induction n as [|n IH]; intros l; [reflexivity|].
  destruct l as [|a l]; [destruct i; reflexivity|]. cbn [skipn]. cbn [Nat.add nth]. apply IH.
Qed.
Lemma rn_skipn (t s : bst) n i : rm t = skipn n (rm s) -> rn t i = rn s (n + i).
Proof. unfold rn. intros ->. apply nth_skipn. Qed.

(* skip_linebreak / skip_break, evaluated *)
Lemma skip_linebreak_eval s : skip_linebreak sops s =
  if Nat.ltb (lk s) 2 then Panic 103%N
  else if ((rn s 0 =? 13) && (rn s 1 =? 10))%N then Ok (tt, nl1 (bl1 s))
  else if is_break (rn s 0) then Ok (tt, nl1 s) else Ok (tt, s).
Proof.
  unfold skip_linebreak, next_2_are, assert_buflen, bind. cbn [buflen str_ops]. fold (lk s).
  destruct (Nat.ltb (lk s) 2); [reflexivity|].
  rewrite peek_ok, peekn_ok. unfold ret.
  destruct ((rn s 0 =? 13) && (rn s 1 =? 10))%N; [reflexivity|].
  rewrite peek_ok. destruct (is_break (rn s 0)); reflexivity.
Qed.
Lemma skip_break_eval s : skip_break sops s =
  if is_break (rn s 0) then
    (if ((rn s 0 =? 13) && (rn s 1 =? 10))%N then Ok (tt, nl1 (bl1 s)) else Ok (tt, nl1 s))
  else Panic 110%N.
Proof.
  unfold skip_break, bind. rewrite peek_ok, peekn_ok.
  destruct (is_break (rn s 0)); [|reflexivity]. unfold ret.
  destruct ((rn s 0 =? 13) && (rn s 1 =? 10))%N; reflexivity.
Qed.

(* ================================================================================================ *)
(* 7. The input primitives under the relation                                                       *)
(* ================================================================================================ *)
Lemma rn0_lf s : rn s 0 = 10%N -> exists r, rm s = 10%N :: r.
Proof. unfold rn. destruct (rm s) as [|c r]; cbn [nth]; [discriminate|]. intros ->. exists r. reflexivity. Qed.
Lemma rn0_cons s c r : rm s = c :: r -> rn s 0 = c.
Proof. unfold rn. intros ->. reflexivity. Qed.

(* what side 2 does at a line break: CR LF is a skip_blank followed by a skip_nl, a lone CR is a skip_nl *)
Definition brk_nl (md : mode) (s : bst) : bst := match md with CRLF => nl1 (bl1 s) | CR => nl1 s end.
Definition skip_brk (md : mode) : BM unit :=
  match md with CRLF => bind (skip_blank sops) (fun _ => skip_nl sops) | CR => skip_nl sops end.
Lemma skip_brk_ok md s : skip_brk md s = Ok (tt, brk_nl md s).
Proof. destruct md; reflexivity. Qed.

(* the two sides jump to new inputs and new marks *)
Lemma BR_jump md s1 s2 i1 i2 m1 m2 : BR md s1 s2 -> IR md i1 i2 -> mark_step (sc_mark s1) (sc_mark s2) m1 m2 ->
  BR md (set_mark m1 (set_in i1 s1)) (set_mark m2 (set_in i2 s2)).
Proof. intros H HI HM. apply BR_set_mark; [apply BR_set_in; assumption|exact HM]. Qed.
(* THE LINE BREAK: side 1 consumes the LF, side 2 the CR LF / the CR; both are at column 0 of the next line *)
Lemma BR_break md s1 s2 : BR md s1 s2 -> rn s1 0 = 10%N -> BR md (nl1 s1) (brk_nl md s2).
Proof.
  intros H H0. destruct (rn0_lf _ H0) as [r Er].
  assert (E2 : rm s2 = brk md ++ img md r) by (rewrite (BR_rm H), Er; apply img_lf).
  assert (Hr : nocr r) by (pose proof (BR_nocr H) as HN; rewrite Er in HN; inversion HN; assumption).
  destruct md; unfold brk_nl.
  - change (nl1 (bl1 s2)) with
      (set_lws true (set_mark (nlm (adv 1 (sc_mark s2))) (set_in {| si_chars := tl (tl (rm s2)); si_look := lk s2 |} s2))).
    unfold nl1, drop1. apply BR_set_lws. apply BR_jump; [exact H| |apply mark_step_nl; exact (br_mark H)].
    constructor; cbn [si_chars si_look]; [rewrite E2, Er; reflexivity|rewrite Er; exact Hr|exact (BR_lk H)].
  - unfold nl1, drop1. apply BR_set_lws. apply BR_jump; [exact H| |apply mark_step_nl0; exact (br_mark H)].
    constructor; cbn [si_chars si_look]; [rewrite E2, Er; reflexivity|rewrite Er; exact Hr|exact (BR_lk H)].
Qed.
(* what side 2 sees at a line break of side 1 *)
Lemma BR_at_break md s1 s2 : BR md s1 s2 -> rn s1 0 = 10%N ->
  rn s2 0 = 13%N /\ (rn s2 1 =? 10)%N = match md with CRLF => true | CR => false end.
Proof.
  intros H H0. destruct (rn0_lf _ H0) as [r Er].
  assert (E2 : rm s2 = brk md ++ img md r) by (rewrite (BR_rm H), Er; apply img_lf).
  unfold rn. rewrite E2. destruct md; cbn [brk app nth]; split; try reflexivity.
  rewrite (nth_img CR 0 r (noLF_0 r)). apply b1_eq_lf_false.
Qed.

(* skip_linebreak / skip_break at a line break of side 1, both sides evaluated *)
Lemma skip_linebreak_at_break md s1 s2 : BR md s1 s2 -> rn s1 0 = 10%N -> Nat.ltb (lk s1) 2 = false ->
  skip_linebreak sops s1 = Ok (tt, nl1 s1) /\ skip_linebreak sops s2 = Ok (tt, brk_nl md s2).
Proof.
  intros H E0 HL. rewrite !skip_linebreak_eval. rewrite (BR_lk H), HL.
  destruct (BR_at_break _ _ _ H E0) as [E20 E21]. rewrite E0, E20, E21. split; [reflexivity|].
  destruct md; reflexivity.
Qed.
Lemma skip_break_at_break md s1 s2 : BR md s1 s2 -> rn s1 0 = 10%N ->
  skip_break sops s1 = Ok (tt, nl1 s1) /\ skip_break sops s2 = Ok (tt, brk_nl md s2).
Proof.
  intros H E0. rewrite !skip_break_eval.
  destruct (BR_at_break _ _ _ H E0) as [E20 E21]. rewrite E0, E20, E21. split; [reflexivity|].
  destruct md; reflexivity.
Qed.
(* ... and where side 1 has no line break, side 2 has none either *)
Lemma BR_not_break md s1 s2 : BR md s1 s2 -> rn s1 0 <> 10%N -> is_break (rn s1 0) = false /\ is_break (rn s2 0) = false.
Proof.
  intros H N0. pose proof (BR_rn_nocr H 0) as Hcr. rewrite (BR_rn0_other H N0).
  unfold is_break. apply N.eqb_neq in N0, Hcr. rewrite N0, Hcr. split; reflexivity.
Qed.

Section Rules.
Variable md : mode.

(* ---- the state relation along the input primitives ---- *)
Lemma BR_bump n s1 s2 : BR md s1 s2 -> BR md (bump n s1) (bump n s2).
Proof.
  intros H. unfold bump. apply BR_set_in; [exact H|].
  constructor; cbn [si_chars si_look]; [exact (BR_rm H)|exact (BR_nocr H)|rewrite (BR_lk H); reflexivity].
Qed.
Lemma BR_drop1 s1 s2 : BR md s1 s2 -> rn s1 0 <> 10%N -> BR md (drop1 s1) (drop1 s2).
Proof.
  intros H H0. unfold drop1. apply BR_set_in; [exact H|]. constructor; cbn [si_chars si_look].
  - rewrite (BR_rm H). apply tl_img. exact H0.
  - apply nocr_tl. exact (BR_nocr H).
  - exact (BR_lk H).
Qed.
Lemma BR_dropn n s1 s2 : BR md s1 s2 -> noLF n (rm s1) -> BR md (dropn n s1) (dropn n s2).
Proof.
  intros H H0. unfold dropn. apply BR_set_in; [exact H|]. constructor; cbn [si_chars si_look].
  - rewrite (BR_rm H). apply skipn_img. exact H0.
  - apply nocr_skipn. exact (BR_nocr H).
  - exact (BR_lk H).
Qed.
Lemma BR_adv n s1 s2 : BR md s1 s2 -> BR md (set_mark (adv n (sc_mark s1)) s1) (set_mark (adv n (sc_mark s2)) s2).
Proof. intros H. apply BR_set_mark; [exact H|]. apply mark_step_adv. exact (br_mark H). Qed.
Lemma BR_bl1 s1 s2 : BR md s1 s2 -> rn s1 0 <> 10%N -> BR md (bl1 s1) (bl1 s2).
Proof. intros H H0. unfold bl1. apply (BR_adv 1 (drop1 s1) (drop1 s2)). apply BR_drop1; assumption. Qed.
Lemma BR_nb1 s1 s2 : BR md s1 s2 -> rn s1 0 <> 10%N -> BR md (nb1 s1) (nb1 s2).
Proof. intros H H0. unfold nb1. apply BR_set_lws. apply BR_bl1; assumption. Qed.
(* ---- look / peek ---- *)
Lemma bwp_look n (Q : unit -> bst -> unit -> bst -> Prop) s1 s2 :
  BR md s1 s2 ->
  (forall t1 t2, BR md t1 t2 -> rm t1 = rm s1 -> ers t1 = ers s1 -> ers t2 = ers s2 -> n <= lk t1 -> lk s1 <= lk t1 ->
                 Q tt t1 tt t2) ->
  bwp (look sops n) (look sops n) Q s1 s2.
Proof.
  intros H HQ. eapply bwp_eval; [apply look_ok|apply look_ok|].
  apply HQ; [apply BR_bump; exact H|reflexivity|reflexivity|reflexivity|rewrite lk_bump; lia|rewrite lk_bump; lia].
Qed.
(* the raw rule: each side reads its own k-th character *)
Lemma bwp_peekn_raw k (Q : chr -> bst -> chr -> bst -> Prop) s1 s2 :
  Q (rn s1 k) s1 (rn s2 k) s2 -> bwp (peekn sops k) (peekn sops k) Q s1 s2.
Proof. intros HQ. exact HQ. Qed.
(* the aligned rule: none of the k characters before is a line feed *)
Lemma bwp_peekn k (Q : chr -> bst -> chr -> bst -> Prop) s1 s2 :
  BR md s1 s2 -> noLF k (rm s1) -> Q (rn s1 k) s1 (b1 (rn s1 k)) s2 -> bwp (peekn sops k) (peekn sops k) Q s1 s2.
Proof. intros H HL HQ. apply bwp_peekn_raw. rewrite (BR_rn H k HL). exact HQ. Qed.
Lemma bwp_peek (Q : chr -> bst -> chr -> bst -> Prop) s1 s2 :
  BR md s1 s2 -> Q (rn s1 0) s1 (b1 (rn s1 0)) s2 -> bwp (SPrim.peek sops) (SPrim.peek sops) Q s1 s2.
Proof. intros H HQ. apply bwp_peekn; [exact H|apply noLF_0|exact HQ]. Qed.
Lemma bwp_look_ch (Q : chr -> bst -> chr -> bst -> Prop) s1 s2 :
  BR md s1 s2 ->
  (forall t1 t2, BR md t1 t2 -> rm t1 = rm s1 -> ers t1 = ers s1 -> ers t2 = ers s2 -> 1 <= lk t1 ->
                 Q (rn t1 0) t1 (b1 (rn t1 0)) t2) ->
  bwp (look_ch sops) (look_ch sops) Q s1 s2.
Proof.
  intros H HQ. unfold look_ch. apply bwp_bind. apply bwp_look; [exact H|].
  intros t1 t2 HT R1 E1 E2 L1 _. apply bwp_peek; [exact HT|]. apply HQ; assumption.
Qed.
(* a predicate that does not see the substitution gives the same answer on both sides *)
Lemma bwp_next_is p (Q : bool -> bst -> bool -> bst -> Prop) s1 s2 :
  BR md s1 s2 -> bblind p -> Q (p (rn s1 0)) s1 (p (rn s1 0)) s2 -> bwp (next_is sops p) (next_is sops p) Q s1 s2.
Proof.
  intros H Hp HQ. unfold next_is. apply bwp_bind. apply bwp_peek; [exact H|]. apply bwp_ret. rewrite Hp. exact HQ.
Qed.

(* ---- skipping: a character that is not a line feed, in lockstep ---- *)
Lemma bwp_in_skip (Q : unit -> bst -> unit -> bst -> Prop) s1 s2 :
  BR md s1 s2 -> rn s1 0 <> 10%N ->
  (forall t1 t2, BR md t1 t2 -> rm t1 = tl (rm s1) -> ers t1 = ers s1 -> ers t2 = ers s2 -> Q tt t1 tt t2) ->
  bwp (in_skip sops) (in_skip sops) Q s1 s2.
Proof.
  intros H H0 HQ. eapply bwp_eval; [apply in_skip_ok|apply in_skip_ok|].
  apply HQ; [apply BR_drop1; assumption|reflexivity|reflexivity|reflexivity].
Qed.
Lemma bwp_in_skip_n n (Q : unit -> bst -> unit -> bst -> Prop) s1 s2 :
  BR md s1 s2 -> noLF n (rm s1) ->
  (forall t1 t2, BR md t1 t2 -> rm t1 = skipn n (rm s1) -> ers t1 = ers s1 -> ers t2 = ers s2 -> Q tt t1 tt t2) ->
  bwp (in_skip_n sops n) (in_skip_n sops n) Q s1 s2.
Proof.
  intros H H0 HQ. eapply bwp_eval; [apply in_skip_n_ok|apply in_skip_n_ok|].
  apply HQ; [apply BR_dropn; assumption|reflexivity|reflexivity|reflexivity].
Qed.
Lemma bwp_adv_mark n (Q : unit -> bst -> unit -> bst -> Prop) s1 s2 :
  BR md s1 s2 -> (forall t1 t2, BR md t1 t2 -> rm t1 = rm s1 -> Q tt t1 tt t2) -> bwp (adv_mark n) (adv_mark n) Q s1 s2.
Proof. intros H HQ. unfold adv_mark. apply bwp_modify. apply HQ; [apply BR_adv; exact H|reflexivity]. Qed.
Lemma bwp_skip_blank (Q : unit -> bst -> unit -> bst -> Prop) s1 s2 :
  BR md s1 s2 -> rn s1 0 <> 10%N ->
  (forall t1 t2, BR md t1 t2 -> rm t1 = tl (rm s1) -> Q tt t1 tt t2) -> bwp (skip_blank sops) (skip_blank sops) Q s1 s2.
Proof.
  intros H H0 HQ. eapply bwp_eval; [apply skip_blank_ok|apply skip_blank_ok|].
  apply HQ; [apply BR_bl1; assumption|reflexivity].
Qed.
Lemma bwp_skip_non_blank (Q : unit -> bst -> unit -> bst -> Prop) s1 s2 :
  BR md s1 s2 -> rn s1 0 <> 10%N ->
  (forall t1 t2, BR md t1 t2 -> rm t1 = tl (rm s1) -> Q tt t1 tt t2) ->
  bwp (skip_non_blank sops) (skip_non_blank sops) Q s1 s2.
Proof.
  intros H H0 HQ. eapply bwp_eval; [apply skip_non_blank_ok|apply skip_non_blank_ok|].
  apply HQ; [apply BR_nb1; assumption|reflexivity].
Qed.
Lemma bwp_skip_n_non_blank n (Q : unit -> bst -> unit -> bst -> Prop) s1 s2 :
  BR md s1 s2 -> noLF n (rm s1) ->
  (forall t1 t2, BR md t1 t2 -> rm t1 = skipn n (rm s1) -> Q tt t1 tt t2) ->
  bwp (skip_n_non_blank sops n) (skip_n_non_blank sops n) Q s1 s2.
Proof.
  intros H H0 HQ. unfold skip_n_non_blank. apply bwp_bind. apply bwp_in_skip_n; [exact H|exact H0|].
  intros u1 u2 HU R1 _ _. apply bwp_bind. apply bwp_adv_mark; [exact HU|]. intros v1 v2 HV R2.
  apply bwp_modify. apply HQ; [apply BR_set_lws; exact HV|].
  change (rm (set_lws false v1)) with (rm v1). rewrite R2, R1. reflexivity.
Qed.

(* ---- the line break ---- *)
(* skip_nl on side 1 against what side 2 does for its CR LF / CR *)
Lemma bwp_skip_nl (Q : unit -> bst -> unit -> bst -> Prop) s1 s2 :
  BR md s1 s2 -> rn s1 0 = 10%N ->
  (forall t1 t2, BR md t1 t2 -> rm t1 = tl (rm s1) -> Q tt t1 tt t2) -> bwp (skip_nl sops) (skip_brk md) Q s1 s2.
Proof.
  intros H H0 HQ. eapply bwp_eval; [apply skip_nl_ok|apply skip_brk_ok|].
  apply HQ; [apply BR_break; assumption|reflexivity].
Qed.
(* skip_linebreak: whatever the next character is *)
Lemma bwp_skip_linebreak (Q : unit -> bst -> unit -> bst -> Prop) s1 s2 :
  BR md s1 s2 ->
  (forall t1 t2, BR md t1 t2 -> rm t1 = (if (rn s1 0 =? 10)%N then tl (rm s1) else rm s1) -> Q tt t1 tt t2) ->
  bwp (skip_linebreak sops) (skip_linebreak sops) Q s1 s2.
Proof.
  intros H HQ. destruct (Nat.ltb (lk s1) 2) eqn:HL.
  { unfold bwp. rewrite skip_linebreak_eval, HL. exact I. }
  destruct (N.eqb_spec (rn s1 0) 10) as [E0|N0].
  - destruct (skip_linebreak_at_break md _ _ H E0 HL) as [R1 R2]. eapply bwp_eval; [exact R1|exact R2|].
    apply HQ; [apply BR_break; assumption|reflexivity].
  - destruct (BR_not_break md _ _ H N0) as [B1 B2]. pose proof (BR_rn_nocr H 0) as Hcr. apply N.eqb_neq in Hcr.
    unfold bwp. rewrite !skip_linebreak_eval. rewrite (BR_lk H), HL, B1, B2.
    rewrite (BR_rn0_other H N0), Hcr. cbn [andb]. apply HQ; [exact H|reflexivity].
Qed.
(* skip_break: the debug assertion (the next character is a break) fails on both sides or on none *)
Lemma bwp_skip_break (Q : unit -> bst -> unit -> bst -> Prop) s1 s2 :
  BR md s1 s2 ->
  (forall t1 t2, BR md t1 t2 -> rn s1 0 = 10%N -> rm t1 = tl (rm s1) -> Q tt t1 tt t2) ->
  bwp (skip_break sops) (skip_break sops) Q s1 s2.
Proof.
  intros H HQ. destruct (N.eqb_spec (rn s1 0) 10) as [E0|N0].
  - destruct (skip_break_at_break md _ _ H E0) as [R1 R2]. eapply bwp_eval; [exact R1|exact R2|].
    apply HQ; [apply BR_break; assumption|exact E0|reflexivity].
  - destruct (BR_not_break md _ _ H N0) as [B1 _]. unfold bwp. rewrite skip_break_eval, B1. exact I.
Qed.

(* ---- raw_read / buf_is_empty / assert_buflen ---- *)
Lemma bwp_raw_read (Q : option chr -> bst -> option chr -> bst -> Prop) s1 s2 :
  BR md s1 s2 ->
  (forall c t1 t2, BR md t1 t2 -> ers t1 = ers s1 -> ers t2 = ers s2 ->
     match c with
     | Some x => rm s1 = x :: rm t1 /\ is_breakz x = false
     | None => rm t1 = rm s1 /\ is_breakz (rn s1 0) = true
     end -> Q c t1 c t2) ->
  bwp (raw_read sops) (raw_read sops) Q s1 s2.
Proof.
  intros H HQ. unfold bwp, raw_read. cbn [raw_read_non_breakz str_ops].
  change (si_chars (sc_in s2)) with (rm s2). change (si_chars (sc_in s1)) with (rm s1). rewrite (BR_rm H).
  assert (HSame : BR md (set_in (sc_in s1) s1) (set_in (sc_in s2) s2)) by (apply BR_set_in; [exact H|exact (br_in H)]).
  pose proof (BR_nocr H) as HN.
  destruct (rm s1) as [|c r] eqn:E1.
  - rewrite img_nil. apply HQ; [exact HSame|reflexivity|reflexivity|]. split; [exact E1|]. unfold rn. rewrite E1. reflexivity.
  - destruct (N.eq_dec c 10) as [->|Hc].
    + rewrite img_lf. change (is_breakz 10) with true. cbv iota.
      assert (E2 : match brk md ++ img md r with [] => False | x :: _ => is_breakz x = true end) by (destruct md; reflexivity).
      destruct (brk md ++ img md r) as [|x r2]; [destruct E2|]. rewrite E2.
      apply HQ; [exact HSame|reflexivity|reflexivity|]. split; [exact E1|]. unfold rn. rewrite E1. reflexivity.
    + rewrite img_other by exact Hc. destruct (is_breakz c) eqn:Eb.
      * apply HQ; [exact HSame|reflexivity|reflexivity|]. split; [exact E1|]. unfold rn. rewrite E1. exact Eb.
      * apply HQ; [|reflexivity|reflexivity|split; [reflexivity|exact Eb]].
        apply BR_set_in; [exact H|]. constructor; cbn [si_chars si_look]; [reflexivity|inversion HN; assumption|exact (BR_lk H)].
Qed.
(* the same answer: the lookahead counters are equal *)
Lemma bwp_buf_is_empty (Q : bool -> bst -> bool -> bst -> Prop) s1 s2 :
  BR md s1 s2 -> Q (Nat.eqb (lk s1) 0) s1 (Nat.eqb (lk s1) 0) s2 -> bwp (buf_is_empty sops) (buf_is_empty sops) Q s1 s2.
Proof.
  intros H HQ. unfold buf_is_empty. apply bwp_gets. cbn [buflen str_ops]. fold (lk s1). fold (lk s2).
  rewrite (BR_lk H). exact HQ.
Qed.
(* both sides pass the assertion or both panic *)
Lemma bwp_assert_buflen n site (Q : unit -> bst -> unit -> bst -> Prop) s1 s2 :
  BR md s1 s2 -> Q tt s1 tt s2 -> bwp (assert_buflen sops n site) (assert_buflen sops n site) Q s1 s2.
Proof.
  intros H HQ. unfold bwp, assert_buflen. cbn [buflen str_ops]. fold (lk s1). fold (lk s2). rewrite (BR_lk H).
  destruct (Nat.ltb (lk s1) n); [exact I|exact HQ].
Qed.

End Rules.

(* ================================================================================================ *)
(* 8. The Input default methods (input.rs): tests on the next characters                            *)
(* ================================================================================================ *)
(* the values they compute, as functions of the remaining text *)
Definition n2are (s : bst) (a b : chr) : bool := ((rn s 0 =? a) && (rn s 1 =? b))%N.
Definition n3are (s : bst) (a b c : chr) : bool := ((rn s 0 =? a) && (rn s 1 =? b) && (rn s 2 =? c))%N.
Definition docind_val (s : bst) : bool :=
  if is_blank_or_breakz (rn s 3) then (if n3are s 46%N 46%N 46%N then true else n3are s 45%N 45%N 45%N) else false.
Definition docstart_val (s : bst) : bool := if n3are s 45%N 45%N 45%N then is_blank_or_breakz (rn s 3) else false.
Definition docend_val (s : bst) : bool := if n3are s 46%N 46%N 46%N then is_blank_or_breakz (rn s 3) else false.
Definition plain_ok_val (fl : bool) (s : bst) : bool :=
  if ((rn s 0 =? 58)%N && (is_blank_or_breakz (rn s 1) || (fl && is_flow (rn s 1)))) then false
  else if fl && is_flow (rn s 0) then false else true.
(* a literal that is neither LF nor CR (solve by [reflexivity]) *)
Definition lit (k : chr) : Prop := ((k =? 10) || (k =? 13))%N = false.
Lemma lit_lf k : lit k -> (10 =? k)%N = false.
Proof. unfold lit. intros H. apply orb_false_iff in H. rewrite N.eqb_sym. tauto. Qed.
Lemma lit_cr k : lit k -> (13 =? k)%N = false.
Proof. unfold lit. intros H. apply orb_false_iff in H. rewrite N.eqb_sym. tauto. Qed.
Lemma lit_eq_noLF c k : lit k -> (c =? k)%N = true -> c <> 10%N.
Proof. intros H E ->. rewrite (lit_lf k H) in E. discriminate. Qed.

(* closed forms (the assertions panic when the lookahead counter is too small) *)
Lemma next_2_are_eval s a b : next_2_are sops a b s = if Nat.ltb (lk s) 2 then Panic 103%N else Ok (n2are s a b, s).
Proof. unfold next_2_are, assert_buflen, bind. cbn [buflen str_ops]. fold (lk s). destruct (Nat.ltb (lk s) 2); reflexivity. Qed.
Lemma next_3_are_eval s a b c : next_3_are sops a b c s = if Nat.ltb (lk s) 3 then Panic 104%N else Ok (n3are s a b c, s).
Proof. unfold next_3_are, assert_buflen, bind. cbn [buflen str_ops]. fold (lk s). destruct (Nat.ltb (lk s) 3); reflexivity. Qed.
Lemma ltb4_3 n : Nat.ltb n 4 = false -> Nat.ltb n 3 = false.
Proof. intros H. apply Nat.ltb_ge in H. apply Nat.ltb_ge. lia. Qed.
Lemma docind_eval s : next_is_document_indicator sops s = if Nat.ltb (lk s) 4 then Panic 105%N else Ok (docind_val s, s).
Proof.
  unfold next_is_document_indicator, assert_buflen, bind. cbn [buflen str_ops]. fold (lk s).
  destruct (Nat.ltb (lk s) 4) eqn:E; [reflexivity|]. rewrite peekn_ok. unfold docind_val.
  destruct (is_blank_or_breakz (rn s 3)); [|reflexivity].
  rewrite next_3_are_eval, (ltb4_3 _ E). destruct (n3are s 46%N 46%N 46%N); [reflexivity|].
  rewrite next_3_are_eval, (ltb4_3 _ E). reflexivity.
Qed.
Lemma docstart_eval s : next_is_document_start sops s = if Nat.ltb (lk s) 4 then Panic 106%N else Ok (docstart_val s, s).
Proof.
  unfold next_is_document_start, assert_buflen, bind. cbn [buflen str_ops]. fold (lk s).
  destruct (Nat.ltb (lk s) 4) eqn:E; [reflexivity|]. rewrite next_3_are_eval, (ltb4_3 _ E). unfold docstart_val.
  destruct (n3are s 45%N 45%N 45%N); reflexivity.
Qed.
Lemma docend_eval s : next_is_document_end sops s = if Nat.ltb (lk s) 4 then Panic 107%N else Ok (docend_val s, s).
Proof.
  unfold next_is_document_end, assert_buflen, bind. cbn [buflen str_ops]. fold (lk s).
  destruct (Nat.ltb (lk s) 4) eqn:E; [reflexivity|]. rewrite next_3_are_eval, (ltb4_3 _ E). unfold docend_val.
  destruct (n3are s 46%N 46%N 46%N); reflexivity.
Qed.
Lemma plain_ok_eval fl s : next_can_be_plain_scalar sops fl s = Ok (plain_ok_val fl s, s).
Proof.
  unfold next_can_be_plain_scalar, bind. rewrite peekn_ok, peek_ok. unfold plain_ok_val.
  destruct ((rn s 0 =? 58)%N && (is_blank_or_breakz (rn s 1) || fl && is_flow (rn s 1))); [reflexivity|].
  destruct (fl && is_flow (rn s 0)); reflexivity.
Qed.

Section Tests.
Variable md : mode.

(* a run of literals is found on side 2 exactly when it is found on side 1 - whatever the alignment *)
Lemma n2are_brk s1 s2 a b : BR md s1 s2 -> lit a -> lit b -> n2are s2 a b = n2are s1 a b.
Proof.
  intros H La Lb. unfold n2are. destruct (N.eqb_spec (rn s1 0) 10) as [E0|N0].
  - rewrite (BR_rn0 H), E0, b1_lf, (lit_lf a La), (lit_cr a La). reflexivity.
  - rewrite (BR_rn0_other H N0), (BR_rn1 H N0), (b1_eqb _ b Lb). reflexivity.
Qed.
Lemma n3are_brk s1 s2 a b c : BR md s1 s2 -> lit a -> lit b -> lit c -> n3are s2 a b c = n3are s1 a b c.
Proof.
  intros H La Lb Lc. unfold n3are. destruct (N.eqb_spec (rn s1 0) 10) as [E0|N0].
  - rewrite (BR_rn0 H), E0, b1_lf, (lit_lf a La), (lit_cr a La). reflexivity.
  - rewrite (BR_rn0_other H N0), (BR_rn1 H N0), (b1_eqb _ b Lb).
    destruct (N.eqb_spec (rn s1 1) 10) as [E1|N1].
    + rewrite E1, (lit_lf b Lb), !andb_false_r. reflexivity.
    + rewrite (BR_rn H 2), (b1_eqb _ c Lc); [reflexivity|]. apply noLF_S; [apply noLF_1; exact N0|exact N1].
Qed.
Lemma n3are_noLF (s : bst) a b c : lit a -> lit b -> lit c -> n3are s a b c = true -> noLF 3 (rm s).
Proof.
  intros La Lb Lc E. unfold n3are in E. apply andb_true_iff in E. destruct E as [E Ec].
  apply andb_true_iff in E. destruct E as [Ea Eb].
  apply noLF_S; [apply noLF_S; [apply noLF_1; exact (lit_eq_noLF _ a La Ea)|exact (lit_eq_noLF _ b Lb Eb)]
                |exact (lit_eq_noLF _ c Lc Ec)].
Qed.
Lemma docstart_brk s1 s2 : BR md s1 s2 -> docstart_val s2 = docstart_val s1.
Proof.
  intros H. unfold docstart_val. rewrite (n3are_brk s1 s2) by (exact H || reflexivity).
  destruct (n3are s1 45%N 45%N 45%N) eqn:E; [|reflexivity].
  rewrite (BR_rn H 3); [apply b1_is_blank_or_breakz|]. eapply n3are_noLF; [| | |exact E]; reflexivity.
Qed.
Lemma docend_brk s1 s2 : BR md s1 s2 -> docend_val s2 = docend_val s1.
Proof.
  intros H. unfold docend_val. rewrite (n3are_brk s1 s2) by (exact H || reflexivity).
  destruct (n3are s1 46%N 46%N 46%N) eqn:E; [|reflexivity].
  rewrite (BR_rn H 3); [apply b1_is_blank_or_breakz|]. eapply n3are_noLF; [| | |exact E]; reflexivity.
Qed.
Lemma docind_brk s1 s2 : BR md s1 s2 -> docind_val s2 = docind_val s1.
Proof.
  intros H. unfold docind_val. rewrite !(n3are_brk s1 s2) by (exact H || reflexivity).
  destruct (n3are s1 46%N 46%N 46%N) eqn:E.
  { rewrite (BR_rn H 3); [rewrite b1_is_blank_or_breakz; reflexivity|]. eapply n3are_noLF; [| | |exact E]; reflexivity. }
  destruct (n3are s1 45%N 45%N 45%N) eqn:E'.
  { rewrite (BR_rn H 3); [rewrite b1_is_blank_or_breakz; reflexivity|]. eapply n3are_noLF; [| | |exact E']; reflexivity. }
  destruct (is_blank_or_breakz (rn s2 3)), (is_blank_or_breakz (rn s1 3)); reflexivity.
Qed.
Lemma plain_ok_brk fl s1 s2 : BR md s1 s2 -> rn s1 0 <> 10%N -> plain_ok_val fl s2 = plain_ok_val fl s1.
Proof.
  intros H N0. unfold plain_ok_val. rewrite (BR_rn0_other H N0), (BR_rn1 H N0). b1_norm. reflexivity.
Qed.

(* a test on the SECOND character guarded by "the first is the literal k": no alignment premise
   (fetch_block_entry: [(c =? 45) && is_blank_or_breakz nc]; scan_plain_scalar: [(c =? 45) && is_flow nc]) *)
Lemma guard1_brk p k s1 s2 : BR md s1 s2 -> lit k -> bblind p ->
  ((rn s2 0 =? k)%N && p (rn s2 1)) = ((rn s1 0 =? k)%N && p (rn s1 1)).
Proof.
  intros H Lk Hp. destruct (N.eqb_spec (rn s1 0) 10) as [E0|N0].
  - rewrite (BR_rn0 H), E0, b1_lf, (lit_lf k Lk), (lit_cr k Lk). reflexivity.
  - rewrite (BR_rn0_other H N0), (BR_rn1 H N0), Hp. reflexivity.
Qed.

(* the rules: the SAME value on both sides *)
Lemma bwp_next_char_is c (Q : bool -> bst -> bool -> bst -> Prop) s1 s2 :
  BR md s1 s2 -> lit c -> Q (rn s1 0 =? c)%N s1 (rn s1 0 =? c)%N s2 -> bwp (next_char_is sops c) (next_char_is sops c) Q s1 s2.
Proof.
  intros H Lc HQ. unfold next_char_is. apply bwp_bind. apply (bwp_peek md); [exact H|]. apply bwp_ret.
  rewrite (b1_eqb _ c Lc). exact HQ.
Qed.
Lemma bwp_nth_char_is n c (Q : bool -> bst -> bool -> bst -> Prop) s1 s2 :
  BR md s1 s2 -> noLF n (rm s1) -> lit c -> Q (rn s1 n =? c)%N s1 (rn s1 n =? c)%N s2 ->
  bwp (nth_char_is sops n c) (nth_char_is sops n c) Q s1 s2.
Proof.
  intros H HL Lc HQ. unfold nth_char_is. apply bwp_bind. apply (bwp_peekn md); [exact H|exact HL|]. apply bwp_ret.
  rewrite (b1_eqb _ c Lc). exact HQ.
Qed.
Lemma bwp_next_2_are a b (Q : bool -> bst -> bool -> bst -> Prop) s1 s2 :
  BR md s1 s2 -> lit a -> lit b -> Q (n2are s1 a b) s1 (n2are s1 a b) s2 -> bwp (next_2_are sops a b) (next_2_are sops a b) Q s1 s2.
Proof.
  intros H La Lb HQ. unfold bwp. rewrite !next_2_are_eval, (BR_lk H). destruct (Nat.ltb (lk s1) 2); [exact I|].
  rewrite (n2are_brk _ _ a b H La Lb). exact HQ.
Qed.
Lemma bwp_next_3_are a b c (Q : bool -> bst -> bool -> bst -> Prop) s1 s2 :
  BR md s1 s2 -> lit a -> lit b -> lit c -> Q (n3are s1 a b c) s1 (n3are s1 a b c) s2 ->
  bwp (next_3_are sops a b c) (next_3_are sops a b c) Q s1 s2.
Proof.
  intros H La Lb Lc HQ. unfold bwp. rewrite !next_3_are_eval, (BR_lk H). destruct (Nat.ltb (lk s1) 3); [exact I|].
  rewrite (n3are_brk _ _ a b c H La Lb Lc). exact HQ.
Qed.
(* document markers: no alignment premise - a marker found on one side is found on the other *)
Lemma bwp_next_is_document_indicator (Q : bool -> bst -> bool -> bst -> Prop) s1 s2 :
  BR md s1 s2 -> Q (docind_val s1) s1 (docind_val s1) s2 ->
  bwp (next_is_document_indicator sops) (next_is_document_indicator sops) Q s1 s2.
Proof.
  intros H HQ. unfold bwp. rewrite !docind_eval, (BR_lk H). destruct (Nat.ltb (lk s1) 4); [exact I|].
  rewrite (docind_brk _ _ H). exact HQ.
Qed.
Lemma bwp_next_is_document_start (Q : bool -> bst -> bool -> bst -> Prop) s1 s2 :
  BR md s1 s2 -> Q (docstart_val s1) s1 (docstart_val s1) s2 ->
  bwp (next_is_document_start sops) (next_is_document_start sops) Q s1 s2.
Proof.
  intros H HQ. unfold bwp. rewrite !docstart_eval, (BR_lk H). destruct (Nat.ltb (lk s1) 4); [exact I|].
  rewrite (docstart_brk _ _ H). exact HQ.
Qed.
Lemma bwp_next_is_document_end (Q : bool -> bst -> bool -> bst -> Prop) s1 s2 :
  BR md s1 s2 -> Q (docend_val s1) s1 (docend_val s1) s2 ->
  bwp (next_is_document_end sops) (next_is_document_end sops) Q s1 s2.
Proof.
  intros H HQ. unfold bwp. rewrite !docend_eval, (BR_lk H). destruct (Nat.ltb (lk s1) 4); [exact I|].
  rewrite (docend_brk _ _ H). exact HQ.
Qed.
(* next_can_be_plain_scalar looks at TWO characters: the first must not be a line feed *)
Lemma bwp_next_can_be_plain_scalar fl (Q : bool -> bst -> bool -> bst -> Prop) s1 s2 :
  BR md s1 s2 -> rn s1 0 <> 10%N -> Q (plain_ok_val fl s1) s1 (plain_ok_val fl s1) s2 ->
  bwp (next_can_be_plain_scalar sops fl) (next_can_be_plain_scalar sops fl) Q s1 s2.
Proof.
  intros H N0 HQ. unfold bwp. rewrite !plain_ok_eval. rewrite (plain_ok_brk fl _ _ H N0). exact HQ.
Qed.
End Tests.

(* ================================================================================================ *)
(* 9. Contracts (proved in the ScanBrk*.v files; see SCANBRK.md)                                    *)
(*    TWO independent fuels everywhere: the runs on [x] and on [img md x] are given different fuels  *)
(*    by [run_str] (the texts have different lengths); all loops are in lockstep, so the proofs are  *)
(*    by induction on the first fuel and case analysis on the second.                               *)
(* ================================================================================================ *)
(* how two scans end *)
Definition ER (e1 e2 : scan_end) : Prop :=
  match e1, e2 with
  | SEnded, SEnded => True
  | SError a k1, SError b k2 => a = b /\ MR k1 k2
  | SPanic _, _ | _, SPanic _ | SFuel, _ | _, SFuel => True
  | _, _ => False
  end.
Definition proper_end (e : scan_end) : Prop := match e with SEnded | SError _ _ => True | _ => False end.
Definition OTR (o1 o2 : option token) : Prop :=
  match o1, o2 with Some t1, Some t2 => TR t1 t2 | None, None => True | _, _ => False end.

Section Contracts.
Variable md : mode.

(* [bpost VR]: values related by [VR], states related;  [bpost_al VR]: moreover the next character of side 1 is
   not a line feed, i.e. positions 0 and 1 of the two inputs are aligned (what every scan_* / fetch_* entry needs) *)
Definition bpost {A1 A2} (VR : A1 -> A2 -> Prop) : A1 -> bst -> A2 -> bst -> Prop :=
  fun a1 t1 a2 t2 => VR a1 a2 /\ BR md t1 t2.
Definition bpost_al {A1 A2} (VR : A1 -> A2 -> Prop) : A1 -> bst -> A2 -> bst -> Prop :=
  fun a1 t1 a2 t2 => VR a1 a2 /\ BR md t1 t2 /\ rn t1 0 <> 10%N.

(* --- primitives family (ScanBrkPrim.v) --- *)
Definition brk_skip_to_next_token : Prop := forall F1 F2 s1 s2, BR md s1 s2 ->
  bwp (skip_to_next_token sops F1) (skip_to_next_token sops F2) (bpost_al eq) s1 s2.
Definition brk_skip_ws_to_eol : Prop := forall F1 F2 stb s1 s2, BR md s1 s2 ->
  bwp (skip_ws_to_eol sops F1 stb) (skip_ws_to_eol sops F2 stb) (bpost eq) s1 s2.
Definition brk_skip_yaml_whitespace : Prop := forall F1 F2 s1 s2, BR md s1 s2 ->
  bwp (skip_yaml_whitespace sops F1) (skip_yaml_whitespace sops F2) (bpost_al eq) s1 s2.

(* --- scanners: entered at a character that is not a line feed; the same token up to [MR] --- *)
Definition brk_scan_directive : Prop := forall F1 F2 s1 s2, BR md s1 s2 -> rn s1 0 <> 10%N ->
  bwp (scan_directive sops F1) (scan_directive sops F2) (bpost TR) s1 s2.
Definition brk_scan_tag : Prop := forall F1 F2 s1 s2, BR md s1 s2 -> rn s1 0 <> 10%N ->
  bwp (scan_tag sops F1) (scan_tag sops F2) (bpost TR) s1 s2.
Definition brk_scan_anchor : Prop := forall F1 F2 alias s1 s2, BR md s1 s2 -> rn s1 0 <> 10%N ->
  bwp (scan_anchor sops F1 alias) (scan_anchor sops F2 alias) (bpost TR) s1 s2.
Definition brk_scan_flow_scalar : Prop := forall F1 F2 single s1 s2, BR md s1 s2 -> rn s1 0 <> 10%N ->
  bwp (scan_flow_scalar sops F1 single) (scan_flow_scalar sops F2 single) (bpost TR) s1 s2.
Definition brk_scan_plain_scalar : Prop := forall F1 F2 s1 s2, BR md s1 s2 -> rn s1 0 <> 10%N ->
  bwp (scan_plain_scalar sops F1) (scan_plain_scalar sops F2) (bpost TR) s1 s2.
Definition brk_scan_block_scalar : Prop := forall F1 F2 literal s1 s2, BR md s1 s2 -> rn s1 0 <> 10%N ->
  bwp (scan_block_scalar sops F1 literal) (scan_block_scalar sops F2 literal) (bpost TR) s1 s2.

(* --- skeleton (top family) --- *)
Definition brk_fetch_stream_start : Prop := forall s1 s2, BR md s1 s2 ->
  bwp fetch_stream_start fetch_stream_start (bpost eq) s1 s2.
Definition brk_fetch_stream_end : Prop := forall s1 s2, BR md s1 s2 ->
  bwp fetch_stream_end fetch_stream_end (bpost eq) s1 s2.
Definition brk_fetch_directive : Prop := forall F1 F2 s1 s2, BR md s1 s2 -> rn s1 0 <> 10%N ->
  bwp (fetch_directive sops F1) (fetch_directive sops F2) (bpost eq) s1 s2.
Definition brk_fetch_tag : Prop := forall F1 F2 s1 s2, BR md s1 s2 -> rn s1 0 <> 10%N ->
  bwp (fetch_tag sops F1) (fetch_tag sops F2) (bpost eq) s1 s2.
Definition brk_fetch_anchor : Prop := forall F1 F2 alias s1 s2, BR md s1 s2 -> rn s1 0 <> 10%N ->
  bwp (fetch_anchor sops F1 alias) (fetch_anchor sops F2 alias) (bpost eq) s1 s2.
Definition brk_fetch_flow_collection_start : Prop := forall F1 F2 seq s1 s2, BR md s1 s2 -> rn s1 0 <> 10%N ->
  bwp (fetch_flow_collection_start sops F1 seq) (fetch_flow_collection_start sops F2 seq) (bpost eq) s1 s2.
Definition brk_fetch_flow_collection_end : Prop := forall F1 F2 seq s1 s2, BR md s1 s2 -> rn s1 0 <> 10%N ->
  bwp (fetch_flow_collection_end sops F1 seq) (fetch_flow_collection_end sops F2 seq) (bpost eq) s1 s2.
Definition brk_fetch_flow_entry : Prop := forall F1 F2 s1 s2, BR md s1 s2 -> rn s1 0 <> 10%N ->
  bwp (fetch_flow_entry sops F1) (fetch_flow_entry sops F2) (bpost eq) s1 s2.
Definition brk_fetch_block_entry : Prop := forall F1 F2 s1 s2, BR md s1 s2 -> rn s1 0 <> 10%N ->
  bwp (fetch_block_entry sops F1) (fetch_block_entry sops F2) (bpost eq) s1 s2.
(* three characters are consumed blindly: they are the marker just recognised, none of them a line feed *)
Definition brk_fetch_document_indicator : Prop := forall t s1 s2, BR md s1 s2 -> noLF 3 (rm s1) ->
  bwp (fetch_document_indicator sops t) (fetch_document_indicator sops t) (bpost eq) s1 s2.
Definition brk_fetch_block_scalar : Prop := forall F1 F2 literal s1 s2, BR md s1 s2 -> rn s1 0 <> 10%N ->
  bwp (fetch_block_scalar sops F1 literal) (fetch_block_scalar sops F2 literal) (bpost eq) s1 s2.
Definition brk_fetch_flow_scalar : Prop := forall F1 F2 single s1 s2, BR md s1 s2 -> rn s1 0 <> 10%N ->
  bwp (fetch_flow_scalar sops F1 single) (fetch_flow_scalar sops F2 single) (bpost eq) s1 s2.
Definition brk_fetch_plain_scalar : Prop := forall F1 F2 s1 s2, BR md s1 s2 -> rn s1 0 <> 10%N ->
  bwp (fetch_plain_scalar sops F1) (fetch_plain_scalar sops F2) (bpost eq) s1 s2.
Definition brk_fetch_key : Prop := forall F1 F2 s1 s2, BR md s1 s2 -> rn s1 0 <> 10%N ->
  bwp (fetch_key sops F1) (fetch_key sops F2) (bpost eq) s1 s2.
Definition brk_fetch_value : Prop := forall F1 F2 s1 s2, BR md s1 s2 -> rn s1 0 <> 10%N ->
  bwp (fetch_value sops F1) (fetch_value sops F2) (bpost eq) s1 s2.
Definition brk_fetch_flow_value : Prop := forall F1 F2 s1 s2, BR md s1 s2 -> rn s1 0 <> 10%N ->
  bwp (fetch_flow_value sops F1) (fetch_flow_value sops F2) (bpost eq) s1 s2.
Definition brk_fetch_next_token : Prop := forall F1 F2 s1 s2, BR md s1 s2 ->
  bwp (fetch_next_token sops F1) (fetch_next_token sops F2) (bpost eq) s1 s2.
Definition brk_fetch_more_tokens : Prop := forall F1 F2 n1 n2 s1 s2, BR md s1 s2 ->
  bwp (fetch_more_tokens sops F1 n1) (fetch_more_tokens sops F2 n2) (bpost eq) s1 s2.
Definition brk_next_token : Prop := forall F1 F2 s1 s2, BR md s1 s2 ->
  bwp (next_token sops F1) (next_token sops F2) (bpost OTR) s1 s2.
(* the whole scan: the two ends are related, and when both are proper (ended / error) so are the token lists *)
Definition brk_scan_all : Prop := forall F1 F2 n1 n2 s1 s2 acc1 acc2, BR md s1 s2 -> Forall2 TR acc1 acc2 ->
  ER (snd (scan_all sops F1 n1 s1 acc1)) (snd (scan_all sops F2 n2 s2 acc2))
  /\ (proper_end (snd (scan_all sops F1 n1 s1 acc1)) -> proper_end (snd (scan_all sops F2 n2 s2 acc2)) ->
      Forall2 TR (fst (scan_all sops F1 n1 s1 acc1)) (fst (scan_all sops F2 n2 s2 acc2))).

(* THE TARGET (scanner level): for a CR-free text and its image, whatever the fuels *)
Definition brk_target : Prop := forall x, nocr x -> forall F1 F2 n1 n2,
  let r1 := scan_all sops F1 n1 (init_sc {| si_chars := x; si_look := 0 |}) [] in
  let r2 := scan_all sops F2 n2 (init_sc {| si_chars := img md x; si_look := 0 |}) [] in
  ER (snd r1) (snd r2) /\ (proper_end (snd r1) -> proper_end (snd r2) -> Forall2 TR (fst r1) (fst r2)).
Lemma brk_target_of_scan_all : brk_scan_all -> brk_target.
Proof. intros H x Hx F1 F2 n1 n2. apply H; [apply BR_init; exact Hx|constructor]. Qed.

End Contracts.
