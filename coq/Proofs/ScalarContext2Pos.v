(* C05 / C04 in document context, a follower behind the scalar -- generic part:
     - r3c03's skeleton lemmas (dash_sp, key_at_tok, key_unit, arrive_tok, arrive_blank of Proofs/ScanBlockProofs.v) restated
       with the position of the scanner EXPLICIT ([at_tok_p], [at_below_p]: index and line of the mark are parameters instead
       of being hidden behind an existential), so that the position invariant of Proofs/ScanPos.v ([MarkOK]: the mark is the
       true position of the consumed prefix) can be established at the scalar;
     - from [MarkOK] behind a scalar that has consumed a line break: the mark stands at column 0 of a later line;
     - the state behind the scalar (indentation stack unchanged or without its non-block records) fetches like the state
       [at_tok] describes; composition of [delivers] with [ends_with]. *)
From Coq Require Import List NArith ZArith Bool Arith Lia.
Import ListNotations.
Require Import Parser SBase SPrim SDir SScalar SFetch Pipe Drivers TokenGrammar FlowText BlockText ScanFlowProofs ScanBlockProofs ScanFrame TokenGrammarProofs TokenStreamProofs FlowFold FlowScalarProofs PlainScalarProofs QuotedFoldProofs ScalarContext ScalarContextQuoted ScalarContextFlow Positions ScanPos ScanPosPrim ScanPosBlock ScanPosFlow.
Open Scope N_scope.
Open Scope mon_scope.

#[local] Arguments N.eqb : simpl nomatch.
#[local] Arguments Nat.max : simpl nomatch.
#[local] Arguments Nat.leb : simpl nomatch.
#[local] Arguments Nat.ltb : simpl nomatch.
#[local] Arguments Nat.sub : simpl nomatch.
#[local] Arguments N.add : simpl never.
#[local] Arguments N.sub : simpl never.
#[local] Arguments N.mul : simpl never.
#[local] Arguments N.ltb : simpl nomatch.
#[local] Arguments N.leb : simpl nomatch.
#[local] Arguments Z.of_N : simpl never.
#[local] Arguments Z.ltb : simpl never.
#[local] Arguments Z.leb : simpl never.
#[local] Arguments Z.eqb : simpl never.
#[local] Arguments Z.add : simpl never.
#[local] Arguments bind {I A B} m f s /.
#[local] Arguments ret {I A} a s /.
#[local] Arguments get {I} s /.
#[local] Arguments put {I} s _ /.
#[local] Arguments modify {I} f s /.
#[local] Arguments gets {I A} f s /.
#[local] Arguments fail {I A} site m _ /.
#[local] Arguments upd {I} s i m t /.
#[local] Arguments set_in {I} i s /.
#[local] Arguments set_mark {I} m s /.
#[local] Arguments set_tokens {I} t s /.
#[local] Arguments set_flags {I} s ss se adj ska ta lws /.
#[local] Arguments set_ska {I} b s /.
#[local] Arguments set_lws {I} b s /.
#[local] Arguments set_adj {I} n s /.
#[local] Arguments set_ta {I} b s /.
#[local] Arguments set_ss {I} b s /.
#[local] Arguments set_se {I} b s /.
#[local] Arguments set_struct {I} s sks ind inds fl tp ifms /.
#[local] Arguments set_sks {I} l s /.
#[local] Arguments set_indent {I} z l s /.
#[local] Arguments set_fl {I} n s /.
#[local] Arguments set_tp {I} n s /.
#[local] Arguments set_ifms {I} l s /.
#[local] Arguments skip_to_next_token : simpl never.
#[local] Arguments stale_simple_keys : simpl never.
#[local] Arguments plain_chunk : simpl never.
#[local] Arguments plain_blanks : simpl never.
#[local] Arguments scan_plain_scalar : simpl never.
#[local] Arguments scan_block_scalar : simpl never.
#[local] Arguments scan_flow_scalar : simpl never.
#[local] Arguments fetch_stream_start : simpl never.
#[local] Arguments fetch_stream_end : simpl never.
#[local] Arguments fetch_directive : simpl never.
#[local] Arguments fetch_document_indicator : simpl never.
#[local] Arguments fetch_flow_collection_start : simpl never.
#[local] Arguments fetch_flow_collection_end : simpl never.
#[local] Arguments fetch_flow_entry : simpl never.
#[local] Arguments fetch_block_entry : simpl never.
#[local] Arguments fetch_key : simpl never.
#[local] Arguments fetch_value : simpl never.
#[local] Arguments fetch_flow_value : simpl never.
#[local] Arguments fetch_anchor : simpl never.
#[local] Arguments fetch_tag : simpl never.
#[local] Arguments fetch_block_scalar : simpl never.
#[local] Arguments fetch_flow_scalar : simpl never.
#[local] Arguments fetch_plain_scalar : simpl never.
#[local] Arguments fetch_next_token : simpl never.
#[local] Arguments fetch_more_tokens : simpl never.
#[local] Arguments next_token : simpl never.
#[local] Arguments scan_all : simpl never.
#[local] Arguments fnt_rest : simpl never.
#[local] Arguments skip_ws_to_eol : simpl never.
#[local] Arguments insert_token : simpl never.
#[local] Arguments need_comp : simpl never.
#[local] Arguments unroll_indent : simpl never.
#[local] Arguments roll_indent : simpl never.
#[local] Arguments roll_one_col_indent : simpl never.
#[local] Arguments unroll_non_block_indents : simpl never.
#[local] Arguments save_simple_key : simpl never.
#[local] Arguments popk : simpl never.
#[local] Arguments ntb : simpl never.


(* ---------- the skeleton with explicit positions ---------- *)
Definition at_tok_p (s : sc strin) (cs : list N) (c : nat) (cols : list N) (i ln : N) : Prop :=
  exists l adj k tp lws,
    s = mkb cs l (mkm i ln (N.of_nat c)) [] adj true k (fst (stk cols)) (snd (stk cols)) tp false lws /\ key_done k ln.
Definition at_below_p (s : sc strin) (cs : list N) (cols : list N) (i ln c0 : N) : Prop :=
  exists l adj ska k tp top rest,
    cols = top :: rest /\ top <= c0 /\
    s = mkb cs l (mkm i ln c0) [] adj ska k (Z.of_N top + 1)%Z (nbl (Z.of_N top) :: snd (stk cols)) tp false false /\
    sk_possible k = false.

Lemma at_tok_p_at s cs c cols i ln : at_tok_p s cs c cols i ln -> at_tok s cs c cols.
Proof. intros (l & adj & k & tp & lws & E & Hk). exists l, i, ln, adj, k, tp, lws. split; assumption. Qed.
Lemma at_below_p_at s cs cols i ln c0 : at_below_p s cs cols i ln c0 -> at_below s cs cols.
Proof. intros (l & adj & ska & k & tp & top & rest & E1 & E2 & E3 & Hk). exists l, i, ln, c0, adj, ska, k, tp, top, rest. repeat split; assumption. Qed.

Lemma start_at_tok_p txt : at_tok_p (start_state txt) txt 0 [] 0 1.
Proof. exists 1%nat, 0, dummy_key, 1, true. split; [reflexivity|left; reflexivity]. Qed.

Lemma arrive_tok_p F s x cs c ext base i ln :
  at_tok_p s (x :: cs) c (ext ++ base) i ln -> first_ok x -> (x =? 0) = false ->
  Forall (fun e => (Z.of_nat c < Z.of_N e)%Z) ext -> base_le base (Z.of_nat c) -> (1 <= F)%nat ->
  canon s /\
  exists l' adj k tp lws,
    (4 <= l')%nat /\ sk_possible k = false /\
    fetch_next_token str_ops F s
    = fnt_rest F (mkb (x :: cs) l' (mkm i ln (N.of_nat c)) (repeat (be_tok (mkm i ln (N.of_nat c))) (length ext)) adj true k
                       (fst (stk base)) (snd (stk base)) tp false lws).
Proof.
  intros (l & adj & k & tp & lws & -> & Hk) Hx Hx0 Hext Hbase HF. split; [apply canon_b|].
  destruct (key_done_stale k i ln (N.of_nat c) Hk) as [Hst Hnp].
  exists (Nat.max (Nat.max (Nat.max l 1) 1) 4), adj, (staled k (mkm i ln (N.of_nat c))), tp, lws.
  split; [lia|]. split; [exact Hnp|].
  erewrite fnt_b; [ | apply skip_none; [exact HF | exact Hx] | exact Hst
                    | cbn [m_col mkm]; rewrite nat_N_Z; apply unroll_stk; [exact Hext | exact Hbase | rewrite stk_len, app_length; lia] ].
  cbn [app]. apply tail_char, Hx0.
Qed.

Lemma arrive_blank_p F s x cs cols i ln c0 :
  at_below_p s (32 :: x :: cs) cols i ln c0 -> first_ok x -> (x =? 0) = false -> (2 <= F)%nat ->
  canon s /\
  exists l' adj ska k tp top rest,
    cols = top :: rest /\ top < c0 + 1 /\ (4 <= l')%nat /\ sk_possible k = false /\
    fetch_next_token str_ops F s
    = fnt_rest F (mkb (x :: cs) l' (mkm (i + 1) ln (c0 + 1)) [] adj ska k
                       (Z.of_N top + 1)%Z (nbl (Z.of_N top) :: snd (stk cols)) tp false false).
Proof.
  intros (l & adj & ska & k & tp & top & rest & -> & Htop & -> & Hk) Hx Hx0 HF. split; [apply canon_b|].
  destruct Hx as (H32 & H9 & H10 & H13 & H35).
  exists (Nat.max (Nat.max (Nat.max l 1) 1) 4), adj, ska, k, tp, top, rest.
  split; [reflexivity|]. split; [lia|]. split; [lia|]. split; [exact Hk|].
  erewrite fnt_b; [ | apply (skip_spaces_b 1); [lia | assumption..] | rewrite (stale_k_not_possible _ _ Hk); reflexivity
                    | cbn [m_col mkm]; apply unroll_keep; lia ].
  unfold staled. rewrite (stale_k_not_possible _ _ Hk). cbn [repeat]. rewrite app_nil_r.
  change (N.of_nat 1) with 1. apply tail_char, Hx0.
Qed.

(* "- x" *)
Lemma dash_sp_p F s x r c ext base opens i ln :
  at_tok_p s (45 :: 32 :: x :: r) c (ext ++ base) i ln ->
  Forall (fun e => (Z.of_nat c < Z.of_N e)%Z) ext -> joins opens c base ->
  not_ws x -> is_break x = false -> is_flow x = false -> (c + 2 <= F)%nat ->
  exists toks s', delivers F s toks s' /\ map snd toks = dash_toks (length ext) opens /\
                  at_tok_p s' (x :: r) (c + 2) (joined opens c base) (i + 2) ln.
Proof.
  intros Hat Hext Hj Hx Hbr Hfl HF.
  destruct (arrive_tok_p F s 45 (32 :: x :: r) c ext base i ln Hat ltac:(repeat split; reflexivity) eq_refl Hext (joins_base_le _ _ _ Hj) ltac:(lia))
    as (Hcanon & l' & adj & k & tp & lws & Hl' & Hk & Hf).
  rewrite rest_dash in Hf; [ | exact Hl' | reflexivity | reflexivity | apply col_ge_top, (joins_base_le _ _ _ Hj)].
  rewrite (entry_step_sp F i ln (N.of_nat c) (repeat (be_tok (mkm i ln (N.of_nat c))) (length ext)) _ (fst (stk base)) _ (snd (stk base)) _
             (roll_joins opens c base TBlockSequenceStart (mkm i ln (N.of_nat c)) Hj _) (plain_last_be (mkm i ln (N.of_nat c)) _) x r l' adj k tp false lws ltac:(lia) Hx Hbr Hfl
             ltac:(unfold not_req; rewrite Hk; reflexivity)) in Hf.
  eexists. eexists. split; [|split].
  - eapply unit1'; [lia | exact Hcanon | | exact Hf | | reflexivity].
    + intros E. apply app_eq_nil in E as [_ E]. discriminate.
    + apply no_se_app; [apply no_se_app; [apply no_se_be|destruct opens; repeat constructor; discriminate]|repeat constructor; discriminate].
  - rewrite !map_app, map_snd_be. unfold dash_toks. rewrite <- app_assoc. destruct opens; reflexivity.
  - eexists _, _, _, _, _. split.
    + replace (N.of_nat (c + 2)) with (N.of_nat c + 2) by lia. destruct (stk (joined opens c base)); reflexivity.
    + left; reflexivity.
Qed.

(* "key:" *)
Lemma key_unit_p F s adj tp y r l1 i ln c len pre sp kw rq base opens :
  (3 <= F)%nat -> canon s ->
  fetch_next_token str_ops F s
    = Ok (tt, mkb (58 :: y :: r) l1 (mkm (i + len) ln (N.of_nat c + len)) (pre ++ [(sp, TScalar Plain kw)]) adj false
                (newkey rq (tp + N.of_nat (length pre)) (mkm i ln (N.of_nat c))) (fst (stk base)) (snd (stk base)) tp false false) ->
  0 < len -> len <= SIMPLE_KEY_MAX -> y = 32 \/ y = 10 -> joins opens c base -> no_se pre ->
  exists q3 s', delivers F s (pre ++ q3) s' /\ map snd q3 = key_toks opens kw /\
                at_below_p s' (y :: r) (joined opens c base) (i + len + 1) ln (N.of_nat c + len + 1).
Proof.
  intros HF Hcanon Hf1 Hlen0 Hlen Hy Hj Hpre.
  set (K := newkey rq (tp + N.of_nat (length pre)) (mkm i ln (N.of_nat c))) in *.
  set (m1 := mkm (i + len) ln (N.of_nat c + len)) in *.
  assert (Hst1 : stale_k K m1 = false).
  { unfold stale_k, K, m1, newkey, mkm. cbn. rewrite N.ltb_irrefl. cbn.
    apply N.ltb_ge. lia. }
  assert (Hyb : is_blank_or_breakz y = true /\ (y =? 9) = false) by (destruct Hy as [-> | ->]; split; reflexivity).
  destruct Hyb as [Hyb Hy9].
  assert (Hle : (fst (stk base) <= Z.of_N (N.of_nat c + len))%Z).
  { pose proof (stk_top_le base (N.of_nat c) ltac:(rewrite nat_N_Z; apply (joins_base_le _ _ _ Hj))). lia. }
  assert (Hf2 : exists l3, fetch_next_token str_ops F (mkb (58 :: y :: r) l1 m1 [(sp, TScalar Plain kw)] adj false K (fst (stk base)) (snd (stk base))
                                               (tp + N.of_nat (length pre)) false false)
                = Ok (tt, mkb (y :: r) l3 (mkm (i + len + 1) ln (N.of_nat c + len + 1))
                            (([] ++ (if opens then [(span_empty (mkm i ln (N.of_nat c)), TBlockMappingStart)] else [])
                                 ++ [key_tok (mkm i ln (N.of_nat c)); (sp, TScalar Plain kw)])
                               ++ [(span_empty m1, TValue)])
                            adj false (unposs K) (Z.of_N (N.of_nat c) + 1)%Z
                            (nbl (Z.of_N (N.of_nat c)) :: snd (stk (joined opens c base))) (tp + N.of_nat (length pre)) false false)).
  { eexists. erewrite fnt_b; [ | apply skip_none; [lia | repeat split; reflexivity] | rewrite Hst1; reflexivity
                      | apply unroll_keep; exact Hle].
    unfold staled. rewrite Hst1. cbn [repeat]. rewrite app_nil_r.
    rewrite tail_char by reflexivity.
    unfold m1. rewrite rest_colon; [ | exact Hyb | apply N.eqb_neq; lia | apply Z.ltb_ge; exact Hle].
    pose proof (value_step_b F opens y r (Nat.max (Nat.max (Nat.max l1 1) 1) 4) (i + len) ln (N.of_nat c + len) [] (sp, TScalar Plain kw) adj false rq i (N.of_nat c)
                  (fst (stk base)) (snd (stk base)) (tp + N.of_nat (length pre)) false false Hyb Hy9 (nb_top_stk base)) as V.
    cbn [length N.of_nat app] in V. rewrite N.add_0_r in V. fold K in V. cbn [app].
    etransitivity; [apply V|].
    - destruct opens; cbn in Hj |- *.
      + destruct Hj as [H1 H2]. split; [rewrite nat_N_Z; exact H1 | rewrite stk_len; exact H2].
      + destruct Hj as (rest & ->). split; [reflexivity | discriminate].
    - unfold m1. destruct opens; reflexivity. }
  destruct Hf2 as (l3 & Hf2).
  eexists. eexists. split; [|split].
  - eapply (unit2' F s adj tp (58 :: y :: r) l1 m1 pre (sp, TScalar Plain kw) false rq (mkm i ln (N.of_nat c)));
      [exact HF | exact Hcanon | | exact Hf1 | exact Hst1 | exact Hf2 | exact Hpre | | reflexivity].
    + intros E. apply app_eq_nil in E as [_ E]. discriminate.
    + destruct opens; repeat constructor; discriminate.
  - unfold key_toks. destruct opens; reflexivity.
  - destruct (joined_cons opens c base Hj) as (rest & Ej). rewrite Ej.
    eexists _, _, _, _, _, (N.of_nat c), rest. split; [reflexivity|]. split; [lia|]. split; [rewrite <- Ej; reflexivity|reflexivity].
Qed.

Lemma key_at_tok_p F s c0 w y r c ext base opens i ln :
  at_tok_p s (c0 :: w ++ 58 :: y :: r) c (ext ++ base) i ln ->
  forallb wch (c0 :: w) = true -> wlen c0 w <= SIMPLE_KEY_MAX -> y = 32 \/ y = 10 ->
  Forall (fun e => (Z.of_nat c < Z.of_N e)%Z) ext -> joins opens c base -> (2 * length w + 3 <= F)%nat ->
  exists toks s', delivers F s toks s' /\ map snd toks = repeat TBlockEnd (length ext) ++ key_toks opens (c0 :: w) /\
                  at_below_p s' (y :: r) (joined opens c base) (i + wlen c0 w + 1) ln (N.of_nat c + wlen c0 w + 1).
Proof.
  intros Hat Hw Hlen Hy Hext Hj HF.
  pose proof Hw as Hw0. cbn [forallb] in Hw0. apply andb_prop in Hw0 as [Hc0 _]. destruct (wch_first_ok c0 Hc0) as [Hfo Hnz].
  destruct (arrive_tok_p F s c0 (w ++ 58 :: y :: r) c ext base i ln Hat Hfo Hnz Hext (joins_base_le _ _ _ Hj) ltac:(lia))
    as (Hcanon & l' & adj & k & tp & lws & Hl' & Hk & Hf).
  rewrite rest_key in Hf; [ | exact Hw | exact Hl' | apply col_ge_top, (joins_base_le _ _ _ Hj)].
  assert (Hyb : is_blank_or_breakz y = true) by (destruct Hy as [-> | ->]; reflexivity).
  destruct (word_key_step F c0 w y r l' i ln (N.of_nat c) (repeat (be_tok (mkm i ln (N.of_nat c))) (length ext)) adj true k
              (fst (stk base)) (snd (stk base)) (fst (stk base)) (snd (stk base)) tp false lws Hw Hyb
              ltac:(rewrite unroll_nb_stk; destruct (stk base); reflexivity) (stk_req_ne base (N.of_nat c)) HF) as (l1 & E1).
  rewrite E1 in Hf. unfold saved in Hf. cbn [m_col mkm] in Hf.
  destruct (key_unit_p F s adj tp y r l1 i ln c (wlen c0 w) (repeat (be_tok (mkm i ln (N.of_nat c))) (length ext)) _ (c0 :: w) _ base opens
              ltac:(lia) Hcanon Hf ltac:(unfold wlen; cbn [length]; lia) Hlen Hy Hj (no_se_be _ _)) as (q3 & s' & Hd & Hm & Hb).
  exists (repeat (be_tok (mkm i ln (N.of_nat c))) (length ext) ++ q3), s'. split; [exact Hd|]. split; [|exact Hb].
  rewrite map_app, map_snd_be. f_equal. exact Hm.
Qed.

(* ---------- the recount of positions (Spec/Positions.v) behind a line break ---------- *)
Lemma pos_go_nil m l k : pos_go [] m l k = (l, k).
Proof. destruct m; reflexivity. Qed.

Lemma pos_go_add : forall n s m l k,
  pos_go s (n + m) l k = pos_go (skipn n s) m (fst (pos_go s n l k)) (snd (pos_go s n l k)).
Proof.
  induction n as [|n IH]; intros s m l k; [rewrite pos_go_0; reflexivity|].
  destruct s as [|c r]; [cbn [Nat.add skipn]; rewrite !pos_go_nil; reflexivity|].
  cbn [Nat.add skipn]. rewrite !pos_go_S.
  destruct (c =? 13); [destruct (starts_lf r); apply IH|]. destruct (c =? 10); apply IH.
Qed.

Lemma pos_go_line_le : forall n s l k, l <= fst (pos_go s n l k).
Proof.
  induction n as [|n IH]; intros s l k; [rewrite pos_go_0; cbn; lia|].
  destruct s as [|c r]; [rewrite pos_go_nil; cbn; lia|]. rewrite pos_go_S.
  destruct (c =? 13); [destruct (starts_lf r)|destruct (c =? 10)];
    match goal with |- _ <= fst (pos_go ?s ?n ?l' ?k') => pose proof (IH s l' k') end; lia.
Qed.

Lemma pos_go_line_mono s n m l k : (n <= m)%nat -> fst (pos_go s n l k) <= fst (pos_go s m l k).
Proof.
  intros H. replace m with (n + (m - n))%nat by lia. rewrite pos_go_add. apply pos_go_line_le.
Qed.

Lemma pos_go_nobreak : forall p r l k, forallb (fun c => negb (is_break c)) p = true ->
  pos_go (p ++ r) (length p) l k = (l, k + N.of_nat (length p)).
Proof.
  induction p as [|c p IH]; intros r l k H; [cbn [app length]; rewrite pos_go_0; f_equal; lia|].
  cbn [forallb] in H. apply andb_prop in H as [Hc H]. apply negb_true_iff in Hc. unfold is_break in Hc. apply orb_false_elim in Hc as [H10 H13].
  cbn [app length]. rewrite pos_go_S, H13, H10, IH by exact H. f_equal. lia.
Qed.

Lemma starts_lf_hd r : (hd 0 r =? 10) = false -> starts_lf r = false.
Proof.
  destruct r as [|y r]; [reflexivity|]. cbn [hd]. intros H. unfold starts_lf.
  destruct y as [|p]; [reflexivity|]. repeat (destruct p as [p|p|]; try reflexivity). discriminate H.
Qed.

(* how a line break is written *)
Definition brk_src (brk : N) : list N := if brk =? 1 then [13; 10] else if brk =? 2 then [13] else [10].

Lemma pos_after_break p brk rest n0 l0 k0 :
  (hd 0 rest =? 10) = false -> (n0 <= length p)%nat ->
  snd (pos_go (p ++ brk_src brk ++ rest) (length (p ++ brk_src brk)) l0 k0) = 0
  /\ fst (pos_go (p ++ brk_src brk ++ rest) n0 l0 k0) < fst (pos_go (p ++ brk_src brk ++ rest) (length (p ++ brk_src brk)) l0 k0).
Proof.
  intros Hr Hn. pose proof (starts_lf_hd rest Hr) as Hlf.
  pose proof (pos_go_line_mono (p ++ brk_src brk ++ rest) n0 (length p) l0 k0 Hn) as Hmono.
  unfold brk_src in *. destruct (brk =? 1); [|destruct (brk =? 2)]; cbn [app] in *; rewrite app_length; cbn [length].
  - replace (length p + 2)%nat with (S (length (p ++ [13]))) by (rewrite app_length; cbn [length]; lia).
    replace (p ++ 13 :: 10 :: rest) with ((p ++ [13]) ++ 10 :: rest) in * by (rewrite <- app_assoc; reflexivity).
    rewrite (pos_go_app_step (p ++ [13]) 10 rest l0 k0).
    destruct (pos_go ((p ++ [13]) ++ 10 :: rest) (length (p ++ [13])) l0 k0) as [l1 k1] eqn:E1.
    change (10 =? 13) with false. change (10 =? 10) with true. cbv iota. cbn [fst snd]. split; [reflexivity|].
    pose proof (pos_go_line_mono ((p ++ [13]) ++ 10 :: rest) (length p) (length (p ++ [13])) l0 k0 ltac:(rewrite app_length; lia)) as H2.
    rewrite E1 in H2. cbn [fst] in H2. lia.
  - replace (length p + 1)%nat with (S (length p)) by lia. rewrite (pos_go_app_step p 13 rest l0 k0).
    destruct (pos_go (p ++ 13 :: rest) (length p) l0 k0) as [l1 k1]. change (13 =? 13) with true. cbv iota. rewrite Hlf. cbn [fst snd] in *. split; [reflexivity|lia].
  - replace (length p + 1)%nat with (S (length p)) by lia. rewrite (pos_go_app_step p 10 rest l0 k0).
    destruct (pos_go (p ++ 10 :: rest) (length p) l0 k0) as [l1 k1]. change (10 =? 13) with false. change (10 =? 10) with true. cbv iota.
    cbn [fst snd] in *. split; [reflexivity|lia].
Qed.

(* a scanner that keeps the position invariant has consumed [P ++ break] and stands in front of [R]: column 0 of a later line *)
Lemma mark_behind_break orig pre0 (S1 s' : sc strin) P brk R :
  MarkAt orig pre0 S1 -> MarkOK orig s' ->
  si_chars (sc_in s') = R -> orig = P ++ brk_src brk ++ R -> (hd 0 R =? 10) = false -> (length pre0 <= length P)%nat ->
  m_col (sc_mark s') = 0 /\ m_line (sc_mark S1) < m_line (sc_mark s').
Proof.
  intros (E0 & I0 & P0) (pre' & E' & I' & P') HR Eo Hhd Hlen. unfold rem in E'. rewrite HR in E'.
  assert (Epre : pre' = P ++ brk_src brk).
  { apply (app_inv_tail R). rewrite <- E', Eo, <- app_assoc. reflexivity. }
  subst pre'. rewrite Eo in P0, P'.
  destruct (pos_after_break P brk R (length pre0) 1 0 Hhd Hlen) as [Hc Hl].
  unfold chr in *. rewrite <- P0 in Hl. rewrite <- P' in Hl. rewrite <- P' in Hc. cbn [fst snd] in Hc, Hl. split; assumption.
Qed.

(* ---------- the state behind the scalar fetches like the at_tok state ---------- *)
Lemma next_token_fetch_eq F (A B : sc strin) : (1 <= F)%nat -> canon A -> canon B ->
  fetch_next_token str_ops F A = fetch_next_token str_ops F B -> next_token str_ops F A = next_token str_ops F B.
Proof.
  intros HF (Aq & Ata & Ase) (Bq & Bta & Bse) H. destruct F as [|F]; [lia|].
  unfold next_token. cbn. rewrite Ase, Bse, Ata, Bta. cbn. rewrite !fmt_S. cbn. rewrite (need_canon A Aq), (need_canon B Bq). cbn. rewrite H. reflexivity.
Qed.

Lemma ends_with_fetch_eq F (A B : sc strin) T : (1 <= F)%nat -> canon A -> canon B ->
  fetch_next_token str_ops F A = fetch_next_token str_ops F B -> ends_with F B T -> ends_with F A T.
Proof.
  intros HF HA HB H (toks & Hm & Hscan). exists toks. split; [exact Hm|]. intros fuel acc Hf.
  rewrite (scan_all_next F A B fuel acc (next_token_fetch_eq F A B HF HA HB H)). apply Hscan, Hf.
Qed.

Lemma ends_with_delivers F s pre s' T : delivers F s pre s' -> ends_with F s' T -> ends_with F s (map snd pre ++ T).
Proof.
  intros Hd (toks & Hm & Hscan). exists (pre ++ toks). split; [rewrite map_app; f_equal; exact Hm|].
  intros fuel acc Hf. rewrite app_length in Hf.
  assert (Ef : exists f2, fuel = (length pre + f2)%nat /\ (length toks < f2)%nat) by (exists (fuel - length pre)%nat; unfold token in *; lia).
  destruct Ef as (f2 & -> & Hf2). rewrite Hd. rewrite (Hscan f2 _ Hf2). rewrite rev_app_distr, rev_involutive, <- app_assoc. reflexivity.
Qed.

(* behind a scalar under a collection at column 0: the stack is that of [at_tok] or still carries the one-column raise of
   "key:"; at column 0 both unroll to the collection *)
Lemma sibling_fetch_eq F x cs l i ln adj k ind inds tp lws :
  first_ok x -> (1 <= F)%nat -> (stale_k k (mkm i ln 0) && sk_required k) = false ->
  (ind, inds) = stk [0] \/ (ind, inds) = (1%Z, nbl 0 :: snd (stk [0])) ->
  fetch_next_token str_ops F (mkb (x :: cs) l (mkm i ln 0) [] adj true k ind inds tp false lws)
  = fetch_next_token str_ops F (mkb (x :: cs) l (mkm i ln 0) [] adj true k (fst (stk [0])) (snd (stk [0])) tp false lws).
Proof.
  intros Hx HF Hst [E|E]; injection E as -> ->; [reflexivity|].
  erewrite fnt_b; [ | apply skip_none; [exact HF | exact Hx] | exact Hst | cbn [m_col mkm]; reflexivity ].
  erewrite (fnt_b F (x :: cs) l (mkm i ln 0) [] adj true k (fst (stk [0])));
    [ | apply skip_none; [exact HF | exact Hx] | exact Hst | cbn [m_col mkm]; reflexivity ].
  reflexivity.
Qed.
