(* C15 prefix stability of the scanner (see ScanPrefix.v): the FETCH family - the token-level skeleton of
   Model/SFetch.v under the state relation [SH d] of ScanPrefix.v.  Port of ScanShiftFetch.v.

   Every fetch_* function and the DISPATCHER (the part of fetch_next_token behind its end-of-input test,
   [fnt_dispatch] of ScanPrefix.v), run from two related states - side 1 reads a text that ends, side 2 the same text
   followed by the marker line and [d] -: when side 1 ends with a value, side 2 does not end in an error and, if it
   ends with a value, the states are related again.  TWO independent fuels everywhere.  The five character-level
   contracts proved by the other families (directive, tag, flow / plain / block scalar) are hypotheses of the
   section; the contracts of the primitives and of scan_anchor come from ScanPrefixPrim.v.

   The block-scalar scanner's contract holds with a full lookahead buffer only ([4 <= lk s1]); fetch_block_scalar
   and the dispatcher carry that premise (nothing in front of the scanner's call touches the input).

   NOT here: fetch_stream_end, fetch_next_token as a whole, fetch_more_tokens, next_token, scan_all. *)
From Coq Require Import List NArith ZArith Bool Arith Lia.
Import ListNotations.
Require Import Parser SBase SPrim SDir SScalar SFetch ScanPrefix ScanPrefixPrim.
Local Open Scope nat_scope.

(* ---------------- small facts ---------------- *)
Lemma rn_keep (t s : bst) : rm t = rm s -> nbz (rn s 0) -> nbz (rn t 0).
Proof. intros R N. rewrite (rn_eq t s 0 R). exact N. Qed.
Lemma noLF_keep k (t s : bst) : rm t = rm s -> noLF k (rm s) -> noLF k (rm t).
Proof. intros R N. rewrite R. exact N. Qed.
Lemma docstart_noLF (s : bst) : docstart_val s = true -> noLF 3 (rm s).
Proof.
  unfold docstart_val. destruct (n3are s 45%N 45%N 45%N) eqn:E; [intros _|discriminate].
  eapply n3are_noLF; [| | |exact E]; reflexivity.
Qed.
(* '.' is not [lit]: by hand *)
Lemma docend_noLF (s : bst) : docend_val s = true -> noLF 3 (rm s).
Proof.
  unfold docend_val. destruct (n3are s 46%N 46%N 46%N) eqn:E; [intros _|discriminate].
  unfold n3are in E. apply andb_true_iff in E. destruct E as [E E2]. apply andb_true_iff in E. destruct E as [E0 E1].
  apply N.eqb_eq in E0, E1, E2.
  apply noLF_S; [apply noLF_S; [apply noLF_1|]|].
  - change (nbz (rn s 0)). rewrite E0. reflexivity.
  - change (nbz (rn s 1)). rewrite E1. reflexivity.
  - change (nbz (rn s 2)). rewrite E2. reflexivity.
Qed.
Lemma F2_last_cons {A B} (R : A -> B -> Prop) l1 l2 : Forall2 R l1 l2 -> forall a b d1 d2, R a b ->
  R (last (a :: l1) d1) (last (b :: l2) d2).
Proof.
  induction 1 as [|a' b' l1 l2 Hab' H IH]; intros a b d1 d2 Hab; [exact Hab|].
  change (R (last (a' :: l1) d1) (last (b' :: l2) d2)). apply IH. exact Hab'.
Qed.
Lemma nbz_atend (s : bst) : nbz (rn s 0) -> atend s = false.
Proof. intros N. pose proof (nbz_ne s N) as HE. unfold atend. destruct (rm s); [contradiction|reflexivity]. Qed.

(* save_simple_key / allow_simple_key leave the input alone *)
Lemma save_in (s : bst) a t : save_simple_key s = Ok (a, t) -> sc_in t = sc_in s.
Proof.
  unfold save_simple_key, bind, get. destruct (sc_ska s); [|unfold ret; intros E; inversion E; reflexivity].
  match goal with |- context [if ?b then _ else _] => destruct b end.
  - destruct (sc_indents s); [unfold panic; discriminate|]. unfold ret, put. intros E; inversion E; reflexivity.
  - unfold ret, put. intros E; inversion E; reflexivity.
Qed.
Lemma allow_in (s : bst) a t : allow_simple_key s = Ok (a, t) -> sc_in t = sc_in s.
Proof. unfold allow_simple_key, modify. intros E; inversion E; reflexivity. Qed.

(* [keep]: an alignment fact about a state [s] is moved to a state [t] with the same remaining text *)
Ltac keep :=
  repeat match goal with
  | RT : rm ?t = rm ?s, N : nbz (rn ?s 0) |- _ => pose proof (rn_keep t s RT N); clear N
  | RT : rm ?t = rm ?s, N : noLF ?k (rm ?s) |- _ => pose proof (noLF_keep k t s RT N); clear N
  | RT : rm ?t = rm ?s, N : rm ?s <> [] |- _ => pose proof (SH_ne_eq s t N RT); clear N
  end.
(* the same boolean test on both sides (syntactically) *)
Ltac br := match goal with |- swp _ (if ?b then _ else _) (if ?b then _ else _) _ _ _ => destruct b end.

Section PrefixFetch.
Variable d : list chr.
Local Notation bwp := (swp d).

Hypothesis Hd : shf_scan_directive d.
Hypothesis Ht : shf_scan_tag d.
Hypothesis Hf : shf_scan_flow_scalar d.
Hypothesis Hp : shf_scan_plain_scalar d.
(* the block scalar scanner: with a full lookahead buffer *)
Hypothesis Hb : forall F1 F2 literal s1 s2, SH d s1 s2 -> nbz (rn s1 0) -> 4 <= lk s1 ->
  swp d (scan_block_scalar sops F1 literal) (scan_block_scalar sops F2 literal) (bpost d (TS d)) s1 s2.

(* a unit-valued step that keeps the remaining text *)
Definition kpost (s1 : bst) : unit -> bst -> unit -> bst -> Prop :=
  fun _ t1 _ t2 => SH d t1 t2 /\ rm t1 = rm s1.
Lemma bwp_seq {B1 B2} (m1 m2 : BM unit) (f1 : unit -> BM B1) (f2 : unit -> BM B2)
  (Q : B1 -> bst -> B2 -> bst -> Prop) s1 s2 :
  bwp m1 m2 (kpost s1) s1 s2 ->
  (forall t1 t2, SH d t1 t2 -> rm t1 = rm s1 -> bwp (f1 tt) (f2 tt) Q t1 t2) ->
  bwp (bind m1 f1) (bind m2 f2) Q s1 s2.
Proof.
  intros H HK. apply bwp_bind. eapply bwp_mono; [exact H|]. intros [] t1 [] t2 [HB HR]. apply HK; assumption.
Qed.
(* a step of side 1 that leaves the input alone: the continuation may use it *)
Lemma bwp_keep_in {A1 A2} (m1 : BM A1) (m2 : BM A2) (Q : A1 -> bst -> A2 -> bst -> Prop) s1 s2 :
  (forall a t, m1 s1 = Ok (a, t) -> sc_in t = sc_in s1) ->
  bwp m1 m2 (fun a1 t1 a2 t2 => sc_in t1 = sc_in s1 -> Q a1 t1 a2 t2) s1 s2 -> bwp m1 m2 Q s1 s2.
Proof.
  intros HI H. unfold swp in *. destruct (m1 s1) as [[a1 t1]|e1 k1|n1|]; auto.
  destruct (m2 s2) as [[a2 t2]|e2 k2|n2|]; auto. apply H. apply (HI a1 t1). reflexivity.
Qed.

(* [sk lem]: one skeleton-only step  m ;;; rest  with the rule [lem d : SH d s1 s2 -> skel_post -> bwp m m Q s1 s2] *)
Ltac sk lem :=
  apply bwp_bind; apply (lem d); [eassumption|];
  let t1 := fresh "t1" in let t2 := fresh "t2" in let HT := fresh "HT" in let RT := fresh "RT" in
  intros t1 t2 HT RT; keep; clear RT.
(* close [bpost d eq tt t1 tt t2] / [kpost s tt t1 tt t2] *)
Ltac fin := split; [reflexivity|assumption].
Ltac kfin := split; [assumption|first [assumption|reflexivity]].
(* [m <- mark ;; fail e m] on side 1: no claim *)
Ltac mfail HX := apply bwp_bind; apply (bwp_mark d); [exact HX|]; intros _; apply bwp_err_l.

(* ---------------- stream start ---------------- *)
Theorem fetch_stream_start_ok : shf_fetch_stream_start d.
Proof.
  intros s1 s2 H. unfold fetch_stream_start. apply bwp_bind. apply bwp_get. cbv beta zeta.
  apply bwp_put. split; [reflexivity|].
  apply SH_set_sks.
  - apply SH_push; [|apply TS_empty; exact (sh_mark H)]. apply SH_set_ska. apply SH_set_ss.
    rewrite <- (SH_indents H). apply SH_set_indent. exact H.
  - constructor; [reflexivity|]. exact (sh_sks H).
Qed.

(* ---------------- the entry points of the character-level scanners ---------------- *)
Theorem fetch_directive_ok : shf_fetch_directive d.
Proof.
  intros F1 F2 s1 s2 H N0. unfold fetch_directive.
  sk bwp_unroll_indent. sk bwp_remove_simple_key. sk bwp_disallow_simple_key.
  eapply (bwp_call d); [apply Hd; eassumption|]. intros a1 a2 u1 u2 HTR HU.
  apply (bwp_push_tok d); [exact HU|exact HTR|]. intros; fin.
Qed.

Theorem fetch_tag_ok : shf_fetch_tag d.
Proof.
  intros F1 F2 s1 s2 H N0. unfold fetch_tag.
  sk bwp_save_simple_key. sk bwp_disallow_simple_key.
  eapply (bwp_call d); [apply Ht; eassumption|]. intros a1 a2 u1 u2 HTR HU.
  apply (bwp_push_tok d); [exact HU|exact HTR|]. intros; fin.
Qed.

Theorem fetch_anchor_ok : shf_fetch_anchor d.
Proof.
  intros F1 F2 alias s1 s2 H N0. unfold fetch_anchor.
  sk bwp_save_simple_key. sk bwp_disallow_simple_key.
  eapply (bwp_call d); [apply (scan_anchor_ok d); eassumption|]. intros a1 a2 u1 u2 HTR HU.
  apply (bwp_push_tok d); [exact HU|exact HTR|]. intros; fin.
Qed.

(* with the lookahead premise of the block scalar scanner *)
Theorem fetch_block_scalar_ok F1 F2 literal s1 s2 : SH d s1 s2 -> nbz (rn s1 0) -> 4 <= lk s1 ->
  bwp (fetch_block_scalar sops F1 literal) (fetch_block_scalar sops F2 literal) (bpost d eq) s1 s2.
Proof.
  intros H N0 L4. unfold fetch_block_scalar.
  apply bwp_bind. apply bwp_keep_in; [apply save_in|].
  apply (bwp_save_simple_key d); [exact H|]. intros t1 t2 HT RT EI. keep. clear RT.
  assert (L4' : 4 <= lk t1) by (unfold lk; rewrite EI; exact L4). clear EI.
  apply bwp_bind. apply bwp_keep_in; [apply allow_in|].
  apply (bwp_allow_simple_key d); [exact HT|]. intros u1 u2 HU RU EI. keep. clear RU.
  assert (L4'' : 4 <= lk u1) by (unfold lk; rewrite EI; exact L4'). clear EI.
  eapply (bwp_call d); [apply Hb; eassumption|]. intros a1 a2 v1 v2 HTR HV.
  apply (bwp_push_tok d); [exact HV|exact HTR|]. intros; fin.
Qed.

Theorem fetch_flow_scalar_ok : shf_fetch_flow_scalar d.
Proof.
  intros F1 F2 single s1 s2 H N0. unfold fetch_flow_scalar.
  sk bwp_save_simple_key. sk bwp_disallow_simple_key.
  eapply (bwp_call d); [apply Hf; eassumption|]. intros a1 a2 u1 u2 HTR HU.
  eapply (bwp_call_al_eq d); [apply (skip_to_next_token_ok d); exact HU|]. intros [] v1 v2 HV _.
  apply bwp_bind. apply (bwp_modify_br d); [apply SH_set_adj_here; exact HV|reflexivity|]. intros w1 w2 HW _.
  apply (bwp_push_tok d); [exact HW|exact HTR|]. intros; fin.
Qed.

Theorem fetch_plain_scalar_ok : shf_fetch_plain_scalar d.
Proof.
  intros F1 F2 s1 s2 H N0. unfold fetch_plain_scalar.
  sk bwp_save_simple_key. sk bwp_disallow_simple_key.
  eapply (bwp_call d); [apply Hp; eassumption|]. intros a1 a2 u1 u2 HTR HU.
  apply (bwp_push_tok d); [exact HU|exact HTR|]. intros; fin.
Qed.

(* ---------------- flow collections ---------------- *)
Theorem fetch_flow_collection_start_ok : shf_fetch_flow_collection_start d.
Proof.
  intros F1 F2 seq s1 s2 H N0. unfold fetch_flow_collection_start.
  sk bwp_save_simple_key. sk bwp_roll_one_col_indent.
  match goal with HH : SH d ?a ?b |- _ => pose proof (sh_mark HH) as HM0; apply (bwp_flow_open d); [exact HH|assumption|] end.
  intros u1 u2 HU _.
  apply bwp_bind. apply (bwp_modify_br d).
  { rewrite <- (SH_ifms HU). apply SH_set_ifms. exact HU. }
  { reflexivity. }
  intros v1 v2 HV _.
  apply (bwp_call_ws d); [exact HV|]. intros tw w1 w2 HW _.
  apply bwp_bind. apply (bwp_mark d); [exact HW|]. intros HM1.
  apply (bwp_push_tok d); [exact HW|apply TS_mk; apply SPS_mk; assumption|]. intros; fin.
Qed.

Lemma bwp_check_flow_closer seq (Q : unit -> bst -> unit -> bst -> Prop) s1 s2 :
  SH d s1 s2 -> Q tt s1 tt s2 -> bwp (check_flow_closer seq) (check_flow_closer seq) Q s1 s2.
Proof.
  intros H HQ. unfold check_flow_closer. apply bwp_bind. apply bwp_get. cbv beta. sh_sync H.
  destruct (sc_ifms s1) as [|st r]; [apply bwp_ret; exact HQ|]. cbv zeta.
  destruct (Bool.eqb _ _); [apply bwp_ret; exact HQ|]. apply bwp_err_l.
Qed.

Theorem fetch_flow_collection_end_ok : shf_fetch_flow_collection_end d.
Proof.
  intros F1 F2 seq s1 s2 H N0. unfold fetch_flow_collection_end.
  apply bwp_bind. apply bwp_check_flow_closer; [exact H|]. cbv beta.
  sk bwp_remove_simple_key. sk bwp_decrease_flow_level. sk bwp_disallow_simple_key.
  apply bwp_seq.
  { destruct seq.
    - apply bwp_bind. apply (bwp_mark d); [eassumption|]. intros HM.
      apply (bwp_end_implicit_mapping d); [eassumption|exact HM|]. intros; kfin.
    - apply bwp_ret. kfin. }
  intros u1 u2 HU RU. keep. clear RU.
  apply bwp_bind. apply (bwp_modify_br d).
  { rewrite <- (SH_ifms HU). apply SH_set_ifms. exact HU. }
  { reflexivity. }
  intros v1 v2 HV RV. keep. clear RV.
  apply bwp_bind. apply (bwp_mark d); [exact HV|]. intros HM0.
  apply bwp_bind. apply (bwp_skip_non_blank d); [exact HV|eassumption|]. intros w1 w2 HW _.
  apply (bwp_call_ws d); [exact HW|]. intros tw x1 x2 HX _.
  apply bwp_bind. apply bwp_modify. cbv beta.
  match goal with |- swp _ _ _ _ ?a ?b => assert (HY : SH d a b) end.
  { rewrite <- (SH_flow_level HX). destruct (0 <? sc_flow_level x1)%N; [apply SH_set_adj_here|]; exact HX. }
  match goal with |- swp _ _ _ _ ?a ?b => generalize dependent a; generalize dependent b end.
  intros y2 y1 HY.
  apply bwp_bind. apply (bwp_mark d); [exact HY|]. intros HM1.
  apply (bwp_push_tok d); [exact HY|apply TS_mk; apply SPS_mk; assumption|]. intros; fin.
Qed.

Theorem fetch_flow_entry_ok : shf_fetch_flow_entry d.
Proof.
  intros F1 F2 s1 s2 H N0. unfold fetch_flow_entry.
  sk bwp_remove_simple_key. sk bwp_allow_simple_key.
  apply bwp_bind. apply (bwp_mark d); [eassumption|]. intros HM0.
  apply bwp_bind. apply (bwp_end_implicit_mapping d); [eassumption|exact HM0|]. intros u1 u2 HU RU. keep. clear RU.
  apply bwp_bind. apply (bwp_skip_non_blank d); [exact HU|eassumption|]. intros v1 v2 HV _.
  apply (bwp_call_ws d); [exact HV|]. intros tw w1 w2 HW _.
  apply bwp_bind. apply (bwp_mark d); [exact HW|]. intros HM1.
  apply (bwp_push_tok d); [exact HW|apply TS_mk; apply SPS_mk; assumption|]. intros; fin.
Qed.

(* ---------------- block entry ---------------- *)
Theorem fetch_block_entry_ok : shf_fetch_block_entry d.
Proof.
  intros F1 F2 s1 s2 H N0. unfold fetch_block_entry.
  apply bwp_bind. apply bwp_get. cbv beta zeta. sh_sync H.
  br; [apply bwp_err_l|].
  br; [apply bwp_err_l|].
  apply bwp_bind.
  apply bwp_mono with (Q := fun (_ : unit) (t1 : bst) (_ : unit) (t2 : bst) => t1 = s1 /\ t2 = s2).
  { pose proof (sh_tokens H) as HT. rewrite <- (F2_nil_iff (TS d) _ _ HT).
    destruct HT as [|a b l1 l2 Hab HT]; [cbn [last]; lazy beta iota; apply bwp_ret; split; reflexivity|].
    pose proof (F2_last_cons (TS d) l1 l2 HT a b (span_empty mk0, TStreamEnd) (span_empty mk0, TStreamEnd) Hab) as HL.
    revert HL. destruct (last (a :: l1) _) as [sp1 tk1]. destruct (last (b :: l2) _) as [sp2 tk2].
    intros HL. pose proof (TS_snd d _ _ HL) as HE. cbn [snd] in HE. subst tk2.
    destruct tk1; try (apply bwp_ret; split; reflexivity);
      (assert (ESP : sp2 = sp1)
         by (pose proof (TS_nonscalar d _ _ HL ltac:(intros st v; cbn [snd]; discriminate)) as EQ; congruence);
       subst sp2; br; [apply bwp_err_l|apply bwp_ret; split; reflexivity]). }
  intros [] t1 [] t2 [-> ->].
  apply bwp_bind. apply (bwp_skip_non_blank d); [exact H|exact N0|]. intros u1 u2 HU RU.
  assert (NU : rm u1 <> []) by ne_tl.
  apply bwp_bind. apply (bwp_roll_indent d); [exact HU|apply MS_refl|exact I|]. intros v1 v2 HV RV. keep. clear RV.
  apply (bwp_call_ws d); [exact HV|]. intros tw w1 w2 HW NW.
  apply bwp_bind. apply (bwp_look d); [exact HW|]. intros x1 x2 HX _ _ _ _ _.
  (* [c] may be a line feed here: the test on [nc] is guarded by [c = '-'] *)
  apply bwp_bind. apply (bwp_peekn_raw d 0). apply bwp_bind. apply (bwp_peekn_raw d 1). cbv beta.
  rewrite <- !andb_assoc.
  rewrite (guard1_brk d is_blank_or_breakz 45%N x1 x2 HX eq_refl).
  br; [mfail HX|].
  apply (bwp_call_ws d); [exact HX|]. intros tw' y1 y2 HY _.
  apply bwp_bind. apply (bwp_look d); [exact HY|]. intros z1 z2 HZ _ _ _ _ _.
  apply bwp_bind. apply (bwp_peek d); [exact HZ|]. cbv beta. b1_norm.
  eapply (bwp_call_eq d).
  { br; [apply (bwp_roll_one_col_indent d); [exact HZ|]; intros; fin|apply bwp_ret; fin]. }
  intros [] a1 a2 HA.
  sk bwp_remove_simple_key. sk bwp_allow_simple_key.
  apply bwp_bind. apply (bwp_mark d); [eassumption|]. intros HM.
  apply (bwp_push_tok d); [eassumption|apply TS_empty; exact HM|]. intros; fin.
Qed.

(* ---------------- document indicators ---------------- *)
(* three characters that are neither breaks nor NUL are consumed: side 1 is not at its end afterwards *)
Lemma fetch_document_indicator_ne t s1 s2 : SH d s1 s2 -> noLF 3 (rm s1) ->
  bwp (fetch_document_indicator sops t) (fetch_document_indicator sops t)
      (fun a1 t1 a2 t2 => a1 = a2 /\ SH d t1 t2 /\ rm t1 <> []) s1 s2.
Proof.
  intros H N3. unfold fetch_document_indicator.
  sk bwp_unroll_indent. sk bwp_remove_simple_key. sk bwp_disallow_simple_key.
  apply bwp_bind. apply (bwp_mark d); [eassumption|]. intros HM0.
  match goal with HH : SH d ?a _, NN : noLF 3 (rm ?a) |- _ =>
    pose proof (skipn_nonempty_of_noLF d _ _ 3 HH NN ltac:(lia)) as NE end.
  apply bwp_bind. apply (bwp_skip_n_non_blank d); [eassumption|eassumption|lia|]. intros u1 u2 HU RU.
  apply bwp_bind. apply (bwp_mark d); [exact HU|]. intros HM1.
  apply (bwp_push_tok d); [exact HU|apply TS_mk; apply SPS_mk; assumption|]. intros v1 v2 HV RV.
  split; [reflexivity|split; [exact HV|]]. rewrite RV, RU. exact NE.
Qed.
Theorem fetch_document_indicator_ok : shf_fetch_document_indicator d.
Proof.
  intros t s1 s2 H N3. eapply bwp_mono; [apply fetch_document_indicator_ne; assumption|].
  intros a1 t1 a2 t2 (E & HT & _). split; assumption.
Qed.

(* ---------------- key / value ---------------- *)
Theorem fetch_key_ok : shf_fetch_key d.
Proof.
  intros F1 F2 s1 s2 H N0. unfold fetch_key.
  apply bwp_bind. apply bwp_get. cbv beta zeta. sh_sync H.
  apply bwp_seq.
  { br.
    - br; [apply bwp_err_l|].
      apply (bwp_roll_indent d); [exact H|apply MS_refl|exact I|]. intros; kfin.
    - apply bwp_modify. rewrite <- (SH_ifms H).
      destruct (sc_ifms s1) as [|[| | |] r]; (split; [first [exact H|apply SH_set_ifms; exact H]|reflexivity]). }
  intros u1 u2 HU RU. keep. clear RU.
  sk bwp_remove_simple_key.
  apply bwp_seq.
  { br; [apply (bwp_allow_simple_key d)|apply (bwp_disallow_simple_key d)]; try eassumption; intros; kfin. }
  intros v1 v2 HV RV. keep. clear RV.
  apply bwp_bind. apply (bwp_skip_non_blank d); [exact HV|eassumption|]. intros w1 w2 HW _.
  eapply (bwp_call_al_eq d); [apply (skip_yaml_whitespace_ok d); exact HW|]. intros [] x1 x2 HX _.
  apply bwp_bind. apply (bwp_peek d); [exact HX|]. cbv beta. b1_norm.
  br; [mfail HX|].
  apply bwp_bind. apply (bwp_mark d); [exact HX|]. intros HM.
  apply (bwp_push_tok d); [exact HX|apply TS_mk; apply SPS_mk; [apply MS_refl|exact HM]|]. intros; fin.
Qed.

Theorem fetch_value_ok : shf_fetch_value d.
Proof.
  intros F1 F2 s1 s2 H N0. unfold fetch_value.
  apply bwp_bind. apply bwp_get. cbv beta. sh_sync H.
  destruct (sc_sks s1) as [|k1 r1]; [apply bwp_panic_l|].
  apply bwp_bind. apply bwp_ret. cbv beta zeta.
  match goal with |- context [if ?b then modify _ else ret tt] => remember b as is_ifm eqn:Eifm; clear Eifm end.
  apply bwp_seq.
  { br; [|apply bwp_ret; kfin]. apply bwp_modify. split; [|reflexivity].
    rewrite <- (SH_ifms H). apply SH_set_ifms. exact H. }
  intros u1 u2 HU RU. keep. clear RU.
  apply bwp_bind. apply (bwp_skip_non_blank d); [exact HU|eassumption|]. intros v1 v2 HV RV.
  assert (NV : rm v1 <> []) by ne_tl.
  apply bwp_bind.
  apply bwp_mono with (Q := fun (c1 : chr) (t1 : bst) (c2 : chr) (t2 : bst) => SH d t1 t2 /\ (c2 =? 9)%N = (c1 =? 9)%N).
  { br; [|apply bwp_ret; split; [exact HV|reflexivity]].
    apply (bwp_look_ch d); [exact HV|]. intros w1 w2 HW _ _ _ _. cbv beta. b1_norm. split; [exact HW|reflexivity]. }
  intros c1 w1 c2 w2 [HW Ec]. cbv beta. rewrite Ec. clear Ec.
  eapply (bwp_call_eq d).
  { br; [|apply bwp_ret; fin].
    apply (bwp_call_ws d); [exact HW|]. intros tw x1 x2 HX _.
    br; [|apply bwp_ret; fin].
    apply bwp_bind. apply (bwp_peek d); [exact HX|]. cbv beta. b1_norm.
    br; [mfail HX|apply bwp_ret; fin]. }
  intros [] x1 x2 HX.
  destruct (sk_possible k1) eqn:EP.
  - (* the pending simple key becomes a KEY token *)
    apply bwp_bind. apply bwp_get. cbv beta. sh_sync HX.
    apply bwp_bind. br; [apply bwp_panic_l|]. apply bwp_ret.
    apply bwp_bind. apply (bwp_insert_token d); [exact HX|apply TS_refl|]. intros y1 y2 HY _.
    eapply (bwp_call_eq d).
    { br; [|apply bwp_ret; fin].
      br; [apply bwp_err_l|]. br; [|apply bwp_ret; fin].
      apply (bwp_insert_token d); [exact HY|apply TS_refl|]. intros; fin. }
    intros [] z1 z2 HZ.
    apply bwp_bind. apply (bwp_roll_indent d); [exact HZ|apply MS_refl|reflexivity|]. intros a1 a2 HA _.
    sk bwp_roll_one_col_indent.
    apply bwp_bind. apply bwp_modify. cbv beta.
    match goal with |- swp _ _ _ _ ?a ?b => assert (HB : SH d a b) end.
    { match goal with HH : SH d ?a ?b |- SH d (match sc_sks ?a with _ => _ end) _ =>
        rewrite <- (SH_sks HH); destruct (sc_sks a) as [|q1 l1];
          [exact HH|apply SH_set_sks; [exact HH|apply KSs_refl]] end. }
    match goal with |- swp _ _ _ _ ?a ?b => generalize dependent a; generalize dependent b end.
    intros b2 b1' HB.
    sk bwp_disallow_simple_key.
    apply (bwp_push_tok d); [eassumption|apply TS_refl|]. intros; fin.
  - (* no simple key: an empty key *)
    eapply (bwp_call_eq d).
    { br; [|apply bwp_ret; fin]. apply (bwp_push_tok d); [exact HX|apply TS_refl|]. intros; fin. }
    intros [] y1 y2 HY.
    apply bwp_bind. apply bwp_get. cbv beta. sh_sync HY.
    eapply (bwp_call_eq d).
    { br; [|apply bwp_ret; fin]. br; [apply bwp_err_l|].
      apply (bwp_roll_indent d); [exact HY|apply MS_refl|exact I|]. intros; fin. }
    intros [] z1 z2 HZ.
    sk bwp_roll_one_col_indent.
    eapply (bwp_call_eq d).
    { br; [apply (bwp_allow_simple_key d)|apply (bwp_disallow_simple_key d)]; try eassumption; intros; fin. }
    intros [] a1 a2 HA.
    apply (bwp_push_tok d); [exact HA|apply TS_refl|]. intros; fin.
Qed.

Theorem fetch_flow_value_ok : shf_fetch_flow_value d.
Proof.
  intros F1 F2 s1 s2 H N0 HFL. unfold fetch_flow_value.
  apply bwp_bind. apply (bwp_peekn_same d 1); [exact H|apply noLF_1; exact N0|apply nbz_ne; exact N0|]. intros _.
  apply bwp_bind. apply bwp_get. cbv beta. sh_sync H.
  br; [apply bwp_err_l|]. apply fetch_value_ok; assumption.
Qed.

(* ---------------- the dispatcher ---------------- *)
Ltac q4 := split; [reflexivity|split; [reflexivity|split; [reflexivity|intros E; first [discriminate E|exact E]]]].

(* fetch_next_token behind its end-of-input test, entered at a character that is neither a line break nor NUL, with
   a full lookahead buffer (fetch_next_token has just executed  look 4 ) *)
Theorem dispatch_ok : forall F1 F2 s1 s2, SH d s1 s2 -> nbz (rn s1 0) -> 4 <= lk s1 ->
  swp d (fnt_dispatch F1) (fnt_dispatch F2) (bpost d eq) s1 s2.
Proof.
  intros F1 F2 s1 s2 H N0 L4. unfold fnt_dispatch.
  assert (NE : rm s1 <> []) by (apply nbz_ne; exact N0).
  assert (EA : atend s1 = false) by (apply nbz_atend; exact N0).
  apply bwp_bind. apply bwp_get. cbv beta. sh_sync H.
  apply bwp_bind. apply (bwp_peek d); [exact H|]. cbv beta. rewrite (b1_nbz _ N0).
  (* document markers at column 0: found on one side iff found on the other (side 1 is not at its end) *)
  apply bwp_bind.
  apply bwp_mono with (Q := fun (a1 : bool) (t1 : bst) (a2 : bool) (t2 : bst) =>
     a1 = a2 /\ t1 = s1 /\ t2 = s2 /\ (a1 = true -> docstart_val s1 = true)).
  { br; [|apply bwp_ret; q4]. br; [apply bwp_ret; q4|].
    apply (bwp_next_is_document_start d); [exact H|]. q4. }
  intros dstart ? ? ? (<- & -> & -> & HDS).
  apply bwp_bind.
  apply bwp_mono with (Q := fun (a1 : bool) (t1 : bst) (a2 : bool) (t2 : bst) =>
     a1 = a2 /\ t1 = s1 /\ t2 = s2 /\ (a1 = true -> docend_val s1 = true)).
  { br; [|apply bwp_ret; q4]. apply (bwp_next_is_document_end d); [exact H|]. rewrite EA, orb_false_r. q4. }
  intros dend ? ? ? (<- & -> & -> & HDE).
  br; [apply fetch_directive_ok; assumption|].
  br; [apply fetch_document_indicator_ok; [exact H|apply docstart_noLF; apply HDS; reflexivity]|].
  br.
  { apply bwp_bind. eapply bwp_mono;
      [apply fetch_document_indicator_ne; [exact H|apply docend_noLF; apply HDE; reflexivity]|].
    intros [] z1 [] z2 (_ & HZ & NZ).
    apply (bwp_call_ws d); [exact HZ|]. intros tw a1 a2 HA NA.
    apply bwp_bind. apply (bwp_next_is_in d); [exact HA|apply NA; exact NZ|].
    br; [apply bwp_ret; fin|mfail HA]. }
  br; [apply bwp_err_l|].
  (* the character dispatch: the first character is not a line break, so the second is the same on both sides *)
  apply bwp_bind. apply (bwp_peek d); [exact H|]. rewrite (b1_nbz _ N0).
  apply bwp_bind. apply (bwp_peekn_same d 1); [exact H|apply noLF_1; exact N0|exact NE|]. intros _. cbv beta zeta.
  br; [apply fetch_flow_collection_start_ok; assumption|].
  br; [apply fetch_flow_collection_start_ok; assumption|].
  br; [apply fetch_flow_collection_end_ok; assumption|].
  br; [apply fetch_flow_collection_end_ok; assumption|].
  br; [apply fetch_flow_entry_ok; assumption|].
  br; [apply fetch_block_entry_ok; assumption|].
  br; [apply fetch_key_ok; assumption|].
  br; [apply fetch_value_ok; assumption|].
  match goal with |- bwp (if ?b then _ else _) (if ?b then _ else _) _ _ _ => destruct b eqn:EFV end.
  { apply fetch_flow_value_ok; [assumption|assumption|].
    apply andb_true_iff in EFV. destruct EFV as [EFV _]. apply andb_true_iff in EFV. exact (proj2 EFV). }
  br; [apply fetch_anchor_ok; assumption|].
  br; [apply fetch_anchor_ok; assumption|].
  br; [apply fetch_tag_ok; assumption|].
  br; [apply fetch_block_scalar_ok; assumption|].
  br; [apply fetch_block_scalar_ok; assumption|].
  br; [apply fetch_flow_scalar_ok; assumption|].
  br; [apply fetch_flow_scalar_ok; assumption|].
  br; [apply fetch_plain_scalar_ok; assumption|].
  br; [apply fetch_plain_scalar_ok; assumption|].
  br; [apply bwp_err_l|].
  apply fetch_plain_scalar_ok; assumption.
Qed.

End PrefixFetch.

Print Assumptions fetch_stream_start_ok.
Print Assumptions fetch_directive_ok.
Print Assumptions fetch_tag_ok.
Print Assumptions fetch_anchor_ok.
Print Assumptions fetch_flow_collection_start_ok.
Print Assumptions fetch_flow_collection_end_ok.
Print Assumptions fetch_flow_entry_ok.
Print Assumptions fetch_block_entry_ok.
Print Assumptions fetch_document_indicator_ok.
Print Assumptions fetch_block_scalar_ok.
Print Assumptions fetch_flow_scalar_ok.
Print Assumptions fetch_plain_scalar_ok.
Print Assumptions fetch_key_ok.
Print Assumptions fetch_value_ok.
Print Assumptions fetch_flow_value_ok.
Print Assumptions dispatch_ok.
