(* C04 in document context, part 3: scan_plain_scalar on a presentation of the specification that is followed by spaces and
   line feeds only -- the statement of C04_plain_full (Proofs/PlainScalarProofs.v) for this follower class WITH the input that
   is left: nothing ([]; plain_blanks consumes the trailing blanks and breaks up to the end of the input).  The line lemmas of
   PlainScalarProofs.v ([line_run], [brk_step]) are generic in the postcondition; the follower analysis and the induction
   over the continuation lines are redone here with a postcondition [Qe] that keeps the final state. *)
From Coq Require Import List NArith ZArith Bool Arith Lia.
Import ListNotations.
Require Import Parser SBase SPrim SDir SScalar SFetch Pipe FlowFold FlowScalarProofs PlainScalarProofs ScalarContextQuoted.
Open Scope N_scope.
Open Scope mon_scope.

(* ---------- ws_only followers are followers of the specification ---------- *)
Lemma ws_after_break_ok flow indent : forall r col, ws_only r = true -> after_break_ok flow indent col r = true.
Proof.
  induction r as [|c r IH]; intros col H; [reflexivity|].
  cbn [ws_only forallb] in H. apply andb_prop in H as [Hc H]. fold (ws_only r) in H.
  cbn [after_break_ok]. apply orb_prop in Hc as [Hc|Hc]; apply N.eqb_eq in Hc; subst c.
  - change (10 =? 32) with false. change (10 =? 10) with true. cbv iota. apply IH, H.
  - change (32 =? 32) with true. cbv iota. apply IH, H.
Qed.

Lemma ws_only_plain_follower flow indent rest : ws_only rest = true -> plain_follower_ok flow indent rest = true.
Proof.
  intros H. unfold plain_follower_ok. pose proof (ws_only_drop rest H) as Hd. pose proof (ws_only_drop_head rest H) as Hh.
  destruct (drop_leading rest) as [|c r']; [reflexivity|]. cbn [nth] in Hh. destruct Hh as [Hh|Hh]; subst c.
  - cbn [ws_only forallb] in Hd. discriminate Hd.
  - change (is_break 10) with true. cbv iota. apply ws_after_break_ok, Hd.
Qed.

Section PlainWs.
Variable F : nat.
Variable s0 : sc strin.
Variable start : marker.
Variable L : nat.
Hypothesis HL : (128 <= L)%nat.
Variable n : nat.
Hypothesis Hn : (sc_indent s0 + 1 <= Z.of_nat n)%Z.
Notation fl := (0 <? sc_flow_level s0).
Notation indent := (sc_indent s0 + 1)%Z.
Notation st := (st_with s0).
Notation pblanks := (plain_blanks str_ops F).
Notation achunk := (after_chunk F s0 start).

(* the scalar is returned and the input is consumed *)
Definition Qe (final : list chr) (o : outcome (list chr * marker * sc strin)) : Prop :=
  exists endm l' m' w', o = Ok ((final, endm), st [] l' m' w').

Lemma pafter_eof f acc endm lb tb ws l m w : acc <> [] ->
  Qe acc (pafter_blanks indent (ploop F indent start (S f)) acc endm (lb, tb, ws) (st [] l m w)).
Proof.
  intros Hacc. unfold pafter_blanks. mstep (get_st s0 [] l m w). cbn [sc_flow_level sc_mark st_with].
  destruct ((sc_flow_level s0 =? 0) && (Z.of_N (m_col m) <? indent)%Z); [eexists; eexists; eexists; eexists; reflexivity|].
  cbn [ploop]. rewrite (pbody_end F s0 start L HL n) by (try assumption; try reflexivity; right; left; reflexivity).
  eexists; eexists; eexists; eexists; reflexivity.
Qed.

(* behind a line break: spaces and line feeds up to the end of the input *)
Lemma ws_break_run : forall r fb f lb tb ws m acc endm,
  ws_only r = true -> (length r < fb)%nat -> acc <> [] ->
  Qe acc (bind (pblanks fb indent start lb tb ws) (pafter_blanks indent (ploop F indent start (S f)) acc endm) (st r L m true)).
Proof.
  induction r as [|c r IH]; intros fb f lb tb ws m acc endm H Hfb Hacc; (destruct fb as [|fb]; [cbn in Hfb; lia|]).
  - rewrite (bind_Ok _ _ _ _ _ (pb_stop F s0 start L fb lb tb ws [] m true eq_refl eq_refl)). apply pafter_eof, Hacc.
  - cbn [ws_only forallb] in H. apply andb_prop in H as [Hc H]. fold (ws_only r) in H.
    apply orb_prop in Hc as [Hc|Hc]; apply N.eqb_eq in Hc; subst c.
    + change (10 :: r) with (nl_src NlLF ++ r).
      rewrite (bind_congr _ _ _ _ _ (pb_nl_more F s0 start L HL NlLF fb lb tb ws r m ltac:(intros E; discriminate E))).
      apply IH; [exact H|cbn [length] in Hfb; lia|exact Hacc].
    + rewrite (bind_congr _ _ _ _ _ (pb_blank_skip F s0 start L HL fb lb tb ws 32 r m eq_refl ltac:(discriminate))).
      apply IH; [exact H|cbn [length] in Hfb; lia|exact Hacc].
Qed.

(* behind the last word *)
Lemma ws_line_run : forall r fb f ws m acc endm,
  ws_only r = true -> (length r < fb)%nat -> acc <> [] ->
  Qe acc (bind (pblanks fb indent start false 0 ws) (pafter_blanks indent (ploop F indent start (S f)) acc endm) (st r L m false)).
Proof.
  induction r as [|c r IH]; intros fb f ws m acc endm H Hfb Hacc; (destruct fb as [|fb]; [cbn in Hfb; lia|]).
  - rewrite (bind_Ok _ _ _ _ _ (pb_stop F s0 start L fb false 0 ws [] m false eq_refl eq_refl)). apply pafter_eof, Hacc.
  - cbn [ws_only forallb] in H. apply andb_prop in H as [Hc H]. fold (ws_only r) in H.
    apply orb_prop in Hc as [Hc|Hc]; apply N.eqb_eq in Hc; subst c.
    + change (10 :: r) with (nl_src NlLF ++ r).
      rewrite (bind_congr _ _ _ _ _ (pb_nl_first F s0 start L HL NlLF fb false 0 ws r m ltac:(intros E; discriminate E))).
      apply ws_break_run; [exact H|cbn [length] in Hfb; lia|exact Hacc].
    + rewrite (bind_congr _ _ _ _ _ (pb_blank_ws F s0 start L HL fb false 0 ws 32 r m eq_refl)).
      apply IH; [exact H|cbn [length] in Hfb; lia|exact Hacc].
Qed.

Lemma ws_follower_run rest : ws_only rest = true ->
  forall f acc m, (length rest + 2 <= F)%nat -> acc <> [] -> col_ok s0 m ->
    Qe acc (achunk (ploop F indent start (S f)) false 0 [] acc (st rest L m false)).
Proof.
  intros H f acc m HF Hacc Hm. rewrite after_chunk_st. destruct rest as [|c r].
  - rewrite ptail_stop by reflexivity. eexists; eexists; eexists; eexists; reflexivity.
  - rewrite (ptail_blanks F s0 start L HL n).
    2:{ cbn [ws_only forallb] in H. apply andb_prop in H as [Hc _]. cbn [nth].
        apply orb_prop in Hc as [Hc|Hc]; apply N.eqb_eq in Hc; subst c; reflexivity. }
    apply ws_line_run; [exact H|lia|exact Hacc].
Qed.

Section Lines.
Variable rest : list N.
Hypothesis Hws : ws_only rest = true.

Lemma lines_run_ws : forall more f acc m,
  more_wf fl n more = true ->
  (length (src_more more ++ rest) + 2 <= f)%nat -> (2 * length (src_more more ++ rest) + 6 <= F)%nat ->
  acc <> [] -> col_ok s0 m ->
  Qe (rev (rest_text more) ++ acc) (achunk (ploop F indent start f) false 0 [] acc (st (src_more more ++ rest) L m false)).
Proof.
  pose proof (ws_only_plain_follower fl (sc_indent s0) rest Hws) as Hfollow.
  induction more as [|[b line] more IH]; intros f acc m Hwf Hf HF Hacc Hm.
  - destruct f as [|f]; [lia|]. cbn [src_more flat_map app rest_text rev] in *.
    apply (ws_follower_run rest Hws); [lia|exact Hacc|exact Hm].
  - assert (Hwf0 := Hwf).
    cbn [more_wf forallb fst snd] in Hwf. apply andb_prop in Hwf. destruct Hwf as [Hhd Hwf'].
    do 3 (apply andb_prop in Hhd; destruct Hhd as [Hhd ?]).
    match goal with H : negb (bl_escaped b) = true |- _ => apply negb_true_iff in H; rename H into He end.
    match goal with H : negb (marker_at_col0 _ _) = true |- _ => apply negb_true_iff in H; rename H into Hmk end.
    cbn [src_more flat_map fst snd] in *. fold (src_more more) in *.
    rewrite <- !app_assoc in *. rewrite !app_length in Hf, HF.
    cbn [rest_text]. rewrite !rev_app_distr, <- !app_assoc.
    apply (brk_step F s0 start L HL n Hn (src_more more ++ rest) (fun a o => Qe (rev (rest_text more) ++ a) o)
             (length (src_more more ++ rest) + 2)%nat); try assumption.
    + intros f' acc' m' HB' Hacc' Hm'. apply IH; try assumption. rewrite ?app_length in *. lia.
    + apply (stops_src_more F s0 start L HL n rest Hfollow). exact Hwf'.
    + rewrite ?app_length in *. lia.
    + assert (1 <= length (render_brk b))%nat by (unfold render_brk; rewrite !app_length; pose proof (nl_src_len (bl_nl b)); lia).
      rewrite ?app_length in *. lia.
Qed.
End Lines.
End PlainWs.

(* C04_plain_full for a follower of spaces and line feeds, with the input that is left: none *)
Theorem scan_plain_scalar_ws :
  forall (F n : nat) (first : list N) (more : list (brk_layout * list N)) (rest : list N) (s : sc strin),
    plain_layout_wf (0 <? sc_flow_level s) n first more = true ->
    si_chars (sc_in s) = plain_render first more ++ rest ->
    ws_only rest = true ->
    (eff_indent s < Z.of_nat n)%Z ->
    (eff_indent s < Z.of_N (m_col (sc_mark s)))%Z ->
    (sc_lws s = true -> m_col (sc_mark s) = 0 -> marker_at_col0 [] first = false) ->
    (2 * length (si_chars (sc_in s)) + 10 <= F)%nat ->
    exists sp s',
      scan_plain_scalar str_ops F s = Ok ((sp, TScalar Plain (plain_text first more)), s')
      /\ sp_start sp = sc_mark s /\ si_chars (sc_in s') = [].
Proof.
  intros F n first more rest s Hwf Hsrc Hws Hn Hcol Hmk HF.
  set (s1 := let '(ind, l) := unroll_nb (sc_indents s) (sc_indent s) in set_indent ind l s).
  assert (E1 : unroll_non_block_indents s = Ok (tt, s1)) by reflexivity.
  assert (Hs1 : sc_indent s1 = eff_indent s /\ sc_flow_level s1 = sc_flow_level s /\ sc_mark s1 = sc_mark s
                /\ sc_in s1 = sc_in s /\ sc_lws s1 = sc_lws s).
  { unfold s1, eff_indent. destruct (unroll_nb (sc_indents s) (sc_indent s)) as [ind l]. repeat split. }
  destruct Hs1 as [Hi1 [Hf1 [Hm1 [Hin1 Hw1]]]].
  assert (Hrun : scan_plain_scalar str_ops F s
                 = (r <- ploop F (sc_indent s1 + 1) (sc_mark s) F [] false 0 [] (sc_mark s) ;; pfinish (sc_mark s) r)
                     (st_with s1 (plain_render first more ++ rest) (si_look (sc_in s)) (sc_mark s) (sc_lws s))).
  { rewrite scan_plain_scalar_phases.
    mstep E1. mstep (eq_refl : get s1 = Ok (s1, s1)). cbv zeta.
    rewrite Hf1, Hm1, Hi1.
    replace (Z.of_N (m_col (sc_mark s)) <? eff_indent s + 1)%Z with false by (symmetry; apply Z.ltb_ge; lia).
    rewrite andb_false_r.
    rewrite <- Hsrc, <- Hin1, <- Hw1. f_equal. rewrite <- Hm1. apply st_with_id. }
  rewrite Hrun. clear Hrun. clearbody s1. clear E1.
  set (l := si_look (sc_in s)). set (m := sc_mark s). set (w := sc_lws s).
  set (L := Nat.max (Nat.max l 4) 128).
  assert (HL : (128 <= L)%nat) by (unfold L; lia).
  unfold plain_layout_wf in Hwf. apply andb_prop in Hwf. destruct Hwf as [Hwf Hmore].
  apply andb_prop in Hwf. destruct Hwf as [Hfirst Hline].
  rewrite <- Hf1 in Hfirst, Hline, Hmore. rewrite <- Hi1 in Hn, Hcol.
  fold (more_wf (0 <? sc_flow_level s1) n more) in Hmore.
  destruct first as [|c0 t]; [discriminate Hline|].
  rewrite Hsrc in HF.
  unfold plain_render in *. fold (src_more more) in *. rewrite <- app_assoc in *. cbn [app] in *. cbn [length] in HF. rewrite app_length in HF.
  destruct F as [|f]; [lia|].
  assert (Hn' : (sc_indent s1 + 1 <= Z.of_nat n)%Z) by lia.
  pose proof (ws_only_plain_follower (0 <? sc_flow_level s1) (sc_indent s1) rest Hws) as Hfollow.
  assert (Hstop : stops_chunk s1 (src_more more ++ rest)).
  { apply (stops_src_more (S f) s1 m L HL n rest Hfollow). exact Hmore. }
  assert (Hch : plain_line_chars_wf (0 <? sc_flow_level s1) 0 (c0 :: t) = true).
  { unfold plain_line_wf in Hline. apply andb_prop in Hline. tauto. }
  cbn [ploop].
  pose proof (line_run (S f) s1 m L HL n (src_more more ++ rest)
                (fun a o => Qe s1 (rev (rest_text more) ++ a) o) (length (src_more more ++ rest) + 2)%nat) as LR.
  destruct (LR (fun f' acc' m' HB' Hacc' Hm' =>
                  lines_run_ws (S f) s1 m L HL n Hn' rest Hws more f' acc' m' Hmore HB' ltac:(lia) Hacc' Hm')
               Hstop c0 t [] false 0 [] m l m w [] f Hline) as [endm [l' [m' [w' E]]]].
  - intros Hz. apply andb_prop in Hz. destruct Hz as [Hz1 Hz2]. apply N.eqb_eq in Hz2.
    apply (no_marker_no_doc_ind s1 (c0 :: t) (src_more more ++ rest) Hch); [|exact Hstop].
    apply Hmk; assumption.
  - cbn [andb]. destruct (N.eqb_spec c0 45) as [->|H45]; [|rewrite andb_false_r; reflexivity].
    rewrite andb_true_r. unfold plain_first_wf in Hfirst. change (c_indicator 45) with true in Hfirst.
    cbn [negb orb] in Hfirst. apply andb_prop in Hfirst. destruct Hfirst as [_ Hsafe].
    destruct t as [|c1 t]; [discriminate Hsafe|]. cbn [hd app nth] in *.
    exact (proj2 (ns_plain_safe_facts _ _ Hsafe)).
  - destruct w; reflexivity.
  - reflexivity.
  - lia.
  - lia.
  - unfold col_ok. fold m in Hcol. lia.
  - assert (Erev : rev (rest_text more) ++ rev t ++ [c0] = rev ((c0 :: t) ++ rest_text more))
      by (rewrite rev_app_distr; cbn [rev]; reflexivity).
    cbv beta in E. unfold chr in *. rewrite Erev in E. clear Erev. rewrite plain_text_rest.
    assert (Einv : rev (rev ((c0 :: t) ++ rest_text more)) = (c0 :: t) ++ rest_text more) by apply rev_involutive.
    revert E Einv. destruct (rev ((c0 :: t) ++ rest_text more)) as [|x y] eqn:Er; intros E Einv.
    { apply (f_equal (@length N)) in Er. rewrite rev_length in Er. discriminate Er. }
    rewrite (bind_Ok _ _ _ _ _ E).
    unfold pfinish. mstep (eq_refl : get (st_with s1 [] l' m' w') = Ok (st_with s1 [] l' m' w', st_with s1 [] l' m' w')).
    assert (Ea : exists s'', (if sc_lws (st_with s1 [] l' m' w') then allow_simple_key else ret tt) (st_with s1 [] l' m' w') = Ok (tt, s'')
                             /\ si_chars (sc_in s'') = []).
    { cbn [sc_lws st_with]. destruct w'; eexists; (split; [reflexivity|reflexivity]). }
    destruct Ea as [s'' [Ea Hin]]. mstep Ea. cbn [fst snd]. unfold chr. rewrite Einv.
    eexists. eexists. split; [reflexivity|]. split; [reflexivity|exact Hin].
Qed.
