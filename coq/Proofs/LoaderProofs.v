(* C07 — the loader model (Model/Loader.v: on_event / insert_new_node over explicit stacks) refines the
   tree specification (Spec/BuildDocs.v), for ALL event trees; and every event list the grammar acceptor
   accepts is the flattening of a (unique, computable) list of trees. *)
From Coq Require Import List NArith ZArith Bool Lia.
Import ListNotations.
Require Import Parser Resolver Loader Grammar BuildDocs.

(* ---------------------------------------------------------------------------------------------- *)
(* induction principle for the rose tree                                                          *)
(* ---------------------------------------------------------------------------------------------- *)
Section etree_induction.
  Variable P : etree -> Prop.
  Hypothesis Hs : forall v st a tg, P (TScalar v st a tg).
  Hypothesis Ha : forall i, P (TAlias i).
  Hypothesis Hq : forall a tg l, Forall P l -> P (TSeq a tg l).
  Hypothesis Hm : forall a tg l, Forall (fun kv => P (fst kv) /\ P (snd kv)) l -> P (TMap a tg l).
  Fixpoint etree_ind2 (t : etree) : P t :=
    match t with
    | TScalar v st a tg => Hs v st a tg
    | TAlias i => Ha i
    | TSeq a tg l =>
        Hq a tg l ((fix go (l : list etree) : Forall P l :=
                      match l with [] => Forall_nil _ | x :: r => Forall_cons x (etree_ind2 x) (go r) end) l)
    | TMap a tg l =>
        Hm a tg l ((fix go (l : list (etree * etree)) : Forall (fun kv => P (fst kv) /\ P (snd kv)) l :=
                      match l with
                      | [] => Forall_nil _
                      | (k, v) :: r => Forall_cons (k, v) (conj (etree_ind2 k) (etree_ind2 v)) (go r)
                      end) l)
    end.
End etree_induction.

(* ---------------------------------------------------------------------------------------------- *)
(* the loader on a whole tree                                                                     *)
(* ---------------------------------------------------------------------------------------------- *)
Notation mkL := Build_loader.

Definition lbind (r : lres) (f : loader -> lres) : lres :=
  match r with LOk l => f l | LPanic n => LPanic n end.

(* where a completed node goes (insert_new_node without the anchor registration) *)
Definition place (ld : loader) (node : yaml) (aid : N) : lres :=
  match l_stack ld with
  | [] => LOk (mkL (l_docs ld) [(node, aid)] (l_keys ld) (l_anchors ld))
  | (YSeq items, paid) :: rest => LOk (mkL (l_docs ld) ((YSeq (items ++ [node]), paid) :: rest) (l_keys ld) (l_anchors ld))
  | (YMap pairs, paid) :: rest =>
      match l_keys ld with
      | [] => LPanic 300
      | None :: ks => LOk (mkL (l_docs ld) (l_stack ld) (Some node :: ks) (l_anchors ld))
      | Some key :: ks => LOk (mkL (l_docs ld) ((YMap (map_insert key node pairs), paid) :: rest) (None :: ks) (l_anchors ld))
      end
  | _ => LOk ld
  end.

Definition aid_of (t : etree) : N :=
  match t with TScalar _ _ a _ => a | TAlias _ => 0%N | TSeq a _ _ => a | TMap a _ _ => a end.

Lemma insert_place d s ks m y a :
  insert_new_node (mkL d s ks m) y a = place (mkL d s ks (reg a y m)) y a.
Proof.
  unfold place, insert_new_node, reg. cbn [l_docs l_stack l_keys l_anchors].
  destruct s as [|[[ | | |] pa] rest]; reflexivity.
Qed.

Lemma load_events_app a b ld :
  load_events (a ++ b) ld = lbind (load_events a ld) (load_events b).
Proof.
  revert ld; induction a as [|e a IH]; intros ld; cbn [app load_events lbind]; [reflexivity|].
  destruct (on_event ld e); [apply IH|reflexivity].
Qed.

Lemma load_events_cons e k ld : load_events (e :: k) ld = lbind (on_event ld e) (load_events k).
Proof. cbn [load_events lbind]. destruct (on_event ld e); reflexivity. Qed.

Definition tree_ok (t : etree) : Prop :=
  forall k d s ks m,
    load_events (events_of t ++ k) (mkL d s ks m) =
    lbind (place (mkL d s ks (snd (build m t))) (fst (build m t)) (aid_of t)) (load_events k).

Lemma load_items l : Forall tree_ok l ->
  forall k d acc a s ks m,
    load_events (events_items events_of l ++ k) (mkL d ((YSeq acc, a) :: s) ks m) =
    load_events k (mkL d ((YSeq (acc ++ fst (build_items build m l)), a) :: s) ks (snd (build_items build m l))).
Proof.
  induction 1 as [|t r Ht _ IH]; intros k d acc a s ks m.
  - cbn [events_items build_items fst snd app]. rewrite app_nil_r. reflexivity.
  - cbn [events_items build_items]. rewrite <- app_assoc. rewrite Ht.
    destruct (build m t) as [y m1] eqn:Eb. cbn [fst snd].
    unfold place. cbn [l_docs l_stack l_keys l_anchors lbind].
    rewrite IH. destruct (build_items build m1 r) as [ys m2]. cbn [fst snd].
    rewrite <- app_assoc. reflexivity.
Qed.

Lemma load_pairs l : Forall (fun kv => tree_ok (fst kv) /\ tree_ok (snd kv)) l ->
  forall k d acc a s ks m,
    load_events (events_pairs events_of l ++ k) (mkL d ((YMap acc, a) :: s) (None :: ks) m) =
    load_events k (mkL d ((YMap (fst (build_pairs build m l acc)), a) :: s) (None :: ks)
                       (snd (build_pairs build m l acc))).
Proof.
  induction 1 as [|[kt vt] r [Hk Hv] _ IH]; intros k d acc a s ks m.
  - cbn [events_pairs build_pairs fst snd app]. reflexivity.
  - cbn [fst snd] in Hk, Hv. cbn [events_pairs build_pairs]. rewrite <- !app_assoc. rewrite Hk.
    destruct (build m kt) as [ky m1] eqn:Ek. cbn [fst snd].
    unfold place at 1. cbn [l_docs l_stack l_keys l_anchors lbind].
    rewrite Hv. destruct (build m1 vt) as [vy m2] eqn:Ev. cbn [fst snd].
    unfold place at 1. cbn [l_docs l_stack l_keys l_anchors lbind].
    apply IH.
Qed.

Theorem load_tree : forall t, tree_ok t.
Proof.
  induction t as [v st a tg|i|a tg l IH|a tg l IH] using etree_ind2; intros k d s ks m.
  - cbn [events_of app build fst snd]. rewrite load_events_cons. cbn [on_event]. rewrite insert_place. reflexivity.
  - cbn [events_of app build fst snd]. rewrite load_events_cons. cbn [on_event l_anchors].
    fold (deref i m). rewrite insert_place. unfold reg. change (0 <? 0)%N with false. reflexivity.
  - cbn [events_of build]. rewrite <- app_comm_cons, load_events_cons. cbn [on_event l_docs l_stack l_keys l_anchors lbind].
    rewrite <- app_assoc. rewrite (load_items l IH).
    destruct (build_items build m l) as [ys m'] eqn:Eb. cbn [fst snd app].
    rewrite load_events_cons. cbn [on_event l_docs l_stack l_keys l_anchors]. rewrite insert_place. reflexivity.
  - cbn [events_of build]. rewrite <- app_comm_cons, load_events_cons. cbn [on_event l_docs l_stack l_keys l_anchors lbind].
    rewrite <- app_assoc. rewrite (load_pairs l IH).
    destruct (build_pairs build m l []) as [ps m'] eqn:Eb. cbn [fst snd app].
    rewrite load_events_cons. cbn [on_event l_docs l_stack l_keys l_anchors]. rewrite insert_place. reflexivity.
Qed.

(* the generalised stack lemma in the form announced: a whole tree in front of any continuation acts as one
   insert_new_node of its value (anchor registration included) *)
Corollary load_tree_insert t k d s ks m :
  load_events (events_of t ++ k) (mkL d s ks m) =
  lbind (place (mkL d s ks (snd (build m t))) (fst (build m t)) (aid_of t)) (load_events k).
Proof. apply load_tree. Qed.

Lemma load_docs ds : forall k d m,
  load_events (events_docs ds ++ k) (mkL d [] [] m) =
  load_events k (mkL (rev (fst (build_docs m ds)) ++ d) [] [] (snd (build_docs m ds))).
Proof.
  induction ds as [|[e t] r IH]; intros k d m.
  - reflexivity.
  - cbn [events_docs build_docs]. unfold events_doc. cbn [fst snd]. rewrite <- app_assoc, <- app_comm_cons, load_events_cons.
    cbn [on_event lbind]. rewrite <- app_assoc. rewrite load_tree.
    destruct (build m t) as [y m1]. cbn [fst snd].
    unfold place. cbn [l_docs l_stack l_keys l_anchors lbind].
    rewrite <- app_comm_cons, load_events_cons. cbn [on_event l_docs l_stack l_keys l_anchors lbind app].
    rewrite IH. destruct (build_docs m1 r) as [ys m2]. cbn [fst snd rev]. rewrite <- app_assoc. reflexivity.
Qed.

Theorem loader_refines_spec ds :
  load_events (stream_of ds) l0 =
  LOk (mkL (rev (fst (build_docs [] ds))) [] [] (snd (build_docs [] ds))).
Proof.
  unfold stream_of, l0. rewrite load_events_cons. cbn [on_event lbind].
  rewrite load_docs. cbn [load_events on_event]. rewrite app_nil_r. reflexivity.
Qed.

Corollary loader_docs_spec ds :
  exists ld, load_events (stream_of ds) l0 = LOk ld /\ rev (l_docs ld) = spec_load ds
             /\ l_stack ld = [] /\ l_keys ld = [].
Proof.
  eexists. split; [apply loader_refines_spec|]. cbn [l_docs l_stack l_keys]. rewrite rev_involutive. auto.
Qed.

(* ---------------------------------------------------------------------------------------------- *)
(* sentences are flattened trees: parse_events is sound, and accepts exactly what grun accepts     *)
(* ---------------------------------------------------------------------------------------------- *)
Lemma events_items_app f a b : events_items f (a ++ b) = events_items f a ++ events_items f b.
Proof. induction a as [|x a IH]; cbn [app events_items]; [reflexivity|]. rewrite IH, app_assoc. reflexivity. Qed.
Lemma events_pairs_app f a b : events_pairs f (a ++ b) = events_pairs f a ++ events_pairs f b.
Proof.
  induction a as [|[k v] a IH]; cbn [app events_pairs]; [reflexivity|]. rewrite IH, <- !app_assoc. reflexivity.
Qed.
Lemma events_docs_app a b : events_docs (a ++ b) = events_docs a ++ events_docs b.
Proof. induction a as [|x a IH]; cbn [app events_docs]; [reflexivity|]. rewrite IH, app_assoc. reflexivity. Qed.

Definition open_events (f : pframe) : list event :=
  match f with
  | PSeq a tg ri => ESequenceStart a tg :: events_items events_of (rev ri)
  | PMapK a tg re => EMappingStart a tg :: events_pairs events_of (rev re)
  | PMapV a tg re k => EMappingStart a tg :: events_pairs events_of (rev re) ++ events_of k
  end.
Fixpoint frames_events (fs : list pframe) : list event :=
  match fs with [] => [] | f :: r => frames_events r ++ open_events f end.

(* the events consumed so far *)
Definition flat (s : pstate) : list event :=
  match s with
  | PInit => []
  | PBetween rd => EStreamStart :: events_docs (rev rd)
  | PDoc rd e fs => EStreamStart :: events_docs (rev rd) ++ EDocumentStart e :: frames_events fs
  | PDocDone rd e t => EStreamStart :: events_docs (rev rd) ++ EDocumentStart e :: events_of t
  | PEnd ds => stream_of ds
  end.

Ltac lnorm := repeat (progress (cbn [app]) || rewrite <- app_assoc || rewrite app_nil_r).

Lemma flat_complete rd e fs t : flat (pcomplete rd e fs t) = flat (PDoc rd e fs) ++ events_of t.
Proof.
  destruct fs as [|[a tg ri|a tg re|a tg re k] r]; cbn [pcomplete flat frames_events open_events rev];
    rewrite ?events_items_app, ?events_pairs_app; cbn [events_items events_pairs]; lnorm; reflexivity.
Qed.

Lemma flat_step s e s' : pstep s e = Some s' -> flat s' = flat s ++ [e].
Proof.
  destruct e, s; cbn [pstep]; try discriminate; intros H;
    try (destruct fs as [|[a' tg' ri|a' tg' re|a' tg' re k] r]; try discriminate);
    inversion H; subst; rewrite ?flat_complete;
    cbn [flat frames_events open_events rev events_items events_pairs events_of]; unfold stream_of;
    rewrite ?events_docs_app, ?events_items_app, ?events_pairs_app; cbn [events_docs events_items events_pairs events_of];
    unfold events_doc; cbn [fst snd]; lnorm; reflexivity.
Qed.

Lemma flat_run evs : forall s s', prun s evs = Some s' -> flat s' = flat s ++ evs.
Proof.
  induction evs as [|e r IH]; intros s s' H; cbn [prun] in H.
  - inversion H; subst. rewrite app_nil_r. reflexivity.
  - destruct (pstep s e) as [s1|] eqn:E; [|discriminate].
    rewrite (IH _ _ H), (flat_step _ _ _ E), <- app_assoc. reflexivity.
Qed.

Theorem parse_events_sound evs ds : parse_events evs = Some ds -> evs = stream_of ds.
Proof.
  unfold parse_events. destruct (prun PInit evs) as [[| | | |ds']|] eqn:E; try discriminate.
  intros H; inversion H; subst. apply flat_run in E. cbn [flat app] in E. symmetry. exact E.
Qed.

(* the acceptor state a parse state corresponds to *)
Definition frame_of (f : pframe) : frame :=
  match f with PSeq _ _ _ => FSeq | PMapK _ _ _ => FMapKey | PMapV _ _ _ _ => FMapVal end.
Definition gof (s : pstate) : gstate :=
  match s with
  | PInit => GInit
  | PBetween _ => GStream []
  | PDoc _ _ fs => GStream (map frame_of fs ++ [FDoc])
  | PDocDone _ _ _ => GStream [FDocDone]
  | PEnd _ => GEnd
  end.

Lemma gof_complete rd e fs t :
  option_map GStream (complete (map frame_of fs ++ [FDoc])) = Some (gof (pcomplete rd e fs t)).
Proof. destruct fs as [|[a tg ri|a tg re|a tg re k] r]; reflexivity. Qed.

Lemma node_ok_frames fs : node_ok (map frame_of fs ++ [FDoc]) = true.
Proof. destruct fs as [|[a tg ri|a tg re|a tg re k] r]; reflexivity. Qed.

Lemma gstep_pstep s e : gstep (gof s) e = option_map gof (pstep s e).
Proof.
  destruct e, s; cbn [gof gstep on_stream pstep option_map]; try reflexivity;
    try (destruct fs as [|[a' tg' ri|a' tg' re|a' tg' re k] r]; reflexivity);
    try (apply gof_complete);
    try (rewrite node_ok_frames; reflexivity).
  - destruct fs as [|[a' tg' ri|a' tg' re|a' tg' re k] r]; cbn [map app]; try reflexivity.
    apply gof_complete.
  - destruct fs as [|[a' tg' ri|a' tg' re|a' tg' re k] r]; cbn [map app]; try reflexivity.
    apply gof_complete.
Qed.

Lemma grun_prun evs : forall s, grun (gof s) evs = option_map gof (prun s evs).
Proof.
  induction evs as [|e r IH]; intros s; cbn [grun prun option_map]; [reflexivity|].
  rewrite gstep_pstep. destruct (pstep s e) as [s1|]; cbn [option_map]; [apply IH|reflexivity].
Qed.

Theorem accepted_iff_parses evs :
  grun GInit evs = Some GEnd <-> exists ds, parse_events evs = Some ds.
Proof.
  change GInit with (gof PInit). rewrite grun_prun. unfold parse_events. split.
  - destruct (prun PInit evs) as [[| | | |ds]|]; cbn [option_map gof]; try discriminate. eauto.
  - intros [ds H]. destruct (prun PInit evs) as [[| | | |ds']|]; try discriminate. reflexivity.
Qed.

Theorem accepted_decomposes evs :
  grun GInit evs = Some GEnd -> exists ds, parse_events evs = Some ds /\ evs = stream_of ds.
Proof.
  intros H. apply accepted_iff_parses in H. destruct H as [ds H]. exists ds. split; [exact H|].
  apply parse_events_sound; exact H.
Qed.

Theorem parse_events_complete ds : parse_events (stream_of ds) <> None.
Proof.
  (* every flattened forest is accepted: through the loader-independent acceptor *)
  intros H.
  assert (A : forall t k stk, node_ok stk = true ->
             grun (GStream stk) (events_of t ++ k) =
             match complete stk with Some stk' => grun (GStream stk') k | None => None end).
  { induction t as [v st a tg|i|a tg l IH|a tg l IH] using etree_ind2; intros k stk Hok.
    - cbn [events_of app grun gstep on_stream]. destruct (complete stk); reflexivity.
    - cbn [events_of app grun gstep on_stream]. destruct (complete stk); reflexivity.
    - cbn [events_of]. rewrite <- app_comm_cons. cbn [grun gstep on_stream]. rewrite Hok.
      rewrite <- app_assoc.
      assert (B : forall k', grun (GStream (FSeq :: stk)) (events_items events_of l ++ k') = grun (GStream (FSeq :: stk)) k').
      { induction IH as [|x r Hx _ IHr]; intros k'; [reflexivity|].
        cbn [events_items]. rewrite <- app_assoc. rewrite Hx by reflexivity. cbn [complete]. apply IHr. }
      rewrite B. cbn [app grun gstep on_stream]. destruct (complete stk); reflexivity.
    - cbn [events_of]. rewrite <- app_comm_cons. cbn [grun gstep on_stream]. rewrite Hok.
      rewrite <- app_assoc.
      assert (B : forall k', grun (GStream (FMapKey :: stk)) (events_pairs events_of l ++ k') = grun (GStream (FMapKey :: stk)) k').
      { induction IH as [|[kx vx] r [Hk Hv] _ IHr]; intros k'; [reflexivity|].
        cbn [fst snd] in Hk, Hv. cbn [events_pairs]. rewrite <- !app_assoc.
        rewrite Hk by reflexivity. cbn [complete]. rewrite Hv by reflexivity. cbn [complete]. apply IHr. }
      rewrite B. cbn [app grun gstep on_stream]. destruct (complete stk); reflexivity. }
  assert (D : forall ds k, grun (GStream []) (events_docs ds ++ k) = grun (GStream []) k).
  { induction ds0 as [|[e t] r IHr]; intros k; [reflexivity|].
    cbn [events_docs]. unfold events_doc. cbn [fst snd]. rewrite <- app_assoc, <- app_comm_cons. cbn [grun gstep on_stream].
    rewrite <- app_assoc. rewrite A by reflexivity. cbn [complete].
    rewrite <- app_comm_cons. cbn [grun gstep on_stream app]. apply IHr. }
  assert (E : grun GInit (stream_of ds) = Some GEnd).
  { unfold stream_of. cbn [grun gstep]. rewrite D. reflexivity. }
  apply accepted_iff_parses in E. destruct E as [ds' E]. congruence.
Qed.

(* ---------------------------------------------------------------------------------------------- *)
(* every accepted event list loads, without panic, to the specification's documents               *)
(* ---------------------------------------------------------------------------------------------- *)
Theorem accepted_loads_spec evs :
  grun GInit evs = Some GEnd ->
  exists ds ld, parse_events evs = Some ds /\ evs = stream_of ds /\
                load_events evs l0 = LOk ld /\ rev (l_docs ld) = spec_load ds /\ l_stack ld = [] /\ l_keys ld = [].
Proof.
  intros H. destruct (accepted_decomposes evs H) as [ds [Hp He]].
  destruct (loader_docs_spec ds) as [ld [Hl [Hd [Hs Hk]]]].
  exists ds, ld. subst evs. repeat split; assumption || reflexivity.
Qed.

Theorem accepted_never_panics evs n : grun GInit evs = Some GEnd -> load_events evs l0 <> LPanic n.
Proof.
  intros H. destruct (accepted_loads_spec evs H) as [ds [ld [_ [_ [Hl _]]]]]. rewrite Hl. discriminate.
Qed.

(* the executable oracle agrees with the loader on everything the grammar accepts *)
Theorem oracle_agrees evs :
  grun GInit evs = Some GEnd ->
  exists ld, load_events evs l0 = LOk ld /\ spec_of_events evs = Some (rev (l_docs ld)).
Proof.
  intros H. destruct (accepted_loads_spec evs H) as [ds [ld [Hp [_ [Hl [Hd _]]]]]].
  exists ld. split; [exact Hl|]. unfold spec_of_events. rewrite Hp. cbn [option_map]. rewrite Hd. reflexivity.
Qed.
