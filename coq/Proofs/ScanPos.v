(* Position exactness of the scanner model over the string input (C12): the scanner's mark is, at every moment,
   the true position of the number of characters consumed so far - for every NUL-free input - and every token
   span is made of such marks.  Partial-correctness calculus [swp]: errors, fuel exhaustion and (separately
   excluded, see ScanSafe*.v) panics are not the concern here. *)
From Coq Require Import List NArith ZArith Bool Arith Lia.
Import ListNotations.
Require Import Parser SBase SPrim SDir SScalar SFetch Positions.
Local Open Scope nat_scope.

Notation sst := (sc strin).
Notation SM := (@M strin).

(* ---------------- remaining characters ---------------- *)
Definition rem (s : sst) : list chr := si_chars (sc_in s).
Definition rnth (s : sst) (i : nat) : chr := nth i (rem s) 0%N.

Section Calculus.
(* [E]: what must hold of the marker of an error the computation may end with *)
Variable E : marker -> Prop.

Definition swp {A} (m : SM A) (Q : A -> sst -> Prop) (s : sst) : Prop :=
  match m s with
  | Ok (a, s') => Q a s'
  | Err _ mk => E mk
  | _ => True
  end.

Lemma swp_ret {A} (a : A) (Q : A -> sst -> Prop) s : Q a s -> swp (ret a) Q s.
Proof. auto. Qed.
Lemma swp_bind {A B} (m : SM A) (f : A -> SM B) (Q : B -> sst -> Prop) s :
  swp m (fun a s' => swp (f a) Q s') s -> swp (bind m f) Q s.
Proof. unfold swp, bind. destruct (m s) as [[a s']| | |]; auto. Qed.
Lemma swp_mono {A} (m : SM A) (Q Q' : A -> sst -> Prop) s :
  swp m Q s -> (forall a s', Q a s' -> Q' a s') -> swp m Q' s.
Proof. unfold swp. destruct (m s) as [[a s']| | |]; auto. Qed.
Lemma swp_err_weaken_dummy : True. Proof. exact I. Qed.
Lemma swp_fail {A} site mk (Q : A -> sst -> Prop) s : E mk -> swp (@fail strin A site mk) Q s.
Proof. intros H. exact H. Qed.
Lemma swp_panic {A} site (Q : A -> sst -> Prop) s : swp (@panic strin A site) Q s.
Proof. exact I. Qed.
Lemma swp_oof {A} (Q : A -> sst -> Prop) s : swp (@oof strin A) Q s.
Proof. exact I. Qed.
Lemma swp_get (Q : sst -> sst -> Prop) s : Q s s -> swp get Q s.
Proof. auto. Qed.
Lemma swp_gets {A} (f : sst -> A) (Q : A -> sst -> Prop) s : Q (f s) s -> swp (gets f) Q s.
Proof. auto. Qed.
Lemma swp_put s0 (Q : unit -> sst -> Prop) s : Q tt s0 -> swp (put s0) Q s.
Proof. auto. Qed.
Lemma swp_modify f (Q : unit -> sst -> Prop) s : Q tt (f s) -> swp (modify f) Q s.
Proof. auto. Qed.

(* input primitives of the string back-end: lookahead only bumps the counter; peek reads (NUL beyond the end);
   skip drops one character *)
Lemma swp_look n (Q : unit -> sst -> Prop) s :
  (forall s', rem s' = rem s -> s' = set_in (sc_in s') s -> Q tt s') -> swp (look str_ops n) Q s.
Proof. intros HQ. unfold swp, look. cbn. apply HQ; reflexivity. Qed.
Lemma swp_peekn n (Q : chr -> sst -> Prop) s : Q (rnth s n) s -> swp (peekn str_ops n) Q s.
Proof. intros HQ. exact HQ. Qed.
Lemma swp_peek (Q : chr -> sst -> Prop) s : Q (rnth s 0) s -> swp (SPrim.peek str_ops) Q s.
Proof. intros HQ. exact HQ. Qed.
Lemma swp_look_ch (Q : chr -> sst -> Prop) s :
  (forall s', rem s' = rem s -> s' = set_in (sc_in s') s -> Q (rnth s' 0) s') -> swp (look_ch str_ops) Q s.
Proof. intros HQ. unfold look_ch. apply swp_bind. apply swp_look. intros s' H1 H2. apply swp_peek. apply HQ; assumption. Qed.
Lemma swp_in_skip (Q : unit -> sst -> Prop) s :
  (forall s', rem s' = tl (rem s) -> s' = set_in (sc_in s') s -> Q tt s') -> swp (in_skip str_ops) Q s.
Proof. intros HQ. unfold swp, in_skip, modify. cbn. apply HQ; reflexivity. Qed.
Lemma swp_in_skip_n n (Q : unit -> sst -> Prop) s :
  (forall s', rem s' = skipn n (rem s) -> s' = set_in (sc_in s') s -> Q tt s') -> swp (in_skip_n str_ops n) Q s.
Proof. intros HQ. unfold swp, in_skip_n. cbn. apply HQ; reflexivity. Qed.
Lemma swp_raw_read (Q : option chr -> sst -> Prop) s :
  (forall s', match rem s with
              | c :: r => if is_breakz c then rem s' = rem s else True
              | [] => rem s' = rem s
              end -> True) ->
  match rem s with
  | [] => Q None s
  | c :: r => if is_breakz c then Q None s
              else forall s', rem s' = r -> s' = set_in (sc_in s') s -> Q (Some c) s'
  end -> swp (raw_read str_ops) Q s.
Proof.
  intros _ HQ. unfold swp, raw_read. cbn. unfold rem in HQ. destruct (si_chars (sc_in s)) as [|c r]; [destruct s; exact HQ|].
  destruct (is_breakz c); [destruct s; exact HQ|]. apply HQ; reflexivity.
Qed.
Lemma swp_buf_is_empty (Q : bool -> sst -> Prop) s : (forall b, Q b s) -> swp (buf_is_empty str_ops) Q s.
Proof. intros HQ. apply HQ. Qed.
Lemma swp_assert_buflen n site (Q : unit -> sst -> Prop) s : Q tt s -> swp (assert_buflen str_ops n site) Q s.
Proof. intros HQ. unfold swp, assert_buflen. destruct (Nat.ltb _ n); [exact I|exact HQ]. Qed.
End Calculus.

(* ---------------- the position invariant ---------------- *)
Section Pos.
Variable orig : list chr.
Hypothesis no_nul : Forall (fun c => c <> 0%N) orig.

(* [pre] characters have been consumed; the mark is the true position after them *)
Definition MarkAt (pre : list chr) (s : sst) : Prop :=
  orig = pre ++ rem s
  /\ m_index (sc_mark s) = N.of_nat (length pre)
  /\ (m_line (sc_mark s), m_col (sc_mark s)) = pos_go orig (length pre) 1 0.
Definition MarkOK (s : sst) : Prop := exists pre, MarkAt pre s.

(* a marker is a true position of [orig] *)
Definition true_mark (m : marker) : Prop := marker_ok orig (m_index m) (m_line m) (m_col m) = true.
Definition true_span (sp : span) : Prop := true_mark (sp_start sp) /\ true_mark (sp_end sp).
Definition true_tok (t : token) : Prop := true_span (fst t).

Lemma markok_true s : MarkOK s -> true_mark (sc_mark s).
Proof.
  intros [pre (E & I & P)]. unfold true_mark, marker_ok. rewrite I.
  apply andb_true_iff. split.
  - apply N.leb_le. rewrite E, app_length. lia.
  - apply orb_true_iff. right. unfold pos_at. rewrite Nat2N.id.
    rewrite <- P. rewrite !N.eqb_refl. reflexivity.
Qed.

(* one-character steps of the recount *)
Lemma pos_go_0 (s : list chr) l k : pos_go s 0 l k = (l, k).
Proof. destruct s; reflexivity. Qed.

Definition starts_lf (l : list chr) : bool := match l with 10%N :: _ => true | _ => false end.
Lemma match_lf {A} (l : list chr) (a b : A) : match l with 10%N :: _ => a | _ => b end = if starts_lf l then a else b.
Proof.
  destruct l as [|y r]; [reflexivity|]. destruct y as [|p]; [reflexivity|].
  repeat (destruct p as [p|p|]; try reflexivity).
Qed.

Lemma pos_go_S (x : chr) (r : list chr) n l k :
  pos_go (x :: r) (S n) l k =
  if (x =? 13)%N then (if starts_lf r then pos_go r n l (k + 1)%N else pos_go r n (l + 1)%N 0%N)
  else if (x =? 10)%N then pos_go r n (l + 1)%N 0%N else pos_go r n l (k + 1)%N.
Proof. cbn [pos_go]. rewrite match_lf. reflexivity. Qed.

Lemma pos_go_app_step pre c rest l0 k0 :
  pos_go (pre ++ c :: rest) (S (length pre)) l0 k0 =
  let '(l, k) := pos_go (pre ++ c :: rest) (length pre) l0 k0 in
  if (c =? 13)%N then (if starts_lf rest then (l, (k + 1)%N) else ((l + 1)%N, 0%N))
  else if (c =? 10)%N then ((l + 1)%N, 0%N) else (l, (k + 1)%N).
Proof.
  revert l0 k0; induction pre as [|x pre IH]; intros l0 k0.
  - cbn [app length]. rewrite pos_go_S, !pos_go_0.
    destruct (c =? 13)%N; [destruct (starts_lf rest); reflexivity|]. destruct (c =? 10)%N; reflexivity.
  - cbn [app length]. rewrite !pos_go_S.
    destruct (x =? 13)%N; [destruct (starts_lf (pre ++ c :: rest)); apply IH|]. destruct (x =? 10)%N; apply IH.
Qed.

(* consuming one ordinary character (not a break): index and column advance by one *)
Lemma markat_step_plain pre c r s s' :
  MarkAt pre s -> rem s = c :: r -> is_break c = false ->
  rem s' = r -> sc_mark s' = adv 1 (sc_mark s) -> MarkAt (pre ++ [c]) s'.
Proof.
  intros (E & I & P) Hr Hb Hr' Hm. unfold MarkAt. rewrite Hr', Hm. cbn [adv m_index m_line m_col].
  rewrite Hr in E. split; [rewrite <- app_assoc; exact E|]. split; [rewrite app_length, I; cbn; lia|].
  rewrite app_length. cbn [length]. rewrite Nat.add_1_r. rewrite E in P |- *. rewrite pos_go_app_step. match goal with |- _ = (let '(l, k) := ?Y in _) => replace Y with (m_line (sc_mark s), m_col (sc_mark s)) by (exact P) end.
  unfold is_break in Hb. apply orb_false_iff in Hb as [H10 H13]. rewrite H13, H10. reflexivity.
Qed.

(* consuming LF, or a CR that is not followed by LF: a new line *)
Lemma markat_step_nl pre c r s s' :
  MarkAt pre s -> rem s = c :: r -> (c = 10%N \/ (c = 13%N /\ hd 0%N r <> 10%N)) ->
  rem s' = r -> sc_mark s' = nlm (sc_mark s) -> MarkAt (pre ++ [c]) s'.
Proof.
  intros (E & I & P) Hr Hc Hr' Hm. unfold MarkAt. rewrite Hr', Hm. cbn [nlm m_index m_line m_col].
  rewrite Hr in E. split; [rewrite <- app_assoc; exact E|]. split; [rewrite app_length, I; cbn; lia|].
  rewrite app_length. cbn [length]. rewrite Nat.add_1_r. rewrite E in P |- *. rewrite pos_go_app_step. match goal with |- _ = (let '(l, k) := ?Y in _) => replace Y with (m_line (sc_mark s), m_col (sc_mark s)) by (exact P) end.
  destruct Hc as [->|[-> Hn]]; [reflexivity|]. change (13 =? 13)%N with true. cbv iota.
  assert (Hs : starts_lf r = false).
  { destruct r as [|y r']; [reflexivity|]. cbn in Hn. unfold starts_lf. destruct y as [|p]; [reflexivity|].
    repeat (destruct p as [p|p|]; try reflexivity). congruence. }
  rewrite Hs. reflexivity.
Qed.

(* consuming the CR of a CR LF pair: still on the old line, one column further *)
Lemma markat_step_cr_of_crlf pre r s s' :
  MarkAt pre s -> rem s = 13%N :: 10%N :: r ->
  rem s' = 10%N :: r -> sc_mark s' = adv 1 (sc_mark s) -> MarkAt (pre ++ [13%N]) s'.
Proof.
  intros (E & I & P) Hr Hr' Hm. unfold MarkAt. rewrite Hr', Hm. cbn [adv m_index m_line m_col].
  rewrite Hr in E. split; [rewrite <- app_assoc; exact E|]. split; [rewrite app_length, I; cbn; lia|].
  rewrite app_length. cbn [length]. rewrite Nat.add_1_r. rewrite E in P |- *. rewrite pos_go_app_step. match goal with |- _ = (let '(l, k) := ?Y in _) => replace Y with (m_line (sc_mark s), m_col (sc_mark s)) by (exact P) end.
  reflexivity.
Qed.

(* characters of a NUL-free input that are still to come are never NUL: a NUL seen by peek is the end *)
Lemma rem_no_nul pre s : MarkAt pre s -> Forall (fun c => c <> 0%N) (rem s).
Proof.
  intros (E & _). rewrite E in no_nul. apply Forall_app in no_nul. tauto.
Qed.
Lemma peek_z_is_end pre s i : MarkAt pre s -> rnth s i = 0%N -> length (rem s) <= i.
Proof.
  intros HM Hz. pose proof (rem_no_nul pre s HM) as HF. unfold rnth in Hz.
  destruct (Nat.lt_ge_cases i (length (rem s))) as [Hlt|Hge]; [|exact Hge].
  exfalso. rewrite Forall_forall in HF. apply (HF (nth i (rem s) 0%N)); [apply nth_In; exact Hlt|exact Hz].
Qed.
End Pos.

(* ---------------- rules for the mark primitives, under the position invariant ---------------- *)
Section PosRules.
Variable orig : list chr.
Hypothesis no_nul : Forall (fun c => c <> 0%N) orig.
Notation E := (true_mark orig).
Notation pwp := (swp (true_mark orig)).
Notation MarkAt := (MarkAt orig).
Notation MarkOK := (MarkOK orig).

(* what the character-level functions leave alone *)
Definition pkeeps (s s' : sst) : Prop := sc_tokens s' = sc_tokens s /\ sc_sks s' = sc_sks s /\ sc_tokens_parsed s' = sc_tokens_parsed s.
Lemma pkeeps_refl s : pkeeps s s. Proof. repeat split. Qed.
Lemma pkeeps_trans a b c : pkeeps a b -> pkeeps b c -> pkeeps a c.
Proof. intros (A1 & A2 & A3) (B1 & B2 & B3). repeat split; congruence. Qed.

Lemma in_keeps s s' : s' = set_in (sc_in s') s -> pkeeps s s' /\ sc_mark s' = sc_mark s.
Proof. intros ->. cbn. repeat split. Qed.

(* errors raised at the current mark are at a true position *)
Lemma markok_err s : MarkOK s -> E (sc_mark s).
Proof. apply markok_true. Qed.

(* skip one ordinary (non-break) character: skip_blank, skip_non_blank *)
Lemma pwp_skip_plain (k : SM unit) pre c r (Q : unit -> sst -> Prop) s :
  (k = skip_blank str_ops \/ k = skip_non_blank str_ops) ->
  MarkAt pre s -> rem s = c :: r -> is_break c = false ->
  (forall s', MarkAt (pre ++ [c]) s' -> rem s' = r -> pkeeps s s' -> Q tt s') -> pwp k Q s.
Proof.
  intros Hk HM Hr Hb HQ. destruct Hk as [-> | ->].
  - unfold skip_blank. apply swp_bind. apply swp_in_skip. intros s1 R1 F1. unfold adv_mark. apply swp_modify.
    destruct (in_keeps _ _ F1) as [K1 M1]. apply HQ.
    + eapply markat_step_plain; [exact HM|exact Hr|exact Hb| |].
      * cbn. unfold rem in *. cbn. rewrite R1, Hr. reflexivity.
      * cbn. rewrite M1. reflexivity.
    + unfold rem in *. cbn. rewrite R1, Hr. reflexivity.
    + destruct K1 as (A & B & C). repeat split; cbn; assumption.
  - unfold skip_non_blank. apply swp_bind. apply swp_in_skip. intros s1 R1 F1.
    apply swp_bind. unfold adv_mark. apply swp_modify. apply swp_modify.
    destruct (in_keeps _ _ F1) as [K1 M1]. apply HQ.
    + eapply markat_step_plain; [exact HM|exact Hr|exact Hb| |].
      * unfold rem in *. cbn. rewrite R1, Hr. reflexivity.
      * cbn. rewrite M1. reflexivity.
    + unfold rem in *. cbn. rewrite R1, Hr. reflexivity.
    + destruct K1 as (A & B & C). repeat split; cbn; assumption.
Qed.

(* skip_nl on LF or on a CR not followed by LF *)
Lemma pwp_skip_nl pre c r (Q : unit -> sst -> Prop) s :
  MarkAt pre s -> rem s = c :: r -> (c = 10%N \/ (c = 13%N /\ hd 0%N r <> 10%N)) ->
  (forall s', MarkAt (pre ++ [c]) s' -> rem s' = r -> pkeeps s s' -> Q tt s') -> pwp (skip_nl str_ops) Q s.
Proof.
  intros HM Hr Hc HQ. unfold skip_nl. apply swp_bind. apply swp_in_skip. intros s1 R1 F1. apply swp_modify.
  destruct (in_keeps _ _ F1) as [K1 M1]. apply HQ.
  - eapply markat_step_nl; [exact HM|exact Hr|exact Hc| |].
    + unfold rem in *. cbn. rewrite R1, Hr. reflexivity.
    + cbn. rewrite M1. reflexivity.
  - unfold rem in *. cbn. rewrite R1, Hr. reflexivity.
  - destruct K1 as (A & B & C). repeat split; cbn; assumption.
Qed.

(* skip_blank on the CR of a CR LF pair (skip_break / skip_linebreak do this) *)
Lemma pwp_skip_cr pre r (Q : unit -> sst -> Prop) s :
  MarkAt pre s -> rem s = 13%N :: 10%N :: r ->
  (forall s', MarkAt (pre ++ [13%N]) s' -> rem s' = 10%N :: r -> pkeeps s s' -> Q tt s') -> pwp (skip_blank str_ops) Q s.
Proof.
  intros HM Hr HQ. unfold skip_blank. apply swp_bind. apply swp_in_skip. intros s1 R1 F1. unfold adv_mark. apply swp_modify.
  destruct (in_keeps _ _ F1) as [K1 M1]. apply HQ.
  - eapply markat_step_cr_of_crlf; [exact HM|exact Hr| |].
    + unfold rem in *. cbn. rewrite R1, Hr. reflexivity.
    + cbn. rewrite M1. reflexivity.
  - unfold rem in *. cbn. rewrite R1, Hr. reflexivity.
  - destruct K1 as (A & B & C). repeat split; cbn; assumption.
Qed.

(* a whole line break at the head of the remaining input: LF, CR, or CR LF, consumed as one unit by skip_break *)
Definition is_break_unit (b : list chr) : Prop := b = [10%N] \/ b = [13%N] \/ b = [13%N; 10%N].

Lemma pwp_skip_break pre (Q : unit -> sst -> Prop) s :
  MarkAt pre s -> is_break (rnth s 0) = true ->
  (forall s' b rest, rem s = b ++ rest -> is_break_unit b -> (b = [13%N] -> hd 0%N rest <> 10%N) ->
                     MarkAt (pre ++ b) s' -> rem s' = rest -> pkeeps s s' -> Q tt s') ->
  pwp (skip_break str_ops) Q s.
Proof.
  intros HM Hb HQ. unfold skip_break.
  apply swp_bind. apply swp_peek. apply swp_bind. apply swp_peekn. rewrite Hb. apply swp_bind. apply swp_ret.
  unfold rnth in *. destruct (rem s) as [|c r] eqn:Hr; [cbn in Hb; discriminate|]. cbn [nth] in *.
  unfold is_break in Hb. apply orb_true_iff in Hb. apply swp_bind.
  destruct (N.eqb_spec c 13) as [->|Hn13].
  - destruct r as [|d r']; cbn [nth].
    + change ((13 =? 13)%N && (0 =? 10)%N) with false. apply swp_ret.
      eapply pwp_skip_nl; [exact HM|exact Hr|right; split; [reflexivity|cbn; discriminate]|].
      intros s' M' R' K'. apply (HQ s' [13%N] []); auto; [right; left; reflexivity|cbn; discriminate].
    + destruct (N.eqb_spec d 10) as [->|Hn10].
      * change ((13 =? 13)%N && (10 =? 10)%N) with true.
        eapply (pwp_skip_cr pre r'); [exact HM|exact Hr|].
        intros s1 M1 R1 K1. eapply pwp_skip_nl; [exact M1|exact R1|left; reflexivity|].
        intros s2 M2 R2 K2. apply (HQ s2 [13%N; 10%N] r'); auto.
        -- right; right; reflexivity.
        -- discriminate.
        -- rewrite <- app_assoc in M2. exact M2.
        -- eapply pkeeps_trans; eauto.
      * cbn [andb]. apply swp_ret.
        eapply pwp_skip_nl; [exact HM|exact Hr|right; split; [reflexivity|cbn; exact Hn10]|].
        intros s' M' R' K'. apply (HQ s' [13%N] (d :: r')); auto; [right; left; reflexivity].
  - assert (Ec : c = 10%N) by (destruct Hb as [H|H]; [apply N.eqb_eq in H; exact H|discriminate H]). subst c.
    change ((10 =? 13)%N && (nth 1 (10%N :: r) 0%N =? 10)%N) with false. apply swp_ret.
    eapply pwp_skip_nl; [exact HM|exact Hr|left; reflexivity|].
    intros s' M' R' K'. apply (HQ s' [10%N] r); auto; [left; reflexivity|discriminate].
Qed.
End PosRules.
