(* C07 at text level: for EVERY text, the document loader on the whole model pipeline (PipeL.run_load: scanner, Parser::load,
   loader) either reports an error / (never, by C01) an abnormal end, or returns exactly the specified documents of the
   trees that the delivered events decompose into. *)
From Coq Require Import List NArith Bool Lia.
Import ListNotations.
Require Import Parser SBase SFetch Pipe PipeL Grammar BuildDocs Loader LoadPipeline C02run.

Theorem text_load_spec (s : list N) docs :
  run_load s = LDocs docs ->
  exists evs ds, parse_events evs = Some ds /\ evs = stream_of ds /\ docs = spec_load ds.
Proof.
  unfold run_load. destruct (scan_all _ _ _ _ _) as [toks se].
  match goal with |- context [parse_load ?f ?p se []] => destruct (parse_load f p se []) as [evs r] eqn:E end.
  destruct r; try discriminate.
  intros H.
  destruct (pipeline_load_spec toks false se _ evs E) as (ds & ld & H1 & H2 & H3 & H4).
  rewrite H3 in H. inversion H; subst docs. exists evs, ds. repeat split; assumption.
Qed.
