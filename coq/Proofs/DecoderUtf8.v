(* C18 — the UTF-8 decoder model (Model/Decoders.v: u8_raw) meets the per-call specification of
   Proofs/DecoderLoop.v with respect to the one-shot specification utf8_next (Spec/EncodingSpec.v).

     valid_head_utf8_head     the fast path's notion of "complete well-formed sequence" (announced length, then
                              the RFC 3629 decoder) is the specification's (some prefix is accepted)
     maximal_subpart_lead     Table 3-7 evaluated for a given first byte
     row_complete_valid       a sequence that follows a row of Table 3-7 is accepted by the RFC 3629 decoder
     u8_pending_malformed     the state machine of Utf8Decoder, after a leading byte, reports exactly the maximal
                              subpart of Table 3-7 for a sequence that is not well formed
     u8_call_ok               the per-call specification                                                *)
From Coq Require Import List NArith Bool Lia Arith.
Import ListNotations.
Require Import Consts Decode TagSpec EncodingSpec Decoders DecodeProofs TagUtf8 DecoderLoop.
Open Scope N_scope.
Arguments N.add : simpl never.
Arguments N.sub : simpl never.
Arguments N.mul : simpl never.
Arguments N.div : simpl never.
Arguments N.modulo : simpl never.
Arguments N.eqb : simpl never.
Arguments N.ltb : simpl never.
Arguments N.leb : simpl never.
Arguments N.max : simpl never.
Arguments N.to_nat : simpl never.
Arguments N.of_nat : simpl never.

(* ================================================================================================ *)
(* 1. valid_head (model) = utf8_head (specification)                                                 *)
(* ================================================================================================ *)
Lemma sequence_length_range : forall b k, sequence_length b = Some k -> (1 <= k <= 4)%nat.
Proof.
  intros b k H. unfold sequence_length in H.
  repeat match type of H with
         | (if ?c then _ else _) = _ => destruct c; [inversion H; lia|]
         end. discriminate.
Qed.

Lemma firstn_cons_S : forall (b : N) tl k, firstn (S k) (b :: tl) = b :: firstn k tl.
Proof. reflexivity. Qed.

(* if a prefix is accepted, it is the prefix of the announced length *)
Lemma decode_prefix_announced : forall j b tl c,
    utf8_decode (firstn j (b :: tl)) = Some c ->
    exists k, sequence_length b = Some k /\ firstn j (b :: tl) = firstn k (b :: tl) /\ (k <= j)%nat /\ (k <= S (length tl))%nat.
Proof.
  intros j b tl c H. destruct j as [|j]; [discriminate|].
  rewrite firstn_cons_S in H. pose proof (utf8_decode_length _ _ _ H) as Hs.
  exists (S (length (firstn j tl))). split; [exact Hs|].
  rewrite firstn_length. rewrite !firstn_cons_S.
  split; [|lia]. f_equal.
  destruct (Nat.le_ge_cases j (length tl)) as [Hle|Hge].
  - rewrite Nat.min_l by exact Hle. reflexivity.
  - rewrite Nat.min_r by exact Hge. rewrite !firstn_all2 by lia. reflexivity.
Qed.

Lemma valid_head_utf8_head : forall bs,
    utf8_head bs = match valid_head bs with Some (c, k) => Some (c, N.of_nat k) | None => None end.
Proof.
  intros [|b tl]; [reflexivity|].
  unfold valid_head.
  destruct (sequence_length b) as [k|] eqn:Hs.
  - pose proof (sequence_length_range _ _ Hs) as Hk.
    (* no other length is accepted *)
    assert (Hother : forall j c, utf8_decode (firstn j (b :: tl)) = Some c -> firstn j (b :: tl) = firstn k (b :: tl) /\ (k <= j)%nat).
    { intros j c H. destruct (decode_prefix_announced _ _ _ _ H) as (k' & Hs' & E & Hle & _).
      rewrite Hs in Hs'. inversion Hs'; subst k'. split; assumption. }
    destruct (utf8_decode (firstn k (b :: tl))) as [c|] eqn:Hd.
    + unfold utf8_head.
      assert (Hk4 : k = 1%nat \/ k = 2%nat \/ k = 3%nat \/ k = 4%nat) by lia.
      destruct (utf8_decode (firstn 1 (b :: tl))) as [c1|] eqn:E1.
      { destruct (Hother _ _ E1) as [E Hle]. assert (k = 1%nat) by lia. subst k. rewrite E1 in Hd. inversion Hd. reflexivity. }
      destruct (utf8_decode (firstn 2 (b :: tl))) as [c2|] eqn:E2.
      { destruct (Hother _ _ E2) as [E Hle]. rewrite E, Hd in E2. inversion E2; subst c2.
        assert (k = 2%nat) by (destruct Hk4 as [ -> | [ -> | [ -> | -> ] ] ]; [rewrite Hd in E1; discriminate|reflexivity|lia|lia]).
        subst k. reflexivity. }
      destruct (utf8_decode (firstn 3 (b :: tl))) as [c3|] eqn:E3.
      { destruct (Hother _ _ E3) as [E Hle]. rewrite E, Hd in E3. inversion E3; subst c3.
        assert (k = 3%nat)
          by (destruct Hk4 as [ -> | [ -> | [ -> | -> ] ] ]; [rewrite Hd in E1; discriminate|rewrite Hd in E2; discriminate|reflexivity|lia]).
        subst k. reflexivity. }
      destruct Hk4 as [ -> | [ -> | [ -> | -> ] ] ]; [congruence|congruence|congruence|].
      rewrite Hd. reflexivity.
    + unfold utf8_head.
      assert (Hnone : forall j, utf8_decode (firstn j (b :: tl)) = None).
      { intros j. destruct (utf8_decode (firstn j (b :: tl))) as [c|] eqn:E; [|reflexivity].
        destruct (Hother _ _ E) as [E' _]. rewrite E', Hd in E. discriminate. }
      rewrite !Hnone. reflexivity.
  - unfold utf8_head.
    assert (Hnone : forall j, utf8_decode (firstn j (b :: tl)) = None).
    { intros j. destruct (utf8_decode (firstn j (b :: tl))) as [c|] eqn:E; [|reflexivity].
      destruct (decode_prefix_announced _ _ _ _ E) as (k' & Hs' & _). congruence. }
    rewrite !Hnone. reflexivity.
Qed.

(* ================================================================================================ *)
(* 2. Table 3-7                                                                                      *)
(* ================================================================================================ *)
Ltac decide_cmp :=
  repeat match goal with
         | |- context [?a <=? ?b] =>
             first [rewrite (proj2 (N.leb_le a b)) by lia | rewrite (proj2 (N.leb_gt a b)) by lia]
         | |- context [?a <? ?b] =>
             first [rewrite (proj2 (N.ltb_lt a b)) by lia | rewrite (proj2 (N.ltb_ge a b)) by lia]
         | |- context [?a =? ?b] =>
             first [rewrite (proj2 (N.eqb_eq a b)) by lia | rewrite (proj2 (N.eqb_neq a b)) by lia]
         end.

Lemma prefix_match_cons : forall r row b bs,
    prefix_match (r :: row) (b :: bs) = if in_range r b then 1 + prefix_match row bs else 0.
Proof. reflexivity. Qed.

Lemma prefix_match_nil_row : forall bs, prefix_match [] bs = 0.
Proof. reflexivity. Qed.

Lemma prefix_match_nil : forall row, prefix_match row [] = 0.
Proof. intros [|r row]; reflexivity. Qed.

Definition rlen (row : list (N * N)) : N := N.of_nat (length row).
Lemma rlen_cons : forall r row, rlen (r :: row) = rlen row + 1.
Proof. intros r row. unfold rlen. cbn [length]. lia. Qed.

Lemma prefix_match_le_row : forall row bs, prefix_match row bs <= rlen row.
Proof.
  induction row as [|r row IH]; intros bs; [cbn; lia|].
  destruct bs as [|b bs]; [rewrite prefix_match_nil; lia|].
  rewrite prefix_match_cons, rlen_cons. destruct (in_range r b); [specialize (IH bs)|]; lia.
Qed.

Lemma prefix_match_le : forall row bs, prefix_match row bs <= nlen bs.
Proof.
  induction row as [|r row IH]; intros bs; [cbn; lia|].
  destruct bs as [|b bs]; [rewrite prefix_match_nil; lia|].
  rewrite prefix_match_cons, nlen_cons. destruct (in_range r b); [specialize (IH bs)|]; lia.
Qed.

(* the row of Table 3-7 a first byte selects, without its first column; None = no row *)
Definition tail_row (b : N) : option (list (N * N)) :=
  if b <? 194 then None
  else if b <? 224 then Some [cont]
  else if b <? 240 then Some [(if b =? 224 then 160 else 128, if b =? 237 then 159 else 191); cont]
  else if b <? 245 then Some [(if b =? 240 then 144 else 128, if b =? 244 then 143 else 191); cont; cont]
  else None.

Lemma lead_classes : forall b, 128 <= b ->
    b < 194 \/ (194 <= b < 224) \/ b = 224 \/ (225 <= b < 237) \/ b = 237 \/ (238 <= b < 240) \/
    b = 240 \/ (241 <= b < 244) \/ b = 244 \/ 245 <= b.
Proof. intros b H. lia. Qed.

Lemma maximal_subpart_lead : forall b tl, 128 <= b ->
    maximal_subpart (b :: tl) = match tail_row b with Some tr => 1 + prefix_match tr tl | None => 1 end.
Proof.
  intros b tl Hb. unfold maximal_subpart, utf8_table. cbn [fold_right].
  rewrite !prefix_match_cons. unfold tail_row. unfold in_range, cont. cbn [fst snd].
  destruct (lead_classes b Hb) as [H|[H|[H|[H|[H|[H|[H|[H|[H|H]]]]]]]]];
    decide_cmp; cbn [andb]; rewrite ?prefix_match_nil_row; lia.
Qed.

Lemma maximal_subpart_le4 : forall bs, maximal_subpart bs <= 4.
Proof.
  intros bs. unfold maximal_subpart, utf8_table. cbn [fold_right].
  repeat match goal with
         | |- context [prefix_match ?row bs] =>
             let H := fresh in pose proof (prefix_match_le_row row bs) as H; unfold rlen in H; cbn [length] in H;
             generalize dependent (prefix_match row bs); intros
         end. lia.
Qed.

Lemma maximal_subpart_bounds : forall bs, bs <> [] -> 1 <= maximal_subpart bs <= nlen bs.
Proof.
  intros bs Hne. pose proof (nlen_pos bs Hne) as Hl.
  unfold maximal_subpart, utf8_table. cbn [fold_right].
  repeat match goal with
         | |- context [prefix_match ?row bs] =>
             let H := fresh in pose proof (prefix_match_le row bs) as H;
             generalize dependent (prefix_match row bs); intros
         end. lia.
Qed.

(* a sequence that follows a row of the table is accepted by the RFC 3629 decoder *)
Lemma complete_in_range : forall r row b bs,
    prefix_match (r :: row) (b :: bs) = rlen (r :: row) -> in_range r b = true /\ prefix_match row bs = rlen row.
Proof.
  intros r row b bs H. rewrite prefix_match_cons, rlen_cons in H.
  destruct (in_range r b); [split; [reflexivity|lia]|lia].
Qed.

Lemma in_range_bounds : forall lo hi b, in_range (lo, hi) b = true -> lo <= b <= hi.
Proof.
  intros lo hi b H. unfold in_range in H. cbn [fst snd] in H. apply andb_true_iff in H as [H1 H2].
  apply N.leb_le in H1, H2. lia.
Qed.

Lemma row_complete_valid : forall b tl tr, 128 <= b -> tail_row b = Some tr ->
    prefix_match tr tl = rlen tr -> exists c k, valid_head (b :: tl) = Some (c, k).
Proof.
  intros b tl tr Hb Htr Hpm. unfold tail_row in Htr.
  destruct (N.ltb_spec b 194) as [|H194]; [discriminate|].
  destruct (N.ltb_spec b 224) as [H224|H224].
  { inversion Htr; subst tr. destruct tl as [|b2 tl]; [rewrite prefix_match_nil in Hpm; discriminate|].
    apply complete_in_range in Hpm as [R2 _]. apply in_range_bounds in R2.
    unfold valid_head, sequence_length. decide_cmp. cbn [andb firstn utf8_decode]. unfold continuation.
    decide_cmp. cbn [andb]. eexists _, _; reflexivity. }
  destruct (N.ltb_spec b 240) as [H240|H240].
  { inversion Htr; subst tr. clear Htr.
    destruct tl as [|b2 tl]; [rewrite prefix_match_nil in Hpm; discriminate|].
    apply complete_in_range in Hpm as [R2 Hpm]. apply in_range_bounds in R2.
    destruct tl as [|b3 tl]; [rewrite prefix_match_nil in Hpm; discriminate|].
    apply complete_in_range in Hpm as [R3 _]. apply in_range_bounds in R3.
    assert (R2' : 128 <= b2 <= 191 /\ (b = 224 -> 160 <= b2) /\ (b = 237 -> b2 <= 159)).
    { destruct (N.eqb_spec b 224); destruct (N.eqb_spec b 237); lia. }
    clear R2.
    unfold valid_head, sequence_length. decide_cmp. cbn [andb firstn utf8_decode]. unfold continuation.
    decide_cmp. cbn [andb]. cbv zeta. unfold is_scalar_value.
    destruct (N.ltb_spec ((b - 224) * 4096 + (b2 - 128) * 64 + (b3 - 128)) 55296); cbn [orb];
      decide_cmp; cbn [andb]; eexists _, _; reflexivity. }
  destruct (N.ltb_spec b 245) as [H245|H245]; [|discriminate].
  inversion Htr; subst tr. clear Htr.
  destruct tl as [|b2 tl]; [rewrite prefix_match_nil in Hpm; discriminate|].
  apply complete_in_range in Hpm as [R2 Hpm]. apply in_range_bounds in R2.
  destruct tl as [|b3 tl]; [rewrite prefix_match_nil in Hpm; discriminate|].
  apply complete_in_range in Hpm as [R3 Hpm]. apply in_range_bounds in R3.
  destruct tl as [|b4 tl]; [rewrite prefix_match_nil in Hpm; discriminate|].
  apply complete_in_range in Hpm as [R4 _]. apply in_range_bounds in R4.
  assert (R2' : 128 <= b2 <= 191 /\ (b = 240 -> 144 <= b2) /\ (b = 244 -> b2 <= 143)).
  { destruct (N.eqb_spec b 240); destruct (N.eqb_spec b 244); lia. }
  clear R2.
  unfold valid_head, sequence_length. decide_cmp. cbn [andb firstn utf8_decode]. unfold continuation.
  decide_cmp. cbn [andb]. cbv zeta. decide_cmp. cbn [andb]. eexists _, _; reflexivity.
Qed.

(* ================================================================================================ *)
(* 3. The specification's pieces are well sized                                                      *)
(* ================================================================================================ *)
Lemma utf8_len_encode : forall c, utf8_len c = nlen (utf8_encode c).
Proof.
  intros c. unfold utf8_len, utf8_encode.
  destruct (c <? 128); [reflexivity|]. destruct (c <? 2048); [reflexivity|]. destruct (c <? 65536); reflexivity.
Qed.

Lemma utf8_len_range : forall c, 1 <= utf8_len c <= 4.
Proof.
  intros c. unfold utf8_len. destruct (c <? 128); [lia|]. destruct (c <? 2048); [lia|]. destruct (c <? 65536); lia.
Qed.

Lemma valid_head_facts : forall rem c k, valid_head rem = Some (c, k) ->
    rem <> [] /\ (1 <= k <= length rem)%nat /\ (k <= 4)%nat /\ utf8_len c = N.of_nat k /\
    firstn k rem = utf8_encode c /\ is_scalar_value c = true.
Proof.
  intros [|b tl] c k H; [discriminate|]. unfold valid_head in H.
  destruct (sequence_length b) as [k'|] eqn:Hs; [|discriminate].
  destruct (utf8_decode (firstn k' (b :: tl))) as [c'|] eqn:Hd; [|discriminate].
  inversion H; subst c' k'. clear H.
  pose proof (sequence_length_range _ _ Hs) as Hk.
  destruct (utf8_decode_encode _ _ Hd) as [Hv He].
  assert (Hlen : length (firstn k (b :: tl)) = k).
  { destruct k as [|k]; [lia|]. rewrite firstn_cons_S in Hd. apply utf8_decode_length in Hd.
    rewrite Hs in Hd. inversion Hd as [E]. rewrite firstn_cons_S. cbn [length]. congruence. }
  split; [discriminate|]. split.
  { rewrite firstn_length in Hlen. lia. }
  split; [lia|]. split.
  { rewrite utf8_len_encode, He. unfold nlen. rewrite Hlen. reflexivity. }
  split; [symmetry; exact He|exact Hv].
Qed.

Lemma utf8_next_char : forall rem c k, valid_head rem = Some (c, k) -> utf8_next rem = PChar c (N.of_nat k).
Proof. intros rem c k H. unfold utf8_next. rewrite valid_head_utf8_head, H. reflexivity. Qed.

Lemma utf8_next_bad : forall rem, valid_head rem = None -> utf8_next rem = PBad (maximal_subpart rem).
Proof. intros rem H. unfold utf8_next. rewrite valid_head_utf8_head, H. reflexivity. Qed.

Lemma utf8_next_size : forall bs, bs <> [] -> 1 <= psize (utf8_next bs) <= nlen bs.
Proof.
  intros bs Hne. destruct (valid_head bs) as [[c k]|] eqn:Hv.
  - rewrite (utf8_next_char _ _ _ Hv). cbn [psize].
    destruct (valid_head_facts _ _ _ Hv) as (_ & Hk & _). unfold nlen. lia.
  - rewrite (utf8_next_bad _ Hv). cbn [psize]. apply maximal_subpart_bounds. exact Hne.
Qed.

Lemma utf8_bad_small : forall bs ml, utf8_next bs = PBad ml -> ml <= 255.
Proof.
  intros bs ml H. destruct (valid_head bs) as [[c k]|] eqn:Hv.
  - rewrite (utf8_next_char _ _ _ Hv) in H. discriminate.
  - rewrite (utf8_next_bad _ Hv) in H. inversion H. pose proof (maximal_subpart_le4 bs). lia.
Qed.

(* ================================================================================================ *)
(* 4. The fast path                                                                                  *)
(* ================================================================================================ *)
Lemma fast8_spec : forall fuel rem spare cs k rest, fast8 fuel rem spare = (cs, k, rest) ->
    good_prefix utf8_next rem cs k /\ rest = skipn (N.to_nat k) rem /\ text_len cs = k /\ k <= spare /\
    ((length rem <= fuel)%nat ->
     rest = [] \/ valid_head rest = None \/ exists c j, valid_head rest = Some (c, j) /\ spare - k < N.of_nat j).
Proof.
  induction fuel as [|f IH]; intros rem spare cs k rest H; cbn [fast8] in H.
  - inversion H; subst. split; [constructor|]. split; [reflexivity|]. split; [reflexivity|]. split; [lia|].
    intros Hl. left. destruct rest; [reflexivity|cbn [length] in Hl; lia].
  - destruct (valid_head rem) as [[c j]|] eqn:Hv.
    + destruct (valid_head_facts _ _ _ Hv) as (Hne & Hj & Hj4 & Hlen & _).
      destruct (N.leb_spec (N.of_nat j) spare) as [Hfit|Hfit].
      * destruct (fast8 f (skipn j rem) (spare - N.of_nat j)) as [[cs1 n1] rest1] eqn:E.
        inversion H; subst cs k rest. clear H.
        destruct (IH _ _ _ _ _ E) as (Hg & Hr & Ht & Hs & Hstop).
        split.
        { apply gp_cons; [exact Hne|apply utf8_next_char; exact Hv|]. rewrite Nat2N.id. exact Hg. }
        split.
        { rewrite Hr. rewrite skipn_N_add. rewrite Nat2N.id. reflexivity. }
        split; [cbn [text_len]; lia|]. split; [lia|].
        intros Hl. rewrite skipn_length in Hstop.
        destruct (Hstop ltac:(lia)) as [Hs1|[Hs1|(c2 & j2 & Hs1 & Hs2)]].
        -- left; exact Hs1.
        -- right; left; exact Hs1.
        -- right; right. exists c2, j2. split; [exact Hs1|lia].
      * inversion H; subst cs k rest. clear H.
        split; [constructor|]. split; [reflexivity|]. split; [reflexivity|]. split; [lia|].
        intros _. right; right. exists c, j. split; [exact Hv|lia].
    + inversion H; subst cs k rest. clear H.
      split; [constructor|]. split; [reflexivity|]. split; [reflexivity|]. split; [lia|].
      intros _. right; left. exact Hv.
Qed.

(* ================================================================================================ *)
(* 5. The state machine after a leading byte                                                         *)
(* ================================================================================================ *)
(* states the decoder can be in between two calls of the loop: the initial one, or — when the input is used
   up — whatever the end-of-input exit leaves (it does not reset the continuation-byte boundaries) *)
Definition u8_bnd (st : u8st) (rem : list N) : Prop := st = u8_new \/ (rem = [] /\ u_needed st = 0).

(* the state expects the continuation bytes of [tr] *)
Definition st_row (st : u8st) (tr : list (N * N)) : Prop :=
  u_needed st <> 0 /\ u_seen st + rlen tr = u_needed st /\ u_needed st <= 3 /\
  exists tr', tr = (u_lo st, u_hi st) :: tr' /\ Forall (fun r => r = cont) tr'.

Lemma u8_pending_malformed : forall tr st rem fuel spare rd,
    st_row st tr -> 4 <= spare -> (length rem < fuel)%nat -> prefix_match tr rem < rlen tr ->
    exists st',
      u8_loop fuel true st rem spare rd
      = (st', XMalformed (u_seen st + 1 + prefix_match tr rem) 0 (rd + prefix_match tr rem), [])
      /\ u8_bnd st' (skipn (N.to_nat (prefix_match tr rem)) rem).
Proof.
  induction tr as [|r tr IH]; intros st rem fuel spare rd Hrow Hsp Hf Hpm.
  { destruct Hrow as (_ & _ & _ & tr' & E & _). discriminate. }
  destruct Hrow as (Hn0 & Hseen & Hn3 & tr' & E & Hcont). inversion E; subst r tr'. clear E.
  rewrite rlen_cons in Hseen.
  destruct fuel as [|f]; [lia|]. cbn [u8_loop].
  rewrite (proj2 (N.eqb_neq (u_needed st) 0) Hn0).
  rewrite N.sub_0_r, N.add_0_r. cbn [app].
  destruct rem as [|b tl].
  - rewrite prefix_match_nil. cbn [andb negb skipn]. rewrite !N.add_0_r.
    rewrite N.mod_small by lia. eexists; split; [reflexivity|]. right. split; reflexivity.
  - rewrite (proj2 (N.ltb_ge spare 4) Hsp).
    rewrite prefix_match_cons in *. unfold in_range in *. cbn [fst snd] in *.
    revert Hpm. destruct ((u_lo st <=? b) && (b <=? u_hi st)) eqn:Hin; intros Hpm; cbn [negb].
    + (* a continuation byte of the row *)
      rewrite rlen_cons in Hpm.
      assert (Htr : tr <> []) by (intros ->; rewrite prefix_match_nil_row in Hpm; unfold rlen in Hpm; cbn [length] in Hpm; lia).
      assert (Hsn : (u_seen st + 1 =? u_needed st) = false).
      { apply N.eqb_neq. destruct tr; [congruence|]. rewrite rlen_cons in Hseen. lia. }
      rewrite Hsn. cbn [negb].
      destruct tr as [|r2 tr2]; [congruence|]. inversion Hcont as [|? ? Hr2 Hcont2]; subst.
      edestruct (IH (U8 (u_cp st * 64 + b mod 64) (u_seen st + 1) (u_needed st) 128 191) tl f spare (rd + 1))
        as (st' & Hrun & Hb).
      * unfold st_row. cbn [u_needed u_seen u_lo u_hi]. split; [exact Hn0|]. split; [lia|]. split; [exact Hn3|].
        exists tr2. split; [reflexivity|exact Hcont2].
      * exact Hsp.
      * cbn [length] in Hf. lia.
      * lia.
      * cbn [u_seen] in Hrun. exists st'. split.
        -- rewrite Hrun. f_equal. f_equal. f_equal; lia.
        -- replace (N.to_nat (1 + prefix_match (cont :: tr2) tl)) with (S (N.to_nat (prefix_match (cont :: tr2) tl))) by lia.
           cbn [skipn]. exact Hb.
    + rewrite !N.add_0_r. rewrite N.mod_small by lia. cbn [skipn].
      eexists; split; [reflexivity|]. left. reflexivity.
Qed.

(* a byte string whose head is not a complete well-formed sequence: what the decoder reports from its
   initial state when, after the fast path, it has room for an astral character *)
Lemma u8_slow_malformed : forall rem cs k b tl f spare0 rd,
    fast8 (length rem) rem spare0 = (cs, k, b :: tl) ->
    valid_head (b :: tl) = None -> 4 <= spare0 - k -> (length tl < f)%nat ->
    exists st',
      u8_loop (S f) true u8_new rem spare0 rd
      = (st', XMalformed (maximal_subpart (b :: tl)) 0 (rd + k + maximal_subpart (b :: tl)), cs ++ [])
      /\ u8_bnd st' (skipn (N.to_nat (maximal_subpart (b :: tl))) (b :: tl)).
Proof.
  intros rem cs k b tl f spare0 rd0 Hfast Hv Hsp Hf.
  assert (Hb : 128 <= b).
  { destruct (N.leb_spec 128 b); [assumption|]. exfalso.
    unfold valid_head, sequence_length in Hv. rewrite (proj2 (N.leb_le b 127)) in Hv by lia.
    cbn [firstn utf8_decode] in Hv. rewrite (proj2 (N.leb_le b 127)) in Hv by lia. discriminate. }
  cbn [u8_loop u8_new u_needed].
  rewrite N.eqb_refl. rewrite Hfast.
  set (spare := spare0 - k) in *. set (rd := rd0 + k).
  rewrite (proj2 (N.ltb_ge spare 4) Hsp).
  rewrite (proj2 (N.ltb_ge b 128) Hb).
  rewrite (maximal_subpart_lead b tl Hb).
  pose proof (row_complete_valid b tl) as Hcomplete.
  unfold tail_row in *.
  destruct (N.ltb_spec b 194) as [H194|H194].
  { cbn [skipn]. replace (N.to_nat 1) with 1%nat by lia. cbn [skipn].
    eexists; split; [reflexivity|]. left; reflexivity. }
  cbn [u8_new u_seen u_lo u_hi].
  assert (Hf' : (length tl < f)%nat) by exact Hf.
  assert (Hgen : forall tr st, st_row st tr -> u_seen st = 0 ->
             (prefix_match tr tl = rlen tr -> exists c k, valid_head (b :: tl) = Some (c, k)) ->
             exists st',
               u8_loop f true st tl spare (rd + 1)
               = (st', XMalformed (1 + prefix_match tr tl) 0 (rd + (1 + prefix_match tr tl)), [])
               /\ u8_bnd st' (skipn (N.to_nat (1 + prefix_match tr tl)) (b :: tl))).
  { intros tr st Hrow Hseen Hc.
    assert (Hlt : prefix_match tr tl < rlen tr).
    { pose proof (prefix_match_le_row tr tl). destruct (N.eq_dec (prefix_match tr tl) (rlen tr)) as [E|E]; [|lia].
      destruct (Hc E) as (c0 & k0 & Hsome). congruence. }
    destruct (u8_pending_malformed tr st tl f spare (rd + 1) Hrow Hsp Hf' Hlt)
      as (st' & Hrun & Hbnd).
    exists st'. split.
    - rewrite Hrun, Hseen. f_equal. f_equal. f_equal; lia.
    - replace (N.to_nat (1 + prefix_match tr tl)) with (S (N.to_nat (prefix_match tr tl))) by lia.
      cbn [skipn]. exact Hbnd. }
  assert (Huse : forall tr st, st_row st tr -> u_seen st = 0 ->
             (prefix_match tr tl = rlen tr -> exists c k, valid_head (b :: tl) = Some (c, k)) ->
             exists st',
               (let '(st'0, r, cs') := u8_loop f true st tl spare (rd + 1) in (st'0, r, cs ++ cs'))
               = (st', XMalformed (1 + prefix_match tr tl) 0 (rd + (1 + prefix_match tr tl)), cs ++ [])
               /\ u8_bnd st' (skipn (N.to_nat (1 + prefix_match tr tl)) (b :: tl))).
  { intros tr st H1 H2 H3. destruct (Hgen tr st H1 H2 H3) as (st' & Hrun & Hbnd).
    exists st'. split; [rewrite Hrun; reflexivity|exact Hbnd]. }
  clear Hgen.
  destruct (N.ltb_spec b 224) as [H224|H224].
  { apply Huse; [|reflexivity|intros E; apply (Hcomplete _ Hb eq_refl E)].
    unfold st_row. cbn [u_needed u_seen u_lo u_hi]. unfold rlen. cbn [length].
    split; [lia|]. split; [lia|]. split; [lia|]. exists []. split; [reflexivity|constructor]. }
  destruct (N.ltb_spec b 240) as [H240|H240].
  { apply Huse; [|reflexivity|intros E; apply (Hcomplete _ Hb eq_refl E)].
    unfold st_row. cbn [u_needed u_seen u_lo u_hi]. unfold rlen. cbn [length].
    split; [lia|]. split; [lia|]. split; [lia|]. exists [cont]. split; [reflexivity|repeat constructor]. }
  destruct (N.ltb_spec b 245) as [H245|H245].
  { apply Huse; [|reflexivity|intros E; apply (Hcomplete _ Hb eq_refl E)].
    unfold st_row. cbn [u_needed u_seen u_lo u_hi]. unfold rlen. cbn [length].
    split; [lia|]. split; [lia|]. split; [lia|]. exists [cont; cont]. split; [reflexivity|repeat constructor]. }
  cbn [skipn]. replace (N.to_nat 1) with 1%nat by lia. cbn [skipn].
  eexists; split; [reflexivity|]. left; reflexivity.
Qed.

(* ================================================================================================ *)
(* 6. The per-call specification                                                                     *)
(* ================================================================================================ *)
Definition u8_step (st : u8st) (src : list N) (spare : N) := u8_raw true st src spare.

Lemma u8_call_ok : forall st rem spare, u8_bnd st rem ->
    call_ok u8st u8_step utf8_next u8_bnd 4 st rem spare.
Proof.
  intros st rem spare Hb. unfold call_ok, u8_step, u8_raw.
  destruct Hb as [->|[-> Hn]].
  - destruct (fast8 (length rem) rem spare) as [[cs k] rest] eqn:Hfast.
    destruct (fast8_spec _ _ _ _ _ _ Hfast) as (Hg & Hr & Ht & Hs & Hstop).
    specialize (Hstop (Nat.le_refl _)).
    pose proof (good_prefix_le utf8_next utf8_next_size _ _ _ Hg) as Hk.
    destruct rest as [|b tl].
    + (* the whole input is well formed and fits *)
      cbn [u8_loop u8_new u_needed]. rewrite N.eqb_refl, Hfast. cbn [andb negb].
      rewrite app_nil_r. split; [lia|]. exists k. split; [exact Hg|].
      assert (nlen (skipn (N.to_nat k) rem) = 0) by (rewrite <- Hr; reflexivity).
      rewrite nlen_skipn in *. lia.
    + assert (Hlt : k < nlen rem).
      { assert (nlen (skipn (N.to_nat k) rem) = nlen tl + 1) by (rewrite <- Hr; apply nlen_cons).
        rewrite nlen_skipn in *. lia. }
      destruct (N.ltb_spec (spare - k) 4) as [Hfull|Hroom].
      * (* output full *)
        cbn [u8_loop u8_new u_needed]. rewrite N.eqb_refl, Hfast.
        rewrite (proj2 (N.ltb_lt (spare - k) 4) Hfull). rewrite app_nil_r, N.add_0_l.
        split; [lia|]. exists k. split; [exact Hg|]. split; [reflexivity|]. split; [exact Hlt|].
        split; [lia|]. left. reflexivity.
      * (* the next piece is malformed *)
        assert (Hv : valid_head (b :: tl) = None).
        { destruct Hstop as [E|[E|(c & j & E1 & E2)]]; [discriminate|exact E|].
          destruct (valid_head_facts _ _ _ E1) as (_ & _ & Hj4 & _). lia. }
        assert (Hf : (length tl < length rem)%nat).
        { assert (E : length (skipn (N.to_nat k) rem) = S (length tl)) by (rewrite <- Hr; reflexivity).
          rewrite skipn_length in E. lia. }
        destruct (u8_slow_malformed rem cs k b tl (length rem) spare 0 Hfast Hv Hroom Hf) as (st' & Hrun & Hbnd).
        rewrite Hrun. rewrite app_nil_r, N.add_0_l.
        split; [lia|]. exists k. split; [exact Hg|]. split; [reflexivity|]. split; [exact Hlt|].
        rewrite <- Hr. split; [apply utf8_next_bad; exact Hv|]. split; [reflexivity|].
        rewrite skipn_N_add, <- Hr. exact Hbnd.
  - (* after the end-of-input exit: nothing is left *)
    cbn [length u8_loop]. rewrite Hn. cbn [N.eqb length fast8 andb negb app text_len].
    change (0 =? 0) with true. cbn [fast8 andb negb app text_len].
    split; [lia|]. exists 0. split; [constructor|reflexivity].
Qed.

(* what decode_loop returns over the UTF-8 decoder model alone (no BOM sniffing) *)
Lemma u8_loop_result : forall t g input fuel, (decode_fuel input <= fuel)%nat ->
    result_of input (xdecode_loop_impl u8_step fuel u8_new (xtrap_of t g) input)
    = apply_trap t input 0 (pieces utf8_next input) [].
Proof.
  intros t g input fuel Hf. unfold xdecode_loop_impl.
  apply (xloop_result u8st u8_step utf8_next u8_bnd DECODER_K RESERVE_DIV RESERVE_MIN
           utf8_next_size utf8_bad_small reserve_min_covers_decoder u8_call_ok t g input u8_new fuel);
    [left; reflexivity|exact Hf].
Qed.
