(* C17, the parser reads its tokens front to back and looks at nothing else.

   [state_machine_reads]: a successful step of the state machine on a parser with token list [c ++ rest'] that leaves
   [rest'] unread does the same on EVERY list that starts with [c] - it has looked at [c] and at nothing behind it.
   Consequence ([step_lean]): if a step stops with [PErrScan] on the list [l] and succeeds on [l ++ [t]], it has
   looked at [t]: nothing is left in [p_toks].  This is what makes Model/Lazy.v lazy: a token is pulled from the
   scanner only when the step looks at it, and between steps the parser holds the one-token cache and nothing else.

   One pass over the state functions with one judgement that composes along [do]: [Usim]. *)
From Coq Require Import List NArith Bool Arith Lia.
Import ListNotations.
Require Import Parser ScanRelTop.
Local Open Scope nat_scope.

(* the parser [p] over the token list [l] *)
Definition rd (p : parser) (l : list token) : parser := set_tok p l (p_token p).

Definition wyp (y : list token) (v : parser) : parser := rd v y.
Definition wyq {A} (y : list token) (v : A * parser) : A * parser := (fst v, rd (snd v) y).
(* what a parser can still look at: the tokens it holds and its cache *)
Definition pst (p : parser) : list token * option token := (p_toks p, p_token p).
Definition tkq {A} (v : A * parser) : list token * option token := pst (snd v).

(* the cache after having read [c], starting with the cache [c0]: empty, or untouched if nothing was read, or the last
   token read *)
Definition cpost (c0 : option token) (c : list token) (cv : option token) : Prop :=
  cv = None \/ (c = [] /\ cv = c0) \/ (exists c' t, c = c' ++ [t] /\ cv = Some t).

Lemma cpost_trans c0 c1 cv1 c2 cv2 : cpost c0 c1 cv1 -> cpost cv1 c2 cv2 -> cpost c0 (c1 ++ c2) cv2.
Proof.
  intros H1 [->|[[-> ->]|(c' & t & -> & ->)]].
  - left. reflexivity.
  - rewrite app_nil_r. exact H1.
  - right. right. exists (c1 ++ c'), t. rewrite app_assoc. auto.
Qed.

(* [r]: the computation on the list (and cache) [st0]; [R l]: the same computation on the list [l] *)
Definition Usim {T} (tk : T -> list token * option token) (wy : list token -> T -> T) (st0 : list token * option token)
           (r : res T) (R : list token -> res T) : Prop :=
  match r with
  | Parser.Ok v => exists c, fst st0 = c ++ fst (tk v) /\ cpost (snd st0) c (snd (tk v))
                             /\ forall y, R (c ++ y) = Parser.Ok (wy y v)
  | _ => True
  end.

Lemma Usim_ret {T} (tk : T -> list token * option token) wy st0 (v : T) R :
  fst (tk v) = fst st0 -> (snd (tk v) = None \/ snd (tk v) = snd st0) ->
  (forall y, R y = Parser.Ok (wy y v)) -> Usim tk wy st0 (Parser.Ok v) R.
Proof.
  intros E C H. exists []. split; [symmetry; exact E|]. split; [|exact H].
  destruct C as [C|C]; [left; exact C|right; left; auto].
Qed.

Lemma Usim_bind {T U} (tk1 : T -> list token * option token) wy1 (tk2 : U -> list token * option token) wy2 st0
      (r : res T) R (k : T -> res U) :
  Usim tk1 wy1 st0 r R ->
  (forall v, Usim tk2 wy2 (tk1 v) (k v) (fun l => k (wy1 l v))) ->
  Usim tk2 wy2 st0
    (match r with Parser.Ok v => k v | Parser.Err e => Parser.Err e | Parser.Panic n => Parser.Panic n end)
    (fun l => match R l with Parser.Ok v => k v | Parser.Err e => Parser.Err e | Parser.Panic n => Parser.Panic n end).
Proof.
  intros H1 H2. destruct r as [v|e|n]; cbn [Usim] in *; auto.
  destruct H1 as (c1 & E1 & C1 & R1). specialize (H2 v). destruct (k v) as [w|e|n]; cbn [Usim] in *; auto.
  destruct H2 as (c2 & E2 & C2 & R2). exists (c1 ++ c2). split; [|split].
  - rewrite E1, E2, app_assoc. reflexivity.
  - eapply cpost_trans; eauto.
  - intros y. rewrite <- app_assoc, R1. apply R2.
Qed.

(* a sub-computation that does not look at the tokens at all *)
Lemma Usim_bind_pure {X T} (tk : T -> list token * option token) wy st0 (r : res X) (k : X -> res T) (K : list token -> X -> res T) :
  (forall x, Usim tk wy st0 (k x) (fun l => K l x)) ->
  Usim tk wy st0
    (match r with Parser.Ok x => k x | Parser.Err e => Parser.Err e | Parser.Panic n => Parser.Panic n end)
    (fun l => match r with Parser.Ok x => K l x | Parser.Err e => Parser.Err e | Parser.Panic n => Parser.Panic n end).
Proof. intros H. destruct r as [x|e|n]; [apply H|exact I|exact I]. Qed.

Lemma peek_U p : Usim tkq wyq (pst p) (Parser.peek p) (fun l => Parser.peek (rd p l)).
Proof.
  destruct p as [toks c sts st an aid tgs kp]. unfold Parser.peek, rd, pst. cbn [p_token p_toks set_tok].
  destruct c as [t|].
  - apply Usim_ret; [reflexivity|right; reflexivity|intros y; reflexivity].
  - destruct toks as [|t r]; [exact I|]. exists [t]. split; [reflexivity|]. split; [|intros y; reflexivity].
    right. right. exists [], t. split; reflexivity.
Qed.
Lemma pop_state_U p : Usim pst wyp (pst p) (pop_state p) (fun l => pop_state (rd p l)).
Proof.
  destruct p as [toks c sts st an aid tgs kp]. unfold pop_state, rd, pst. cbn [p_states set_tok].
  destruct sts; [exact I|]. apply Usim_ret; [reflexivity|right; reflexivity|intros y; reflexivity].
Qed.

Lemma cpost_weaken c0 c cv : cpost None c cv -> cpost c0 c cv.
Proof. intros [->|[[-> ->]|H]]; [left; reflexivity|left; reflexivity|right; right; exact H]. Qed.

Lemma Usim_conv {T} (tk : T -> list token * option token) wy st0 st1 r (R R' : list token -> res T) :
  Usim tk wy st1 r R' -> fst st0 = fst st1 -> (snd st1 = snd st0 \/ snd st1 = None) -> (forall l, R l = R' l) ->
  Usim tk wy st0 r R.
Proof.
  intros H E0 EC E. destruct r as [v|e|n]; cbn [Usim] in *; auto.
  destruct H as (c & A & C & B). exists c. split; [rewrite E0; exact A|]. split; [|intros y; rewrite E; apply B].
  destruct EC as [EC|EC]; rewrite EC in C; [exact C|apply cpost_weaken, C].
Qed.

Ltac uapp L := eapply Usim_conv; [apply L|reflexivity|first [left; reflexivity|right; reflexivity]|intros; reflexivity].
Ltac uhook := first [uapp peek_U | uapp pop_state_U].

Ltac ucbn :=
  cbv beta iota zeta delta [tkq pst wyq wyp rd skip set_tok set_state set_states set_anchors set_tags push_state register_anchor resolve_tag
       p_toks p_token p_states p_state p_anchors p_anchor_id p_tags p_keep_tags];
  cbn [fst snd].

Ltac ustep :=
  ucbn;
  lazymatch goal with
  | |- Usim _ _ _ (Parser.Ok _) _ =>
      first [apply Usim_ret; [reflexivity|first [left; reflexivity|right; reflexivity]|intros; reflexivity]
            | match goal with |- context [if ?b then _ else _] => is_var b; destruct b end]
  | |- Usim _ _ _ (Parser.Err _) _ => exact I
  | |- Usim _ _ _ (Parser.Panic _) _ => exact I
  | |- Usim _ _ _ (match ?r with Parser.Ok _ => _ | Parser.Err _ => _ | Parser.Panic _ => _ end) _ =>
      let T := type of r in
      lazymatch T with
      | res parser => eapply (Usim_bind pst wyp); [|intros [?xt ?xc ?xs ?xst ?xa ?xi ?xg ?xk]]
      | res (_ * parser)%type => eapply (Usim_bind tkq wyq); [|intros [?xv [?xt ?xc ?xs ?xst ?xa ?xi ?xg ?xk]]]
      | res _ => eapply Usim_bind_pure; intros ?xv
      end
  | |- Usim _ _ _ (match (match ?t with _ => _ end) with _ => _ end) _ => destruct t
  | |- Usim _ _ _ (match ?t with _ => _ end) _ => destruct t
  | |- Usim _ _ _ (if ?b then _ else _) _ => destruct b
  | |- _ => first [uhook | match goal with |- context [if ?b then _ else _] => is_var b; destruct b end]
  end.
Ltac usim := repeat ustep.

Lemma node_props_U p t : Usim tkq wyq (pst p) (node_props p t) (fun l => node_props (rd p l) t).
Proof. destruct p as [toks c sts st an aid tgs kp]. unfold node_props. usim. Qed.
Ltac uhook ::= first [uapp peek_U | uapp pop_state_U | uapp node_props_U].
Lemma node_content_U p aid tg b i :
  Usim tkq wyq (pst p) (node_content p aid tg b i) (fun l => node_content (rd p l) aid tg b i).
Proof. destruct p as [toks c sts st an aid0 tgs kp]. unfold node_content, empty_or_err. usim. Qed.
Ltac uhook ::= first [uapp peek_U | uapp pop_state_U | uapp node_props_U | uapp node_content_U].
Lemma parse_node_U p b i : Usim tkq wyq (pst p) (parse_node p b i) (fun l => parse_node (rd p l) b i).
Proof. destruct p as [toks c sts st an aid tgs kp]. unfold parse_node. usim. Qed.
Ltac uhook ::= first [uapp peek_U | uapp pop_state_U | uapp node_props_U | uapp node_content_U | uapp parse_node_U].

Lemma stream_start_U p : Usim tkq wyq (pst p) (stream_start p) (fun l => stream_start (rd p l)).
Proof. destruct p as [toks c sts st an aid tgs kp]. unfold stream_start. usim. Qed.

(* the two fuelled loops: the fuel is computed from the token list and is enough on every list *)
Lemma mes_rd_skip p l : mes (rd (skip p) l) = length l.
Proof. unfold mes, rd, skip. cbn [set_tok p_toks p_token]. lia. Qed.

(* one successful peek, seen on every list that starts with what it read *)
Lemma peek_reads p t p1 : Parser.peek p = Parser.Ok (t, p1) ->
  exists c1, p_toks p = c1 ++ p_toks p1 /\ p_token p1 = Some t /\ cpost (p_token p) c1 (p_token p1) /\
    forall l f', mes (rd p (c1 ++ l)) < f' ->
      exists f0, f' = S f0 /\ Parser.peek (rd p (c1 ++ l)) = Parser.Ok (t, rd p1 l) /\ mes (rd (skip p1) l) < f0.
Proof.
  intros EP. pose proof (peek_U p) as HP. rewrite EP in HP. cbn [Usim] in HP.
  destruct HP as (c1 & E1 & CP & R1). unfold tkq, wyq, pst in E1, CP, R1. cbn [fst snd] in E1, CP, R1. exists c1. split; [exact E1|].
  assert (M1 : mes p1 = mes p /\ p_token p1 = Some t).
  { destruct (peek_cases [] p) as [X|(t' & q' & X & _ & M & C)]; rewrite X in EP; [discriminate|]. inversion EP; subst. auto. }
  destruct M1 as [M1 C1]. split; [exact C1|]. split; [exact CP|].
  intros l f' Hf. destruct f' as [|f0]; [lia|]. exists f0. split; [reflexivity|]. split; [apply R1|].
  rewrite mes_rd_skip. unfold mes, rd in *. cbn [set_tok p_toks p_token] in *. rewrite E1, C1 in M1. rewrite !app_length in *.
  destruct (p_token p); lia.
Qed.

Lemma cpost_skip_then c0 c1 t c2 cv : cpost c0 c1 (Some t) -> cpost None c2 cv -> cpost c0 (c1 ++ c2) cv.
Proof.
  intros H1 H2. apply (cpost_trans c0 c1 (Some t) c2 cv H1).
  destruct H2 as [->|[[-> ->]|(c' & u & -> & ->)]]; [left; reflexivity|left; reflexivity|right; right; eauto].
Qed.

Lemma process_directives_reads : forall f p vs tags q,
  process_directives f p vs tags = Parser.Ok q -> mes p < f ->
  exists c, p_toks p = c ++ p_toks q /\ cpost (p_token p) c (p_token q) /\
            forall y f', mes (rd p (c ++ y)) < f' -> process_directives f' (rd p (c ++ y)) vs tags = Parser.Ok (rd q y).
Proof.
  induction f as [|f IH]; intros p vs tags q E HM; [lia|]. cbn [process_directives] in E.
  destruct (Parser.peek p) as [[t p1]|e|n] eqn:EP; try discriminate.
  destruct (peek_reads p t p1 EP) as (c1 & E1 & C1 & CP1 & STEP).
  assert (HM1 : mes (skip p1) < f).
  { pose proof (mes_skip p1 t C1). destruct (peek_cases [] p) as [X|(t' & q' & X & _ & M & _)]; rewrite X in EP; [discriminate|].
    inversion EP; subst. lia. }
  assert (REC : forall vs' tags', process_directives f (skip p1) vs' tags' = Parser.Ok q ->
            exists c, p_toks p = c ++ p_toks q /\ cpost (p_token p) c (p_token q) /\
              forall y f', mes (rd p (c ++ y)) < f' ->
                exists f0, f' = S f0 /\ Parser.peek (rd p (c ++ y)) = Parser.Ok (t, rd p1 (skipn (length c1) (c ++ y)))
                           /\ process_directives f0 (skip (rd p1 (skipn (length c1) (c ++ y)))) vs' tags' = Parser.Ok (rd q y)).
  { intros vs' tags' E'. destruct (IH (skip p1) vs' tags' q E' HM1) as (c2 & E2 & CP2 & R2).
    change (p_toks (skip p1)) with (p_toks p1) in E2. change (p_token (skip p1)) with (@None token) in CP2.
    exists (c1 ++ c2). split; [rewrite E1, E2, app_assoc; reflexivity|]. split; [rewrite C1 in CP1; eapply cpost_skip_then; eauto|].
    intros y f' Hf. rewrite <- app_assoc in *. destruct (STEP (c2 ++ y) f' Hf) as (f0 & -> & PK & HF0).
    exists f0. split; [reflexivity|]. rewrite skipn_app, skipn_all, Nat.sub_diag. cbn [skipn app]. split; [exact PK|].
    apply R2. exact HF0. }
  destruct t as [sp tk]. destruct tk;
    try (inversion E; subst q; exists c1; split; [rewrite E1; reflexivity|]; split; [exact CP1|];
         intros y f' Hf; destruct (STEP y f' Hf) as (f0 & -> & PK & _);
         cbn [process_directives]; rewrite PK; destruct p1; reflexivity).
  - destruct vs; [discriminate|]. destruct (REC _ _ E) as (c & EC & CC & RC). exists c. split; [exact EC|]. split; [exact CC|].
    intros y f' Hf. destruct (RC y f' Hf) as (f0 & -> & PK & PR). cbn [process_directives]. rewrite PK. exact PR.
  - match type of E with (if ?b then _ else _) = _ => destruct b eqn:EB end; [discriminate|].
    destruct (REC _ _ E) as (c & EC & CC & RC). exists c. split; [exact EC|]. split; [exact CC|].
    intros y f' Hf. destruct (RC y f' Hf) as (f0 & -> & PK & PR). cbn [process_directives]. rewrite PK, EB. exact PR.
Qed.

Lemma skip_document_ends_reads : forall f p q,
  skip_document_ends f p = Parser.Ok q -> mes p < f ->
  exists c, p_toks p = c ++ p_toks q /\ cpost (p_token p) c (p_token q) /\
            forall y f', mes (rd p (c ++ y)) < f' -> skip_document_ends f' (rd p (c ++ y)) = Parser.Ok (rd q y).
Proof.
  induction f as [|f IH]; intros p q E HM; [lia|]. cbn [skip_document_ends] in E.
  destruct (Parser.peek p) as [[t p1]|e|n] eqn:EP; try discriminate.
  destruct (peek_reads p t p1 EP) as (c1 & E1 & C1 & CP1 & STEP).
  assert (HM1 : mes (skip p1) < f).
  { pose proof (mes_skip p1 t C1). destruct (peek_cases [] p) as [X|(t' & q' & X & _ & M & _)]; rewrite X in EP; [discriminate|].
    inversion EP; subst. lia. }
  destruct t as [sp tk]. destruct tk;
    try (inversion E; subst q; exists c1; split; [rewrite E1; reflexivity|]; split; [exact CP1|];
         intros y f' Hf; destruct (STEP y f' Hf) as (f0 & -> & PK & _);
         cbn [skip_document_ends]; rewrite PK; destruct p1; reflexivity).
  destruct (IH (skip p1) q E HM1) as (c2 & E2 & CP2 & R2). change (p_toks (skip p1)) with (p_toks p1) in E2.
  change (p_token (skip p1)) with (@None token) in CP2.
  exists (c1 ++ c2). split; [rewrite E1, E2, app_assoc; reflexivity|]. split; [rewrite C1 in CP1; eapply cpost_skip_then; eauto|].
  intros y f' Hf. rewrite <- app_assoc in *. destruct (STEP (c2 ++ y) f' Hf) as (f0 & -> & PK & HF0).
  cbn [skip_document_ends]. rewrite PK. apply R2. exact HF0.
Qed.

Lemma mes_rd_le p l : mes (rd p l) < S (S (length l)).
Proof. unfold mes, rd. cbn [set_tok p_toks p_token]. destruct (p_token p); lia. Qed.

Lemma process_directives_U p vs tags :
  Usim pst wyp (pst p) (process_directives (S (S (length (p_toks p)))) p vs tags)
       (fun l => process_directives (S (S (length l))) (rd p l) vs tags).
Proof.
  destruct (process_directives _ p vs tags) as [q|e|n] eqn:E; cbn [Usim]; auto.
  destruct (process_directives_reads _ _ _ _ _ E (mes_le p)) as (c & EC & CC & RC). exists c. split; [exact EC|]. split; [exact CC|].
  intros y. apply RC. apply mes_rd_le.
Qed.
Lemma skip_document_ends_U p :
  Usim pst wyp (pst p) (skip_document_ends (S (S (length (p_toks p)))) p)
       (fun l => skip_document_ends (S (S (length l))) (rd p l)).
Proof.
  destruct (skip_document_ends _ p) as [q|e|n] eqn:E; cbn [Usim]; auto.
  destruct (skip_document_ends_reads _ _ _ E (mes_le p)) as (c & EC & CC & RC). exists c. split; [exact EC|]. split; [exact CC|].
  intros y. apply RC. apply mes_rd_le.
Qed.
Ltac uhook ::= first [uapp peek_U | uapp pop_state_U | uapp node_props_U | uapp node_content_U | uapp parse_node_U
                     | uapp process_directives_U | uapp skip_document_ends_U].

Lemma explicit_document_start_U p :
  Usim tkq wyq (pst p) (explicit_document_start p) (fun l => explicit_document_start (rd p l)).
Proof. destruct p as [toks c sts st an aid tgs kp]. unfold explicit_document_start. usim. Qed.
Ltac uhook ::= first [uapp peek_U | uapp pop_state_U | uapp node_props_U | uapp node_content_U | uapp parse_node_U
                     | uapp process_directives_U | uapp skip_document_ends_U | uapp explicit_document_start_U].
Lemma document_start_U p i : Usim tkq wyq (pst p) (document_start p i) (fun l => document_start (rd p l) i).
Proof. destruct p as [toks c sts st an aid tgs kp]. unfold document_start. usim. Qed.
Lemma document_content_U p : Usim tkq wyq (pst p) (document_content p) (fun l => document_content (rd p l)).
Proof. destruct p as [toks c sts st an aid tgs kp]. unfold document_content. usim. Qed.
Lemma document_end_U p : Usim tkq wyq (pst p) (document_end p) (fun l => document_end (rd p l)).
Proof. destruct p as [toks c sts st an aid tgs kp]. unfold document_end. usim. Qed.
Lemma block_mapping_key_U p b : Usim tkq wyq (pst p) (block_mapping_key p b) (fun l => block_mapping_key (rd p l) b).
Proof. destruct p as [toks c sts st an aid tgs kp]. unfold block_mapping_key. usim. Qed.
Lemma block_mapping_value_U p : Usim tkq wyq (pst p) (block_mapping_value p) (fun l => block_mapping_value (rd p l)).
Proof. destruct p as [toks c sts st an aid tgs kp]. unfold block_mapping_value. usim. Qed.
Lemma flow_mapping_key_U p b : Usim tkq wyq (pst p) (flow_mapping_key p b) (fun l => flow_mapping_key (rd p l) b).
Proof. destruct p as [toks c sts st an aid tgs kp]. unfold flow_mapping_key. usim. Qed.
Lemma flow_mapping_value_U p b : Usim tkq wyq (pst p) (flow_mapping_value p b) (fun l => flow_mapping_value (rd p l) b).
Proof. destruct p as [toks c sts st an aid tgs kp]. unfold flow_mapping_value. usim. Qed.
Lemma flow_sequence_entry_U p b : Usim tkq wyq (pst p) (flow_sequence_entry p b) (fun l => flow_sequence_entry (rd p l) b).
Proof. destruct p as [toks c sts st an aid tgs kp]. unfold flow_sequence_entry. usim. Qed.
Lemma indentless_sequence_entry_U p :
  Usim tkq wyq (pst p) (indentless_sequence_entry p) (fun l => indentless_sequence_entry (rd p l)).
Proof. destruct p as [toks c sts st an aid tgs kp]. unfold indentless_sequence_entry. usim. Qed.
Lemma block_sequence_entry_U p b : Usim tkq wyq (pst p) (block_sequence_entry p b) (fun l => block_sequence_entry (rd p l) b).
Proof. destruct p as [toks c sts st an aid tgs kp]. unfold block_sequence_entry. usim. Qed.
Lemma flow_sequence_entry_mapping_key_U p :
  Usim tkq wyq (pst p) (flow_sequence_entry_mapping_key p) (fun l => flow_sequence_entry_mapping_key (rd p l)).
Proof. destruct p as [toks c sts st an aid tgs kp]. unfold flow_sequence_entry_mapping_key. usim. Qed.
Lemma flow_sequence_entry_mapping_value_U p :
  Usim tkq wyq (pst p) (flow_sequence_entry_mapping_value p) (fun l => flow_sequence_entry_mapping_value (rd p l)).
Proof. destruct p as [toks c sts st an aid tgs kp]. unfold flow_sequence_entry_mapping_value. usim. Qed.
Lemma flow_sequence_entry_mapping_end_U p m :
  Usim tkq wyq (pst p) (flow_sequence_entry_mapping_end p m) (fun l => flow_sequence_entry_mapping_end (rd p l) m).
Proof. destruct p as [toks c sts st an aid tgs kp]. unfold flow_sequence_entry_mapping_end. usim. Qed.

Lemma state_machine_U p : Usim tkq wyq (pst p) (state_machine p) (fun l => state_machine (rd p l)).
Proof.
  unfold state_machine. change (fun l => match p_state (rd p l) with
    | SStreamStart => stream_start (rd p l)
    | SImplicitDocumentStart => document_start (rd p l) true
    | SDocumentStart => document_start (rd p l) false
    | SDocumentContent => document_content (rd p l)
    | SDocumentEnd => document_end (rd p l)
    | SBlockNode => parse_node (rd p l) true false
    | SBlockSequenceFirstEntry => block_sequence_entry (rd p l) true
    | SBlockSequenceEntry => block_sequence_entry (rd p l) false
    | SIndentlessSequenceEntry => indentless_sequence_entry (rd p l)
    | SBlockMappingFirstKey => block_mapping_key (rd p l) true
    | SBlockMappingKey => block_mapping_key (rd p l) false
    | SBlockMappingValue => block_mapping_value (rd p l)
    | SFlowSequenceFirstEntry => flow_sequence_entry (rd p l) true
    | SFlowSequenceEntry => flow_sequence_entry (rd p l) false
    | SFlowSequenceEntryMappingKey => flow_sequence_entry_mapping_key (rd p l)
    | SFlowSequenceEntryMappingValue => flow_sequence_entry_mapping_value (rd p l)
    | SFlowSequenceEntryMappingEnd m => flow_sequence_entry_mapping_end (rd p l) m
    | SFlowMappingFirstKey => flow_mapping_key (rd p l) true
    | SFlowMappingKey => flow_mapping_key (rd p l) false
    | SFlowMappingValue => flow_mapping_value (rd p l) false
    | SFlowMappingEmptyValue => flow_mapping_value (rd p l) true
    | SEnd => Parser.Panic 2
    end) with (fun l => match p_state p with
    | SStreamStart => stream_start (rd p l)
    | SImplicitDocumentStart => document_start (rd p l) true
    | SDocumentStart => document_start (rd p l) false
    | SDocumentContent => document_content (rd p l)
    | SDocumentEnd => document_end (rd p l)
    | SBlockNode => parse_node (rd p l) true false
    | SBlockSequenceFirstEntry => block_sequence_entry (rd p l) true
    | SBlockSequenceEntry => block_sequence_entry (rd p l) false
    | SIndentlessSequenceEntry => indentless_sequence_entry (rd p l)
    | SBlockMappingFirstKey => block_mapping_key (rd p l) true
    | SBlockMappingKey => block_mapping_key (rd p l) false
    | SBlockMappingValue => block_mapping_value (rd p l)
    | SFlowSequenceFirstEntry => flow_sequence_entry (rd p l) true
    | SFlowSequenceEntry => flow_sequence_entry (rd p l) false
    | SFlowSequenceEntryMappingKey => flow_sequence_entry_mapping_key (rd p l)
    | SFlowSequenceEntryMappingValue => flow_sequence_entry_mapping_value (rd p l)
    | SFlowSequenceEntryMappingEnd m => flow_sequence_entry_mapping_end (rd p l) m
    | SFlowMappingFirstKey => flow_mapping_key (rd p l) true
    | SFlowMappingKey => flow_mapping_key (rd p l) false
    | SFlowMappingValue => flow_mapping_value (rd p l) false
    | SFlowMappingEmptyValue => flow_mapping_value (rd p l) true
    | SEnd => Parser.Panic 2
    end).
  destruct (p_state p).
  - apply stream_start_U.
  - apply document_start_U.
  - apply document_start_U.
  - apply document_content_U.
  - apply document_end_U.
  - apply parse_node_U.
  - apply block_sequence_entry_U.
  - apply block_sequence_entry_U.
  - apply indentless_sequence_entry_U.
  - apply block_mapping_key_U.
  - apply block_mapping_key_U.
  - apply block_mapping_value_U.
  - apply flow_sequence_entry_U.
  - apply flow_sequence_entry_U.
  - apply flow_sequence_entry_mapping_key_U.
  - apply flow_sequence_entry_mapping_value_U.
  - apply flow_sequence_entry_mapping_end_U.
  - apply flow_mapping_key_U.
  - apply flow_mapping_key_U.
  - apply flow_mapping_value_U.
  - apply flow_mapping_value_U.
  - exact I.
Qed.

(* A successful step has looked at a prefix [c] of its token list and behaves the same on every list that starts with [c];
   the cache it leaves is empty, or untouched (nothing read), or the last token of [c]. *)
Theorem state_machine_reads p ev q : state_machine p = Parser.Ok (ev, q) ->
  exists c, p_toks p = c ++ p_toks q /\ cpost (p_token p) c (p_token q)
            /\ forall y, state_machine (rd p (c ++ y)) = Parser.Ok (ev, rd q y).
Proof. intros E. pose proof (state_machine_U p) as H. rewrite E in H. exact H. Qed.

(* If the step asks for more on the list [l] and succeeds once ONE more token [t] is there, it has looked at [t]:
   nothing is left over. *)
Theorem step_lean p t ev q :
  state_machine p = Parser.Err PErrScan -> state_machine (ext [t] p) = Parser.Ok (ev, q) -> p_toks q = [].
Proof.
  intros E1 E2. destruct (state_machine_reads _ _ _ E2) as (c & EC & _ & RC).
  destruct (p_toks q) as [|u r] eqn:EQ; [reflexivity|exfalso].
  rewrite p_toks_ext in EC.
  assert (X : exists y, p_toks p = c ++ y).
  { destruct (exists_last (l := u :: r) ltac:(discriminate)) as (r' & u' & ER). rewrite ER, app_assoc in EC.
    apply app_inj_tail in EC. destruct EC as [EC _]. exists r'. exact EC. }
  destruct X as (y & EY). specialize (RC y).
  assert (P : rd (ext [t] p) (c ++ y) = p).
  { destruct p as [toks cc sts st an aid tgs kp]. unfold rd, ext, set_tok in *. cbn in *. rewrite EY. reflexivity. }
  rewrite P, E1 in RC. discriminate.
Qed.
