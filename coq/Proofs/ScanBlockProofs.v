(* C03, scanner half, BLOCK structure: the scanner model (Model/SFetch.v over the string input) run on the text of a nested
   block collection of one-word plain scalars (Spec/BlockText.v: block sequences and mappings, compact / below / indentless
   placement) delivers exactly the tokens of the layout tree the text denotes; composed with the parser theorem: text -> events.
   Method as in ScanFlowProofs.v (symbolic execution by [cbn] on states in a normal form, one lemma per kind of token), plus:
   the indentation stack (roll_indent / unroll_indent / roll_one_col_indent / unroll_non_block_indents) as pure functions on
   (indent, indents), the simple key of block context (required keys, staleness at the line break), and the token queue
   being handed out between the fetches ([delivers]). *)
From Coq Require Import List NArith ZArith Bool Arith Lia.
Import ListNotations.
Require Import Parser SBase SPrim SDir SScalar SFetch Pipe Drivers TokenGrammar FlowText BlockText ScanFlowProofs.
Open Scope N_scope.
Open Scope mon_scope.

#[local] Arguments N.add : simpl never.
#[local] Arguments N.sub : simpl never.
#[local] Arguments N.mul : simpl never.
#[local] Arguments N.ltb : simpl nomatch.
#[local] Arguments N.leb : simpl nomatch.
#[local] Arguments Z.of_N : simpl never.
#[local] Arguments Z.ltb : simpl never.
#[local] Arguments Z.leb : simpl never.
#[local] Arguments Z.eqb : simpl never.
#[local] Arguments Z.add : simpl never.
#[local] Arguments bind {I A B} m f s /.
#[local] Arguments ret {I A} a s /.
#[local] Arguments get {I} s /.
#[local] Arguments put {I} s _ /.
#[local] Arguments modify {I} f s /.
#[local] Arguments gets {I A} f s /.
#[local] Arguments fail {I A} site m _ /.
#[local] Arguments upd {I} s i m t /.
#[local] Arguments set_in {I} i s /.
#[local] Arguments set_mark {I} m s /.
#[local] Arguments set_tokens {I} t s /.
#[local] Arguments set_flags {I} s ss se adj ska ta lws /.
#[local] Arguments set_ska {I} b s /.
#[local] Arguments set_lws {I} b s /.
#[local] Arguments set_adj {I} n s /.
#[local] Arguments set_ta {I} b s /.
#[local] Arguments set_ss {I} b s /.
#[local] Arguments set_se {I} b s /.
#[local] Arguments set_struct {I} s sks ind inds fl tp ifms /.
#[local] Arguments set_sks {I} l s /.
#[local] Arguments set_indent {I} z l s /.
#[local] Arguments set_fl {I} n s /.
#[local] Arguments set_tp {I} n s /.
#[local] Arguments set_ifms {I} l s /.
#[local] Arguments skip_to_next_token : simpl never.
#[local] Arguments stale_simple_keys : simpl never.
#[local] Arguments plain_chunk : simpl never.
#[local] Arguments plain_blanks : simpl never.
#[local] Arguments scan_plain_scalar : simpl never.
#[local] Arguments fetch_stream_start : simpl never.
#[local] Arguments fetch_stream_end : simpl never.
#[local] Arguments fetch_directive : simpl never.
#[local] Arguments fetch_document_indicator : simpl never.
#[local] Arguments fetch_flow_collection_start : simpl never.
#[local] Arguments fetch_flow_collection_end : simpl never.
#[local] Arguments fetch_flow_entry : simpl never.
#[local] Arguments fetch_block_entry : simpl never.
#[local] Arguments fetch_key : simpl never.
#[local] Arguments fetch_value : simpl never.
#[local] Arguments fetch_flow_value : simpl never.
#[local] Arguments fetch_anchor : simpl never.
#[local] Arguments fetch_tag : simpl never.
#[local] Arguments fetch_block_scalar : simpl never.
#[local] Arguments fetch_flow_scalar : simpl never.
#[local] Arguments fetch_plain_scalar : simpl never.
#[local] Arguments fetch_next_token : simpl never.
#[local] Arguments fetch_more_tokens : simpl never.
#[local] Arguments next_token : simpl never.
#[local] Arguments scan_all : simpl never.
#[local] Arguments fnt_rest : simpl never.
#[local] Arguments skip_ws_to_eol : simpl never.
#[local] Arguments insert_token : simpl never.
#[local] Arguments need_comp : simpl never.
#[local] Arguments unroll_indent : simpl never.
#[local] Arguments roll_indent : simpl never.
#[local] Arguments roll_one_col_indent : simpl never.
#[local] Arguments unroll_non_block_indents : simpl never.

(* ---------- states in normal form: block context (flow level 0, one simple key) ---------- *)
Definition mkb (chars : list chr) (look : nat) (mk : marker) (toks : list token) (adj : N) (ska : bool)
   (k : simple_key) (ind : Z) (inds : list indent_rec) (tp : N) (ta lws : bool) : sc strin :=
  {| sc_in := {| si_chars := chars; si_look := look |}; sc_mark := mk; sc_tokens := toks;
     sc_stream_start := true; sc_stream_end := false; sc_adjacent := adj; sc_ska := ska; sc_sks := [k];
     sc_indent := ind; sc_indents := inds; sc_flow_level := 0; sc_tokens_parsed := tp;
     sc_token_available := ta; sc_lws := lws; sc_ifms := [] |}.
Definition mkm (i ln c : N) : marker := {| m_index := i; m_line := ln; m_col := c |}.

Definition be_tok (mk : marker) : token := (span_empty mk, TBlockEnd).
Definition key_tok (mk : marker) : token := (span_empty mk, TKey).
Definition unposs (k : simple_key) : simple_key :=
  {| sk_possible := false; sk_required := sk_required k; sk_token_number := sk_token_number k; sk_mark := sk_mark k |}.
Definition newkey (rq : bool) (tn : N) (mk : marker) : simple_key :=
  {| sk_possible := true; sk_required := rq; sk_token_number := tn; sk_mark := mk |}.
Definition stale_k (k : simple_key) (mk : marker) : bool :=
  sk_possible k && ((m_line (sk_mark k) <? m_line mk) || (m_index (sk_mark k) + SIMPLE_KEY_MAX <? m_index mk)).
Definition staled (k : simple_key) (mk : marker) : simple_key := if stale_k k mk then unposs k else k.
(* records of the indentation stack: a block collection (closed by BlockEnd) / the one-column raise behind "-" NL and "key:" *)
Definition lvl (ind : Z) : indent_rec := {| in_indent := ind; in_needs_block_end := true |}.
Definition nbl (c : Z) : indent_rec := {| in_indent := c; in_needs_block_end := false |}.

Ltac fin := unfold mkb, mkm; repeat (f_equal; try lia).
Ltac nm := unfold adv, nlm; cbn [m_index m_line m_col].
Tactic Notation "erw_b" uconstr(E) :=
  let H := fresh "E" in epose proof E as H; unfold mkb, mkm, be_tok, key_tok, newkey, lvl, nbl, staled, unposs in H; unfold unposs; erewrite H; clear H.
Ltac rw_b E := let H := fresh "E" in pose proof E as H; unfold mkb, mkm, be_tok, key_tok, newkey, lvl, nbl, staled, unposs in H; unfold unposs; rewrite H; clear H.

(* ---------- blanks and the line break in front of a token ---------- *)
Lemma skip_spaces_b k : forall F cs l i ln c0 q adj ska key ind inds tp ta lws x,
  (k < F)%nat -> (x =? 32) = false -> (x =? 9) = false -> (x =? 10) = false -> (x =? 13) = false -> (x =? 35) = false ->
  skip_to_next_token str_ops F (mkb (repeat 32 k ++ x :: cs) l (mkm i ln c0) q adj ska key ind inds tp ta lws)
  = Ok (tt, mkb (x :: cs) (Nat.max l 1) (mkm (i + N.of_nat k) ln (c0 + N.of_nat k)) q adj ska key ind inds tp ta lws).
Proof.
  induction k as [|k IH]; intros F cs l i ln c0 q adj ska key ind inds tp ta lws x HF H32 H9 H10 H13 H35;
    (destruct F as [|F]; [lia|]).
  - unfold skip_to_next_token, mkb, mkm. ev. rewrite !N.add_0_r. reflexivity.
  - unfold skip_to_next_token. fold (skip_to_next_token str_ops F). unfold mkb, mkm. ev.
    change (skip_to_next_token str_ops F (mkb (repeat 32 k ++ x :: cs) (Nat.max l 1) (mkm (i + 1) ln (c0 + 1)) q adj ska key ind inds tp ta lws)
            = Ok (tt, mkb (x :: cs) (Nat.max l 1) (mkm (i + N.of_nat (S k)) ln (c0 + N.of_nat (S k))) q adj ska key ind inds tp ta lws)).
    rewrite IH by (try assumption; lia).
    rewrite max_1_1. do 3 f_equal. unfold mkm. f_equal; lia.
Qed.

Definition first_ok (x : N) : Prop :=
  (x =? 32) = false /\ (x =? 9) = false /\ (x =? 10) = false /\ (x =? 13) = false /\ (x =? 35) = false.

(* a line break and the indentation of the next line (block context: a simple key may start there) *)
Lemma skip_gap c F cs l i ln c0 q adj ska key ind inds tp ta lws x :
  (c + 1 < F)%nat -> first_ok x ->
  skip_to_next_token str_ops F (mkb (10 :: repeat 32 c ++ x :: cs) l (mkm i ln c0) q adj ska key ind inds tp ta lws)
  = Ok (tt, mkb (x :: cs) (Nat.max l 2) (mkm (i + 1 + N.of_nat c) (ln + 1) (N.of_nat c)) q adj true key ind inds tp ta true).
Proof.
  intros HF (H32 & H9 & H10 & H13 & H35). destruct F as [|F]; [lia|].
  unfold skip_to_next_token. fold (skip_to_next_token str_ops F). unfold mkb, mkm. ev.
  unfold skip_linebreak, next_2_are, assert_buflen. cbn. rewrite ltb_max2. cbn. unfold nlm. cbn [m_index m_line m_col].
  rw_b (skip_spaces_b c F cs (Nat.max (Nat.max l 1) 2) (i + 1) (ln + 1) 0 q adj true key ind inds tp ta true x ltac:(lia) H32 H9 H10 H13 H35).
  unfold mkm. repeat (f_equal; try lia).
Qed.

(* nothing to skip *)
Lemma skip_none F cs l mk q adj ska key ind inds tp ta lws x :
  (1 <= F)%nat -> first_ok x ->
  skip_to_next_token str_ops F (mkb (x :: cs) l mk q adj ska key ind inds tp ta lws)
  = Ok (tt, mkb (x :: cs) (Nat.max l 1) mk q adj ska key ind inds tp ta lws).
Proof.
  intros HF (H32 & H9 & H10 & H13 & H35). destruct F as [|F]; [lia|].
  unfold skip_to_next_token, mkb. ev. reflexivity.
Qed.
Lemma skip_eof F l mk q adj ska key ind inds tp ta lws :
  (1 <= F)%nat ->
  skip_to_next_token str_ops F (mkb [] l mk q adj ska key ind inds tp ta lws)
  = Ok (tt, mkb [] (Nat.max l 1) mk q adj ska key ind inds tp ta lws).
Proof. intros HF. destruct F as [|F]; [lia|]. reflexivity. Qed.

(* ---------- the simple key of block context ---------- *)

Lemma stale_b cs l mk q adj ska k ind inds tp ta lws :
  (stale_k k mk && sk_required k) = false ->
  stale_simple_keys (mkb cs l mk q adj ska k ind inds tp ta lws)
  = Ok (tt, mkb cs l mk q adj ska (if stale_k k mk then unposs k else k) ind inds tp ta lws).
Proof.
  intros H. unfold stale_simple_keys, mkb. cbn. rewrite andb_true_r. fold (stale_k k mk). rewrite H. cbn. reflexivity.
Qed.

Lemma stale_k_unposs k mk : stale_k (unposs k) mk = false.
Proof. reflexivity. Qed.
Lemma stale_k_not_possible k mk : sk_possible k = false -> stale_k k mk = false.
Proof. unfold stale_k. intros ->. reflexivity. Qed.

(* need_comp (ScanFlowProofs): does fetch_more_tokens have to fetch? *)
Lemma need_empty_b cs l mk adj ska k ind inds tp ta lws :
  need_comp (mkb cs l mk [] adj ska k ind inds tp ta lws) = Ok (true, mkb cs l mk [] adj ska k ind inds tp ta lws).
Proof. reflexivity. Qed.
Lemma need_b cs l mk t q adj ska k ind inds tp ta lws :
  (stale_k k mk && sk_required k) = false ->
  need_comp (mkb cs l mk (t :: q) adj ska k ind inds tp ta lws)
  = let k' := if stale_k k mk then unposs k else k in
    Ok (sk_possible k' && (sk_token_number k' =? tp) || false, mkb cs l mk (t :: q) adj ska k' ind inds tp ta lws).
Proof.
  intros H. unfold need_comp. unfold mkb at 1. cbn.
  rw_b (stale_b cs l mk (t :: q) adj ska k ind inds tp ta lws H). cbn. reflexivity.
Qed.

(* ---------- the indentation stack ---------- *)
Fixpoint unroll_pure (fuel : nat) (col ind : Z) (inds : list indent_rec) : option (nat * Z * list indent_rec) :=
  match fuel with
  | O => None
  | S fuel =>
    if (col <? ind)%Z then
      match inds with
      | [] => None
      | i :: r => match unroll_pure fuel col (in_indent i) r with
                  | Some (n, ind', inds') => Some ((if in_needs_block_end i then S n else n), ind', inds')
                  | None => None
                  end
      end
    else Some (O, ind, inds)
  end.

Lemma repeat_snoc {A} (x : A) n : repeat x n ++ [x] = x :: repeat x n.
Proof. induction n as [|n IH]; cbn; [reflexivity|]. rewrite IH. reflexivity. Qed.

Lemma unroll_go_b fuel : forall col cs l mk q adj ska k ind inds tp ta lws n ind' inds',
  unroll_pure fuel col ind inds = Some (n, ind', inds') ->
  unroll_indent_go fuel col (mkb cs l mk q adj ska k ind inds tp ta lws)
  = Ok (tt, mkb cs l mk (q ++ repeat (be_tok mk) n) adj ska k ind' inds' tp ta lws).
Proof.
  induction fuel as [|fuel IH]; intros col cs l mk q adj ska k ind inds tp ta lws n ind' inds' H; [discriminate|].
  cbn [unroll_pure] in H. unfold unroll_indent_go. fold (@unroll_indent_go strin fuel). unfold mkb at 1. cbn.
  destruct (col <? ind)%Z.
  - destruct inds as [|i r]; [discriminate|].
    destruct (unroll_pure fuel col (in_indent i) r) as [[[n1 ind1] inds1]|] eqn:E; [|discriminate].
    injection H as <- <- <-. cbn. destruct (in_needs_block_end i); cbn.
    + rw_b (IH col cs l mk (q ++ [be_tok mk]) adj ska k (in_indent i) r tp ta lws n1 ind1 inds1 E).
      rewrite <- app_assoc. reflexivity.
    + rw_b (IH col cs l mk q adj ska k (in_indent i) r tp ta lws n1 ind1 inds1 E). reflexivity.
  - injection H as <- <- <-. cbn. rewrite app_nil_r. reflexivity.
Qed.

Lemma unroll_b col cs l mk q adj ska k ind inds tp ta lws n ind' inds' :
  unroll_pure (S (length inds)) col ind inds = Some (n, ind', inds') ->
  unroll_indent col (mkb cs l mk q adj ska k ind inds tp ta lws)
  = Ok (tt, mkb cs l mk (q ++ repeat (be_tok mk) n) adj ska k ind' inds' tp ta lws).
Proof.
  intros H. unfold unroll_indent. unfold mkb at 1. cbn.
  exact (unroll_go_b (S (length inds)) col cs l mk q adj ska k ind inds tp ta lws n ind' inds' H).
Qed.

(* the stack of open block collections (columns, innermost first) *)
Fixpoint stk (cols : list N) : Z * list indent_rec :=
  match cols with
  | [] => ((-1)%Z, [])
  | c :: r => (Z.of_N c, {| in_indent := fst (stk r); in_needs_block_end := true |} :: snd (stk r))
  end.
Lemma stk_len cols : length (snd (stk cols)) = length cols.
Proof. induction cols as [|c r IH]; cbn; [reflexivity|]. rewrite IH. reflexivity. Qed.

(* every column of [ext] is right of col, the rest is not: unrolling to col closes exactly ext *)
Definition base_le (base : list N) (col : Z) : Prop := match base with [] => (-1 <= col)%Z | b :: _ => (Z.of_N b <= col)%Z end.
Lemma unroll_stk ext : forall base col fuel,
  Forall (fun e => (col < Z.of_N e)%Z) ext -> base_le base col -> (length ext < fuel)%nat ->
  unroll_pure fuel col (fst (stk (ext ++ base))) (snd (stk (ext ++ base))) = Some (length ext, fst (stk base), snd (stk base)).
Proof.
  induction ext as [|e ext IH]; intros base col fuel He Hb Hf; (destruct fuel as [|fuel]; [cbn in Hf; lia|]).
  - cbn [app length unroll_pure]. replace (col <? fst (stk base))%Z with false; [reflexivity|].
    symmetry. apply Z.ltb_ge. destruct base as [|b r]; cbn in *; lia.
  - inversion He as [|? ? He1 He2]; subst. cbn [app stk fst snd length unroll_pure in_indent in_needs_block_end].
    replace (col <? Z.of_N e)%Z with true by (symmetry; apply Z.ltb_lt; exact He1).
    rewrite (IH base col fuel He2 Hb ltac:(cbn in Hf; lia)). reflexivity.
Qed.

(* roll_indent: a collection starts at a column right of the current indent / goes on at the current indent *)
Definition nb_top (inds : list indent_rec) : bool :=
  match inds with i :: _ => negb (in_needs_block_end i) | [] => false end.

Lemma nest_ok (inds : list indent_rec) : (length inds < 255)%nat -> (BLOCK_NESTING_MAX <=? N.of_nat (length inds)) = false.
Proof. intros H. apply N.leb_gt. unfold BLOCK_NESTING_MAX. lia. Qed.

Lemma roll_push col tk m cs l mk q adj ska k ind inds tp ta lws :
  nb_top inds = false -> (ind < Z.of_N col)%Z -> (length inds < 255)%nat ->
  roll_indent col None tk m (mkb cs l mk q adj ska k ind inds tp ta lws)
  = Ok (tt, mkb cs l mk (q ++ [(span_empty m, tk)]) adj ska k (Z.of_N col) (lvl ind :: inds) tp ta lws).
Proof.
  intros Hnb Hlt Hlen. unfold roll_indent, mkb. cbn.
  assert (E1 : (ind <? Z.of_N col)%Z = true) by (apply Z.ltb_lt; exact Hlt).
  assert (E2 : (ind <=? Z.of_N col)%Z = true) by (apply Z.leb_le; lia).
  rewrite E2. destruct inds as [|[ci [|]] r]; try discriminate; cbn.
  - rewrite E1. cbn. reflexivity.
  - pose proof (nest_ok _ Hlen) as E4. cbn [length N.of_nat] in E4. rewrite E1, E4. cbn. reflexivity.
Qed.

Lemma roll_same col number tk m cs l mk q adj ska k inds tp ta lws :
  nb_top inds = false ->
  roll_indent col number tk m (mkb cs l mk q adj ska k (Z.of_N col) inds tp ta lws)
  = Ok (tt, mkb cs l mk q adj ska k (Z.of_N col) inds tp ta lws).
Proof.
  intros Hnb. unfold roll_indent, mkb. cbn. rewrite Z.leb_refl.
  destruct inds as [|[ci [|]] r]; try discriminate; cbn; rewrite Z.ltb_irrefl; cbn; reflexivity.
Qed.

(* behind "-" NL / "key:" NL the indent was raised by one column without a block end: the collection below replaces it *)
Lemma roll_push_nb col tk m cs l mk q adj ska k ind c0 r tp ta lws :
  (ind <= Z.of_N col)%Z -> (c0 < Z.of_N col)%Z -> (length r < 255)%nat ->
  roll_indent col None tk m (mkb cs l mk q adj ska k ind ({| in_indent := c0; in_needs_block_end := false |} :: r) tp ta lws)
  = Ok (tt, mkb cs l mk (q ++ [(span_empty m, tk)]) adj ska k (Z.of_N col) (lvl c0 :: r) tp ta lws).
Proof.
  intros Hle Hlt Hlen. unfold roll_indent, mkb. cbn.
  assert (E1 : (c0 <? Z.of_N col)%Z = true) by (apply Z.ltb_lt; exact Hlt).
  assert (E2 : (ind <=? Z.of_N col)%Z = true) by (apply Z.leb_le; lia).
  rewrite E2. cbn. rewrite E1, (nest_ok r Hlen). cbn. reflexivity.
Qed.

(* the same with a token inserted in front of the pending key (fetch_value) *)
Lemma roll_push_ins col tk m cs l mk q0 r0 adj ska k ind inds tp ta lws :
  nb_top inds = false -> (ind < Z.of_N col)%Z -> (length inds < 255)%nat ->
  roll_indent col (Some (tp + N.of_nat (length q0))) tk m (mkb cs l mk (q0 ++ r0) adj ska k ind inds tp ta lws)
  = Ok (tt, mkb cs l mk (q0 ++ (span_empty m, tk) :: r0) adj ska k (Z.of_N col) (lvl ind :: inds) tp ta lws).
Proof.
  intros Hnb Hlt Hlen. unfold roll_indent, mkb. cbn.
  assert (E1 : (ind <? Z.of_N col)%Z = true) by (apply Z.ltb_lt; exact Hlt).
  assert (E2 : (ind <=? Z.of_N col)%Z = true) by (apply Z.leb_le; lia).
  assert (E3 : (tp + N.of_nat (length q0) <? tp) = false) by (apply N.ltb_ge; lia).
  rewrite E2. destruct inds as [|[ci [|]] r]; try discriminate; cbn.
  - rewrite E1. cbn. rewrite E3. cbn. rewrite ?N.ltb_irrefl. cbn. erewrite insert_token_app by reflexivity. reflexivity.
  - pose proof (nest_ok _ Hlen) as E4. cbn [length N.of_nat] in E4. rewrite E1, E4. cbn. rewrite E3. cbn.
    rewrite ?N.ltb_irrefl. cbn. erewrite insert_token_app by reflexivity. reflexivity.
Qed.

Lemma roll_one_b cs l mk q adj ska k ind i r tp ta lws :
  in_needs_block_end i = true ->
  roll_one_col_indent (mkb cs l mk q adj ska k ind (i :: r) tp ta lws)
  = Ok (tt, mkb cs l mk q adj ska k (ind + 1)%Z ({| in_indent := ind; in_needs_block_end := false |} :: i :: r) tp ta lws).
Proof. intros H. unfold roll_one_col_indent, mkb. cbn. rewrite H. reflexivity. Qed.

Lemma unroll_nb_pop cs l mk q adj ska k ind c0 i r tp ta lws :
  in_needs_block_end i = true ->
  unroll_non_block_indents (mkb cs l mk q adj ska k ind ({| in_indent := c0; in_needs_block_end := false |} :: i :: r) tp ta lws)
  = Ok (tt, mkb cs l mk q adj ska k c0 (i :: r) tp ta lws).
Proof. intros H. unfold unroll_non_block_indents, mkb. cbn. rewrite H. reflexivity. Qed.
Lemma unroll_nb_none cs l mk q adj ska k ind inds tp ta lws :
  nb_top inds = false ->
  unroll_non_block_indents (mkb cs l mk q adj ska k ind inds tp ta lws)
  = Ok (tt, mkb cs l mk q adj ska k ind inds tp ta lws).
Proof.
  intros H. unfold unroll_non_block_indents, mkb. cbn. destruct inds as [|[ci [|]] r]; try discriminate; cbn; reflexivity.
Qed.

(* ---------- words in block context ---------- *)
(* what ends a word: the line feed, or ':' in front of a blank or a break *)
Definition stopb (x : N) (rest : list N) : Prop :=
  x = 10 \/ (x = 58 /\ exists y r, rest = y :: r /\ is_blank_or_breakz y = true).

Lemma chunk_word_b w : forall fuel j acc l i ln c0 q adj ska k ind inds tp ta x rest,
  forallb wch w = true -> stopb x rest -> (2 * length w + 2 <= fuel)%nat ->
  exists l', plain_chunk str_ops fuel j acc (mkb (w ++ x :: rest) l (mkm i ln c0) q adj ska k ind inds tp ta false)
  = Ok (rev w ++ acc, mkb (x :: rest) l' (mkm (i + N.of_nat (length w)) ln (c0 + N.of_nat (length w))) q adj ska k ind inds tp ta false).
Proof.
  induction w as [|c w IH]; intros fuel j acc l i ln c0 q adj ska k ind inds tp ta x rest Hw Hx Hf.
  - assert (Hstop : forall fuel' j' l', (Nat.leb 127 j' = false) ->
              plain_chunk str_ops (S fuel') j' acc (mkb (x :: rest) l' (mkm i ln c0) q adj ska k ind inds tp ta false)
              = Ok (acc, mkb (x :: rest) l' (mkm i ln c0) q adj ska k ind inds tp ta false)).
    { intros fuel' j' l' Hj. rewrite plain_chunk_S. cbn [bufmaxlen str_ops Nat.sub]. rewrite Hj. unfold mkb.
      destruct Hx as [-> | [-> (y & r & -> & Hy)]]; cbn; rewrite ?Hy; cbn; reflexivity. }
    cbn [app length rev N.of_nat]. rewrite !N.add_0_r.
    destruct fuel as [|[|fuel]]; [cbn in Hf; lia|cbn in Hf; lia|].
    destruct (Nat.leb 127 j) eqn:Hj.
    + rewrite plain_chunk_S. cbn [bufmaxlen str_ops Nat.sub]. rewrite Hj. unfold mkb at 1. unfold mkm. cbn.
      eexists. rw_b (Hstop fuel 0%nat (Nat.max l 128) eq_refl). reflexivity.
    + eexists. apply Hstop. exact Hj.
  - cbn [forallb] in Hw. apply andb_prop in Hw as [Hc Hw].
    destruct (wch_facts c Hc) as (Hb & Hfw & H58 & _).
    assert (Hstep : forall fuel' j' l', (Nat.leb 127 j' = false) ->
              plain_chunk str_ops (S fuel') j' acc (mkb (c :: w ++ x :: rest) l' (mkm i ln c0) q adj ska k ind inds tp ta false)
              = plain_chunk str_ops fuel' (S j') (c :: acc) (mkb (w ++ x :: rest) l' (mkm (i + 1) ln (c0 + 1)) q adj ska k ind inds tp ta false)).
    { intros fuel' j' l' Hj. rewrite plain_chunk_S. cbn [bufmaxlen str_ops Nat.sub]. rewrite Hj. unfold mkb, mkm.
      cbn. rewrite Hb. cbn. rewrite H58. cbn. reflexivity. }
    cbn [length] in Hf. cbn [app].
    assert (Hgoal : forall l1 fuel1 j1, (2 * length w + 2 <= fuel1)%nat ->
              exists l', plain_chunk str_ops fuel1 j1 (c :: acc) (mkb (w ++ x :: rest) l1 (mkm (i + 1) ln (c0 + 1)) q adj ska k ind inds tp ta false) =
              Ok (rev (c :: w) ++ acc, mkb (x :: rest) l' (mkm (i + N.of_nat (length (c :: w))) ln (c0 + N.of_nat (length (c :: w)))) q adj ska k ind inds tp ta false)).
    { intros l1 fuel1 j1 Hf1'. destruct (IH fuel1 j1 (c :: acc) l1 (i + 1) ln (c0 + 1) q adj ska k ind inds tp ta x rest Hw Hx Hf1') as (l' & E).
      exists l'. rewrite E. cbn [rev length]. rewrite <- app_assoc. cbn [app].
      replace (i + 1 + N.of_nat (length w)) with (i + N.of_nat (S (length w))) by lia.
      replace (c0 + 1 + N.of_nat (length w)) with (c0 + N.of_nat (S (length w))) by lia. reflexivity. }
    destruct fuel as [|[|fuel]]; [lia|lia|].
    destruct (Nat.leb 127 j) eqn:Hj.
    + rewrite plain_chunk_S. cbn [bufmaxlen str_ops Nat.sub]. rewrite Hj. unfold mkb at 1. unfold mkm. cbn.
      rw_b (Hstep fuel 0%nat (Nat.max l 128) eq_refl). apply Hgoal. lia.
    + rewrite (Hstep (S fuel) j l Hj). apply Hgoal. lia.
Qed.

(* the first character of a line (behind its indentation), or the end of the input *)
Definition line_first (tl : list N) : Prop :=
  match tl with [] => True | x :: _ => is_blank x = false /\ is_break x = false end.

Lemma plain_blanks_S fuel F indent start lb tb ws :
  plain_blanks str_ops F (S fuel) indent start lb tb ws =
  (c <- peek str_ops ;;
    if is_blank c then
      s <- get ;;
      (if negb (sc_lws s) then skip_blank str_ops ;;; look str_ops 2 ;;; plain_blanks str_ops F fuel indent start lb tb (c :: ws)
       else if (Z.of_N (m_col (sc_mark s)) <? indent)%Z && (c =? 9) then
         skip_ws_to_eol str_ops F SkipYes ;;; b <- next_is str_ops is_breakz ;;
         if b then look str_ops 2 ;;; plain_blanks str_ops F fuel indent start lb tb ws else fail 77 start
       else skip_blank str_ops ;;; look str_ops 2 ;;; plain_blanks str_ops F fuel indent start lb tb ws)
    else if is_break c then
      s <- get ;;
      (if sc_lws s then skip_break str_ops ;;; look str_ops 2 ;;; plain_blanks str_ops F fuel indent start lb (tb + 1) ws
       else skip_break str_ops ;;; modify (set_lws true) ;;; look str_ops 2 ;;; plain_blanks str_ops F fuel indent start true tb [])
    else ret (lb, tb, ws)).
Proof. reflexivity. Qed.

(* the indentation of the next line, read by the plain-scalar scanner *)
Lemma plain_indent c : forall F fuel indent start tl l i ln c0 q adj ska k ind inds tp ta,
  (c < fuel)%nat -> line_first tl ->
  exists l',
  plain_blanks str_ops F fuel indent start true 0 [] (mkb (repeat 32 c ++ tl) l (mkm i ln c0) q adj ska k ind inds tp ta true)
  = Ok ((true, 0, []), mkb tl l' (mkm (i + N.of_nat c) ln (c0 + N.of_nat c)) q adj ska k ind inds tp ta true).
Proof.
  induction c as [|c IH]; intros F fuel indent start tl l i ln c0 q adj ska k ind inds tp ta Hf Htl;
    (destruct fuel as [|fuel]; [lia|]); rewrite plain_blanks_S.
  - cbn [repeat app N.of_nat]. rewrite !N.add_0_r. exists l. destruct tl as [|x tl].
    + reflexivity.
    + destruct Htl as [Hb Hk]. unfold mkb, mkm. cbn. rewrite Hb, Hk. reflexivity.
  - unfold mkb at 1. unfold mkm. cbn. rewrite andb_false_r. cbn. nm.
    destruct (IH F fuel indent start tl (Nat.max l 2) (i + 1) ln (c0 + 1) q adj ska k ind inds tp ta ltac:(lia) Htl) as (l' & E).
    exists l'. rw_b E. fin.
Qed.

Lemma plain_break c F fuel indent start tl l i ln c0 q adj ska k ind inds tp ta :
  (c + 1 < fuel)%nat -> line_first tl ->
  exists l',
  plain_blanks str_ops F fuel indent start false 0 [] (mkb (10 :: repeat 32 c ++ tl) l (mkm i ln c0) q adj ska k ind inds tp ta false)
  = Ok ((true, 0, []), mkb tl l' (mkm (i + 1 + N.of_nat c) (ln + 1) (N.of_nat c)) q adj ska k ind inds tp ta true).
Proof.
  intros Hf Htl. destruct fuel as [|fuel]; [lia|]. rewrite plain_blanks_S.
  unfold mkb at 1. unfold mkm. cbn. unfold skip_break. cbn. nm.
  destruct (plain_indent c F fuel indent start tl (Nat.max l 2) (i + 1) (ln + 1) 0 q adj ska k ind inds tp ta ltac:(lia) Htl) as (l' & E).
  exists l'. rw_b E. fin.
Qed.

(* a word is never a document marker: next_is_document_indicator on a word followed by ':' *)
Lemma docind_key c w rest l mk q adj ska k ind inds tp ta lws :
  forallb wch (c :: w) = true -> (4 <= l)%nat ->
  next_is_document_indicator str_ops (mkb (c :: w ++ 58 :: rest) l mk q adj ska k ind inds tp ta lws)
  = Ok (false, mkb (c :: w ++ 58 :: rest) l mk q adj ska k ind inds tp ta lws).
Proof.
  intros Hw Hl. cbn [forallb] in Hw. apply andb_prop in Hw as [Hc Hw].
  destruct (wch_facts c Hc) as (_ & _ & _ & _ & H45 & _).
  assert (Hl' : Nat.leb l 3 = false) by (apply Nat.leb_gt; lia).
  assert (Hl3 : Nat.leb l 2 = false) by (apply Nat.leb_gt; lia).
  unfold next_is_document_indicator, next_3_are, assert_buflen, mkb. cbn. rewrite Hl'. cbn.
  destruct w as [|a [|b [|d w]]]; cbn.
  - match goal with |- context [if is_blank_or_breakz ?t then _ else _] => destruct (is_blank_or_breakz t) end; cbn; [|reflexivity]. repeat (rewrite ?andb_false_r, ?Hl3, ?H45; cbn). reflexivity.
  - match goal with |- context [if is_blank_or_breakz ?t then _ else _] => destruct (is_blank_or_breakz t) end; cbn; [|reflexivity]. repeat (rewrite ?andb_false_r, ?Hl3, ?H45; cbn). reflexivity.
  - reflexivity.
  - cbn [forallb] in Hw. apply andb_prop in Hw as [_ Hw]. apply andb_prop in Hw as [_ Hw]. apply andb_prop in Hw as [Hd _].
    destruct (wch_facts d Hd) as (Hbd & _). rewrite Hbd. cbn. reflexivity.
Qed.

Lemma rev_word_ne (c : N) w : exists a t, rev w ++ [c] = a :: t.
Proof. destruct (rev w ++ [c]) as [|a t] eqn:E; [destruct (rev w); discriminate|eauto]. Qed.

Definition wlen (c : N) (w : list N) : N := N.of_nat (length (c :: w)).

(* a key: the word in front of ':' *)
Lemma scan_key_word F c w y r l i ln c0 q adj ska k ind inds ind1 inds1 tp ta lws :
  forallb wch (c :: w) = true -> is_blank_or_breakz y = true -> unroll_nb inds ind = (ind1, inds1) ->
  (2 * length w + 3 <= F)%nat ->
  exists l',
  scan_plain_scalar str_ops F (mkb (c :: w ++ 58 :: y :: r) l (mkm i ln c0) q adj ska k ind inds tp ta lws)
  = Ok ((spn (mkm i ln c0) (mkm (i + wlen c w) ln (c0 + wlen c w)), TScalar Plain (c :: w)),
        mkb (58 :: y :: r) l' (mkm (i + wlen c w) ln (c0 + wlen c w)) q adj ska k ind1 inds1 tp ta false).
Proof.
  intros Hw Hy Hnb HF. pose proof Hw as Hw0.
  cbn [forallb] in Hw. apply andb_prop in Hw as [Hc Hw].
  destruct (wch_facts c Hc) as (Hb & Hfw & H58 & H35 & H45 & _).
  destruct F as [|F]; [lia|].
  destruct (chunk_word_b w (S F) 0%nat [c] (Nat.max (Nat.max l 4) 128) (i + 1) ln (c0 + 1) q adj ska k ind1 inds1 tp ta 58 (y :: r)
              Hw ltac:(right; split; [reflexivity|exists y, r; split; [reflexivity|exact Hy]]) ltac:(lia)) as (l' & Ech).
  exists l'. destruct (rev_word_ne c w) as (a & t & Ea).
  unfold scan_plain_scalar, unroll_non_block_indents. unfold mkb at 1. unfold mkm. cbn. rewrite Hnb. cbn.
  assert (Edi : forall b, (if b && (c0 =? 0) then next_is_document_indicator str_ops else ret false)
            (mkb (c :: w ++ 58 :: y :: r) (Nat.max l 4) (mkm i ln c0) q adj ska k ind1 inds1 tp ta b)
          = Ok (false, mkb (c :: w ++ 58 :: y :: r) (Nat.max l 4) (mkm i ln c0) q adj ska k ind1 inds1 tp ta b)).
  { intros b. destruct (b && (c0 =? 0)); [apply docind_key; [exact Hw0|lia]|reflexivity]. }
  rw_b (Edi lws). cbn. rewrite H35. cbn. rewrite Hb. cbn. rewrite H58. cbn.
  destruct lws; cbn; nm; unfold chr in *; rw_b Ech; cbn; rewrite Ea; cbn;
    change (rev t ++ [a]) with (rev (a :: t)); rewrite <- Ea, rev_app_distr, rev_involutive; cbn [rev app];
    unfold spn, wlen, mkb, mkm; cbn [length]; repeat (f_equal; try lia).
Qed.

(* a scalar at the end of its line: the scanner goes on to the first character of the next line, which is not indented
   more than the current block collection (so it does not continue the scalar) *)
Lemma scan_value_word F c w c' tl l i ln c0 q adj ska k ind inds ind1 inds1 tp ta lws :
  forallb wch (c :: w) = true -> (lws && (c0 =? 0)) = false -> unroll_nb inds ind = (ind1, inds1) ->
  line_first tl -> (Z.of_nat c' <= ind1)%Z ->
  (2 * length w + 3 <= F)%nat -> (c' + 2 <= F)%nat ->
  exists l',
  scan_plain_scalar str_ops F (mkb (c :: w ++ 10 :: repeat 32 c' ++ tl) l (mkm i ln c0) q adj ska k ind inds tp ta lws)
  = Ok ((spn (mkm i ln c0) (mkm (i + wlen c w) ln (c0 + wlen c w)), TScalar Plain (c :: w)),
        mkb tl l' (mkm (i + wlen c w + 1 + N.of_nat c') (ln + 1) (N.of_nat c')) q adj true k ind1 inds1 tp ta true).
Proof.
  intros Hw Hdi Hnb Htl Hc' HF HF2.
  cbn [forallb] in Hw. apply andb_prop in Hw as [Hc Hw].
  destruct (wch_facts c Hc) as (Hb & Hfw & H58 & H35 & H45 & _).
  destruct F as [|F]; [lia|].
  destruct (chunk_word_b w (S F) 0%nat [c] (Nat.max (Nat.max l 4) 128) (i + 1) ln (c0 + 1) q adj ska k ind1 inds1 tp ta 10 (repeat 32 c' ++ tl)
              Hw ltac:(left; reflexivity) ltac:(lia)) as (l1 & Ech).
  destruct (plain_break c' (S F) (S F) (ind1 + 1)%Z (mkm i ln c0) tl (Nat.max l1 2) (i + 1 + N.of_nat (length w)) ln (c0 + 1 + N.of_nat (length w))
              q adj ska k ind1 inds1 tp ta ltac:(lia) Htl) as (l' & Ebr).
  exists l'. destruct (rev_word_ne c w) as (a & t & Ea).
  assert (Hcol : (Z.of_N (N.of_nat c') <? ind1 + 1)%Z = true) by (apply Z.ltb_lt; lia).
  unfold scan_plain_scalar, unroll_non_block_indents. unfold mkb at 1. unfold mkm. cbn. rewrite Hnb. cbn.
  rewrite Hdi. cbn. rewrite H35. cbn. rewrite Hb. cbn. rewrite H58. cbn.
  destruct lws; cbn; nm; unfold chr in *; rw_b Ech; cbn; rw_b Ebr; cbn; rewrite Hcol; cbn; rewrite Ea; cbn;
    change (rev t ++ [a]) with (rev (a :: t)); rewrite <- Ea, rev_app_distr, rev_involutive; cbn [rev app];
    unfold spn, wlen, mkb, mkm; cbn [length]; repeat (f_equal; try lia).
Qed.

(* ---------- one lemma per kind of token ---------- *)
(* save_simple_key in block context: a key at the column of the current block collection is required *)
Definition req (ind : Z) (inds : list indent_rec) (col : N) : bool :=
  (ind =? Z.of_N col)%Z && match inds with i :: _ => in_needs_block_end i | [] => false end.
Definition saved (ska : bool) (k : simple_key) (ind : Z) (inds : list indent_rec) (tp : N) (q : list token) (mk : marker) : simple_key :=
  if ska then newkey (req ind inds (m_col mk)) (tp + N.of_nat (length q)) mk else k.

Lemma save_key_b cs l mk q adj ska k ind inds tp ta lws :
  ((ind =? Z.of_N (m_col mk))%Z = true -> inds <> []) ->
  save_simple_key (mkb cs l mk q adj ska k ind inds tp ta lws)
  = Ok (tt, mkb cs l mk q adj ska (saved ska k ind inds tp q mk) ind inds tp ta lws).
Proof.
  intros H. unfold save_simple_key, saved, req, mkb. destruct ska; cbn; [|reflexivity].
  destruct (ind =? Z.of_N (m_col mk))%Z eqn:E; cbn; [|reflexivity].
  destruct inds as [|i r]; [exfalso; apply H; reflexivity|]. cbn. reflexivity.
Qed.
#[local] Arguments save_simple_key : simpl never.

Lemma word_key_step F c w y r l i ln c0 q adj ska k ind inds ind1 inds1 tp ta lws :
  forallb wch (c :: w) = true -> is_blank_or_breakz y = true -> unroll_nb inds ind = (ind1, inds1) ->
  ((ind =? Z.of_N c0)%Z = true -> inds <> []) ->
  (2 * length w + 3 <= F)%nat ->
  exists l',
  fetch_plain_scalar str_ops F (mkb (c :: w ++ 58 :: y :: r) l (mkm i ln c0) q adj ska k ind inds tp ta lws)
  = Ok (tt, mkb (58 :: y :: r) l' (mkm (i + wlen c w) ln (c0 + wlen c w))
              (q ++ [(spn (mkm i ln c0) (mkm (i + wlen c w) ln (c0 + wlen c w)), TScalar Plain (c :: w))]) adj false
              (saved ska k ind inds tp q (mkm i ln c0)) ind1 inds1 tp ta false).
Proof.
  intros Hw Hy Hnb Hreq HF.
  destruct (scan_key_word F c w y r l i ln c0 q adj false (saved ska k ind inds tp q (mkm i ln c0)) ind inds ind1 inds1 tp ta lws Hw Hy Hnb HF)
    as (l' & E).
  exists l'. unfold fetch_plain_scalar. cbn [bind].
  rewrite (save_key_b _ l (mkm i ln c0) q adj ska k ind inds tp ta lws Hreq). unfold disallow_simple_key. unfold mkb at 1. unfold mkm. cbn.
  rw_b E. cbn. reflexivity.
Qed.

Lemma word_value_step F c w c' tl l i ln c0 q adj ska k ind inds ind1 inds1 tp ta lws :
  forallb wch (c :: w) = true -> (lws && (c0 =? 0)) = false -> unroll_nb inds ind = (ind1, inds1) ->
  ((ind =? Z.of_N c0)%Z = true -> inds <> []) ->
  line_first tl -> (Z.of_nat c' <= ind1)%Z ->
  (2 * length w + 3 <= F)%nat -> (c' + 2 <= F)%nat ->
  exists l',
  fetch_plain_scalar str_ops F (mkb (c :: w ++ 10 :: repeat 32 c' ++ tl) l (mkm i ln c0) q adj ska k ind inds tp ta lws)
  = Ok (tt, mkb tl l' (mkm (i + wlen c w + 1 + N.of_nat c') (ln + 1) (N.of_nat c'))
              (q ++ [(spn (mkm i ln c0) (mkm (i + wlen c w) ln (c0 + wlen c w)), TScalar Plain (c :: w))]) adj true
              (saved ska k ind inds tp q (mkm i ln c0)) ind1 inds1 tp ta true).
Proof.
  intros Hw Hdi Hnb Hreq Htl Hc' HF HF2.
  destruct (scan_value_word F c w c' tl l i ln c0 q adj false (saved ska k ind inds tp q (mkm i ln c0)) ind inds ind1 inds1 tp ta lws
              Hw Hdi Hnb Htl Hc' HF HF2) as (l' & E).
  exists l'. unfold fetch_plain_scalar. cbn [bind].
  rewrite (save_key_b _ l (mkm i ln c0) q adj ska k ind inds tp ta lws Hreq). unfold disallow_simple_key. unfold mkb at 1. unfold mkm. cbn.
  rw_b E. cbn. reflexivity.
Qed.

(* ':' behind a key of a block mapping.  [newm]: the key opens the mapping (its column is right of the current indent);
   otherwise it is a further key of the current mapping *)

Lemma value_step_b F (newm : bool) y r l i ln c q0 kt adj ska rq ik ck ind inds tp ta lws :
  is_blank_or_breakz y = true -> (y =? 9) = false -> nb_top inds = false ->
  (if newm then (ind < Z.of_N ck)%Z /\ (length inds < 255)%nat else ind = Z.of_N ck /\ inds <> []) ->
  fetch_value str_ops F (mkb (58 :: y :: r) l (mkm i ln c) (q0 ++ [kt]) adj ska
                           (newkey rq (tp + N.of_nat (length q0)) (mkm ik ln ck)) ind inds tp ta lws)
  = Ok (tt, mkb (y :: r) (Nat.max l 1) (mkm (i + 1) ln (c + 1))
              ((q0 ++ (if newm then [(span_empty (mkm ik ln ck), TBlockMappingStart)] else []) ++ [key_tok (mkm ik ln ck); kt])
                 ++ [(span_empty (mkm i ln c), TValue)])
              adj false (unposs (newkey rq (tp + N.of_nat (length q0)) (mkm ik ln ck)))
              (Z.of_N ck + 1)%Z (nbl (Z.of_N ck) :: (if newm then lvl ind :: inds else inds)) tp ta false).
Proof.
  intros Hy H9 Hnb Hcase.
  assert (Hlt : (tp + N.of_nat (length q0) <? tp) = false) by (apply N.ltb_ge; lia).
  unfold fetch_value. unfold mkb at 1. unfold mkm, newkey. cbn. rewrite H9. cbn. rewrite Hlt. cbn.
  (erewrite insert_token_app; [| reflexivity]). cbn. nm.
  destruct newm.
  - destruct Hcase as [Hlt2 Hlen].
    rw_b (roll_push_ins ck TBlockMappingStart (mkm ik ln ck) (y :: r) (Nat.max l 1) (mkm (i + 1) ln (c + 1)) q0 [key_tok (mkm ik ln ck); kt] adj ska
            (newkey rq (tp + N.of_nat (length q0)) (mkm ik ln ck)) ind inds tp ta false Hnb Hlt2 Hlen).
    cbn. rw_b (roll_one_b (y :: r) (Nat.max l 1) (mkm (i + 1) ln (c + 1)) (q0 ++ (span_empty (mkm ik ln ck), TBlockMappingStart) :: [key_tok (mkm ik ln ck); kt]) adj ska
            (newkey rq (tp + N.of_nat (length q0)) (mkm ik ln ck)) (Z.of_N ck) (lvl ind) inds tp ta false eq_refl).
    cbn. unfold push_tok, mkb, mkm, unposs, nbl, lvl, key_tok. cbn. rewrite <- !app_assoc. reflexivity.
  - destruct Hcase as [-> Hne]. destruct inds as [|[ci [|]] rr]; try discriminate; [congruence|].
    rw_b (roll_same ck (Some (tp + N.of_nat (length q0))) TBlockMappingStart (mkm ik ln ck) (y :: r) (Nat.max l 1) (mkm (i + 1) ln (c + 1))
            (q0 ++ [key_tok (mkm ik ln ck); kt]) adj ska
            (newkey rq (tp + N.of_nat (length q0)) (mkm ik ln ck)) (lvl ci :: rr) tp ta false eq_refl).
    cbn. rw_b (roll_one_b (y :: r) (Nat.max l 1) (mkm (i + 1) ln (c + 1)) (q0 ++ [key_tok (mkm ik ln ck); kt]) adj ska
            (newkey rq (tp + N.of_nat (length q0)) (mkm ik ln ck)) (Z.of_N ck) (lvl ci) rr tp ta false eq_refl).
    cbn. unfold push_tok, mkb, mkm, unposs, nbl, lvl, key_tok. cbn. rewrite <- !app_assoc. reflexivity.
Qed.

(* '-' of a block sequence.  The effect of roll_indent on the stack is a hypothesis (roll_push / roll_same / roll_push_nb) *)
Lemma ws_none_no F (s : sc strin) c' cs : si_chars (sc_in s) = c' :: cs -> not_ws c' -> (1 <= F)%nat ->
  skip_ws_to_eol str_ops F SkipNo s
  = Ok ((false, false), set_in {| si_chars := c' :: cs; si_look := Nat.max (si_look (sc_in s)) 1 |} s).
Proof.
  intros Hc (H32 & H9 & H35) HF. destruct F as [|F]; [lia|].
  destruct s as [[chars look] mk toks ss se adj ska sks ind inds fl tp ta lws ifms]. cbn in Hc. subst chars.
  unfold skip_ws_to_eol, in_skip_ws_to_eol. ev. rewrite ?andb_false_r. cbn. unfold adv. destruct mk as [mi ml mc]. cbn. rewrite !N.add_0_r. reflexivity.
Qed.

Definition plain_last (q : list token) : Prop :=
  match snd (last q (span_empty mk0, TStreamEnd)) with TAnchor _ | TTag _ _ => False | _ => True end.
Lemma plain_last_nil : plain_last [].
Proof. exact I. Qed.
Lemma plain_last_be mk n : plain_last (repeat (be_tok mk) n).
Proof.
  unfold plain_last. induction n as [|n IH]; [exact I|]. cbn [repeat]. destruct n as [|n]; [exact I|]. exact IH.
Qed.

Definition entry_tok (mk : marker) : token := (span_empty mk, TBlockEntry).
Definition not_req (k : simple_key) : Prop := (sk_possible k && sk_required k) = false.

Section BlockEntry.
Variables (F : nat) (i ln c : N) (q q2 : list token) (ind ind2 : Z) (inds inds2 : list indent_rec).
Hypothesis Hroll : forall cs l mk adj ska k tp ta lws,
  roll_indent c None TBlockSequenceStart (mkm i ln c) (mkb cs l mk q adj ska k ind inds tp ta lws)
  = Ok (tt, mkb cs l mk q2 adj ska k ind2 inds2 tp ta lws).
Hypothesis Hq : plain_last q.

(* "- x": something follows on the line *)
Lemma entry_step_sp x r l adj k tp ta lws :
  (2 <= F)%nat -> not_ws x -> is_break x = false -> is_flow x = false -> not_req k ->
  fetch_block_entry str_ops F (mkb (45 :: 32 :: x :: r) l (mkm i ln c) q adj true k ind inds tp ta lws)
  = Ok (tt, mkb (x :: r) (Nat.max (Nat.max l 1) 2) (mkm (i + 2) ln (c + 2)) (q2 ++ [entry_tok (mkm (i + 2) ln (c + 2))]) adj true (unposs k)
              ind2 inds2 tp ta false).
Proof.
  intros HF Hx Hbr Hfl Hk. unfold not_req in Hk.
  unfold fetch_block_entry. unfold mkb at 1. unfold mkm. cbn.
  assert (Hlast : forall (A : Type) (a : span -> @M strin A) (b : @M strin A) s,
            (match last q (span_empty mk0, TStreamEnd) with (sp, TAnchor _) | (sp, TTag _ _) => a sp | _ => b end) s = b s).
  { intros A a b s. unfold plain_last in Hq. destruct (last q (span_empty mk0, TStreamEnd)) as [sp []]; cbn in Hq; try reflexivity; contradiction. }
  rewrite Hlast. cbn. nm. rw_b (Hroll (32 :: x :: r) l (mkm (i + 1) ln (c + 1)) adj true k tp ta false). cbn.
  (erewrite ws_one; [| reflexivity | exact Hx | exact HF]). cbn.
  (erewrite ws_none_no; [| reflexivity | exact Hx | lia]). cbn. rewrite Hbr, Hfl. cbn.
  unfold remove_simple_key. cbn. rewrite Hk. cbn. nm.
  unfold push_tok, mkb, mkm, entry_tok, unposs. cbn. repeat (f_equal; try lia).
Qed.

(* "-" at the end of its line: the indent is raised by one column (roll_one_col_indent) *)
Lemma entry_step_nl r l adj k tp ta lws i2 r2 :
  (1 <= F)%nat -> not_req k -> inds2 = i2 :: r2 -> in_needs_block_end i2 = true ->
  fetch_block_entry str_ops F (mkb (45 :: 10 :: r) l (mkm i ln c) q adj true k ind inds tp ta lws)
  = Ok (tt, mkb (10 :: r) (Nat.max (Nat.max l 1) 2) (mkm (i + 1) ln (c + 1)) (q2 ++ [entry_tok (mkm (i + 1) ln (c + 1))]) adj true (unposs k)
              (ind2 + 1)%Z (nbl ind2 :: inds2) tp ta false).
Proof.
  intros HF Hk Hi2 Hnb. unfold not_req in Hk. subst inds2.
  unfold fetch_block_entry. unfold mkb at 1. unfold mkm. cbn.
  assert (Hlast : forall (A : Type) (a : span -> @M strin A) (b : @M strin A) s,
            (match last q (span_empty mk0, TStreamEnd) with (sp, TAnchor _) | (sp, TTag _ _) => a sp | _ => b end) s = b s).
  { intros A a b s. unfold plain_last in Hq. destruct (last q (span_empty mk0, TStreamEnd)) as [sp []]; cbn in Hq; try reflexivity; contradiction. }
  rewrite Hlast. cbn. nm. rw_b (Hroll (10 :: r) l (mkm (i + 1) ln (c + 1)) adj true k tp ta false). cbn.
  (erewrite ws_none; [| reflexivity | repeat split; reflexivity | exact HF]). cbn.
  (erewrite ws_none_no; [| reflexivity | repeat split; reflexivity | lia]). cbn.
  erw_b (roll_one_b _ _ _ _ _ _ _ _ _ _ _ _ _ Hnb). cbn.
  unfold remove_simple_key. cbn. rewrite Hk. cbn. nm.
  unfold push_tok, mkb, mkm, entry_tok, unposs, nbl. cbn. repeat (f_equal; try lia).
Qed.
End BlockEntry.

(* ---------- fetch_next_token in block context ---------- *)
Definition fnt_tail (F : nat) : @M strin unit :=
  z <- next_is str_ops is_z ;; if z then fetch_stream_end else fnt_rest F.

Lemma fnt_b F cs0 l0 m0 q adj ska0 k ind inds tp ta lws0 cs l1 mk ska lws n ind' inds' :
  skip_to_next_token str_ops F (mkb cs0 (Nat.max l0 1) m0 q adj ska0 k ind inds tp ta lws0)
    = Ok (tt, mkb cs l1 mk q adj ska k ind inds tp ta lws) ->
  (stale_k k mk && sk_required k) = false ->
  unroll_pure (S (length inds)) (Z.of_N (m_col mk)) ind inds = Some (n, ind', inds') ->
  fetch_next_token str_ops F (mkb cs0 l0 m0 q adj ska0 k ind inds tp ta lws0)
  = fnt_tail F (mkb cs (Nat.max l1 4) mk (q ++ repeat (be_tok mk) n) adj ska (staled k mk) ind' inds' tp ta lws).
Proof.
  intros Hskip Hst Hun. rewrite fnt_unfold. unfold mkb at 1. cbn.
  unfold mkb in Hskip. rewrite Hskip. cbn.
  rw_b (stale_b cs l1 mk q adj ska k ind inds tp ta lws Hst). cbn.
  rw_b (unroll_b (Z.of_N (m_col mk)) cs l1 mk q adj ska (staled k mk) ind inds tp ta lws n ind' inds' Hun). cbn. reflexivity.
Qed.

Lemma tail_char F x cs l mk q adj ska k ind inds tp ta lws : (x =? 0) = false ->
  fnt_tail F (mkb (x :: cs) l mk q adj ska k ind inds tp ta lws) = fnt_rest F (mkb (x :: cs) l mk q adj ska k ind inds tp ta lws).
Proof. intros H. unfold fnt_tail, mkb. cbn. unfold is_z. rewrite H. reflexivity. Qed.
Lemma tail_eof F l mk q adj ska k ind inds tp ta lws :
  fnt_tail F (mkb [] l mk q adj ska k ind inds tp ta lws) = fetch_stream_end (mkb [] l mk q adj ska k ind inds tp ta lws).
Proof. reflexivity. Qed.

(* the dispatch on the first character *)
Lemma leb_look l : (4 <= l)%nat -> Nat.leb l 3 = false /\ Nat.leb l 2 = false.
Proof. intros H. split; apply Nat.leb_gt; lia. Qed.

Lemma rest_dash F y r l i ln c q adj ska k ind inds tp ta lws :
  (4 <= l)%nat -> is_blank_or_breakz y = true -> (y =? 45) = false -> (Z.of_N c <? ind)%Z = false ->
  fnt_rest F (mkb (45 :: y :: r) l (mkm i ln c) q adj ska k ind inds tp ta lws)
  = fetch_block_entry str_ops F (mkb (45 :: y :: r) l (mkm i ln c) q adj ska k ind inds tp ta lws).
Proof.
  intros Hl Hy H45 Hcol. destruct (leb_look l Hl) as [L3 L2].
  unfold fnt_rest, mkb, mkm. cbn. destruct (c =? 0); cbn.
  - unfold next_is_document_start, next_is_document_end, next_3_are, assert_buflen. cbn. rewrite L3. cbn. rewrite L2. cbn.
    rewrite H45. cbn. rewrite L3. cbn. rewrite L2. cbn. rewrite Hcol. cbn. rewrite Hy. cbn. reflexivity.
  - rewrite Hcol. cbn. rewrite Hy. cbn. reflexivity.
Qed.

Lemma rest_colon F y r l i ln c q adj ska k ind inds tp ta lws :
  is_blank_or_breakz y = true -> (c =? 0) = false -> (Z.of_N c <? ind)%Z = false ->
  fnt_rest F (mkb (58 :: y :: r) l (mkm i ln c) q adj ska k ind inds tp ta lws)
  = fetch_value str_ops F (mkb (58 :: y :: r) l (mkm i ln c) q adj ska k ind inds tp ta lws).
Proof.
  intros Hy Hc Hcol. unfold fnt_rest, mkb, mkm. cbn. rewrite Hc. cbn. rewrite Hcol. cbn. rewrite Hy. cbn. reflexivity.
Qed.

(* a word away from column 0 *)
Lemma rest_word_b F x cs l i ln c q adj ska k ind inds tp ta lws :
  wch x = true -> (c =? 0) = false -> (Z.of_N c <? ind)%Z = false ->
  fnt_rest F (mkb (x :: cs) l (mkm i ln c) q adj ska k ind inds tp ta lws)
  = fetch_plain_scalar str_ops F (mkb (x :: cs) l (mkm i ln c) q adj ska k ind inds tp ta lws).
Proof.
  intros Hx Hc Hcol.
  destruct (wch_facts x Hx) as (Hb & Hfw & H58 & H35 & H45 & H63 & H42 & H38 & H33 & H124 & H62 & H39 & H34 & H37 & H64 & H96).
  destruct (flow_facts x Hfw) as (H44 & H91 & H93 & H123 & H125).
  unfold fnt_rest, mkb, mkm. cbn. rewrite Hc. cbn. rewrite Hcol. cbn. rwf. cbn. reflexivity.
Qed.

(* a key (a word in front of ':') at any column, also column 0: it is no document marker *)
Lemma rest_key F x w rest l i ln c q adj ska k ind inds tp ta lws :
  forallb wch (x :: w) = true -> (4 <= l)%nat -> (Z.of_N c <? ind)%Z = false ->
  fnt_rest F (mkb (x :: w ++ 58 :: rest) l (mkm i ln c) q adj ska k ind inds tp ta lws)
  = fetch_plain_scalar str_ops F (mkb (x :: w ++ 58 :: rest) l (mkm i ln c) q adj ska k ind inds tp ta lws).
Proof.
  intros Hw Hl Hcol. destruct (c =? 0) eqn:Hc; [|cbn [forallb] in Hw; apply andb_prop in Hw as [Hx _]; apply rest_word_b; assumption].
  destruct (leb_look l Hl) as [L3 L2].
  cbn [forallb] in Hw. apply andb_prop in Hw as [Hx Hw].
  destruct (wch_facts x Hx) as (Hb & Hfw & H58 & H35 & H45 & H63 & H42 & H38 & H33 & H124 & H62 & H39 & H34 & H37 & H64 & H96).
  destruct (flow_facts x Hfw) as (H44 & H91 & H93 & H123 & H125).
  assert (Hend : next_is_document_end str_ops (mkb (x :: w ++ 58 :: rest) l (mkm i ln c) q adj ska k ind inds tp ta lws)
                 = Ok (false, mkb (x :: w ++ 58 :: rest) l (mkm i ln c) q adj ska k ind inds tp ta lws)).
  { unfold next_is_document_end, next_3_are, assert_buflen, mkb. cbn. rewrite L3. cbn. rewrite L2. cbn.
    destruct w as [|a [|b [|d w]]]; cbn.
    - rewrite andb_false_r. reflexivity.
    - rewrite andb_false_r. reflexivity.
    - destruct ((x =? 46) && (a =? 46) && (b =? 46)); reflexivity.
    - cbn [forallb] in Hw. apply andb_prop in Hw as [_ Hw]. apply andb_prop in Hw as [_ Hw]. apply andb_prop in Hw as [Hd _].
      destruct (wch_facts d Hd) as (Hbd & _). destruct ((x =? 46) && (a =? 46) && (b =? 46)); cbn; [rewrite Hbd|]; reflexivity. }
  unfold fnt_rest. unfold mkb at 1. unfold mkm at 1. cbn. rewrite Hc. cbn. rewrite H37. cbn.
  unfold next_is_document_start, next_3_are, assert_buflen. cbn. rewrite L3. cbn. rewrite L2. cbn. rewrite H45. cbn.
  unfold mkb, mkm in Hend. rewrite Hend. cbn. rewrite Hcol. cbn. rwf. cbn. reflexivity.
Qed.

(* the end of the input, at column 0 *)
Definition se_tok (mk : marker) : token := (span_empty mk, TStreamEnd).
Lemma stream_end_b l i ln q adj ska k ind inds tp ta lws n ind' inds' :
  (sk_required k && sk_possible k) = false ->
  unroll_pure (S (length inds)) (-1)%Z ind inds = Some (n, ind', inds') ->
  fetch_stream_end (mkb [] l (mkm i ln 0) q adj ska k ind inds tp ta lws)
  = Ok (tt, mkb [] l (mkm i ln 0) ((q ++ repeat (be_tok (mkm i ln 0)) n) ++ [se_tok (mkm i ln 0)]) adj false (unposs k) ind' inds' tp ta lws).
Proof.
  intros Hk Hun. unfold fetch_stream_end. unfold mkb at 1. unfold mkm. cbn. rewrite Hk. cbn.
  rw_b (unroll_b (-1)%Z [] l (mkm i ln 0) q adj ska (unposs k) ind inds tp ta lws n ind' inds' Hun). cbn.
  unfold remove_simple_key. cbn. reflexivity.
Qed.

(* ---------- handing out the queue between the fetches ---------- *)
(* next_token with an explicit budget of fetches *)
Definition popk : @M strin (option token) :=
  s <- get ;;
  match sc_tokens s with
  | [] => fail 104 (sc_mark s)
  | t :: r =>
      put (set_tp (sc_tokens_parsed s + 1) (set_ta false (set_tokens r s))) ;;;
      (match snd t with TStreamEnd => modify (set_se true) | _ => ret tt end) ;;;
      ret (Some t)
  end.
Definition ntb (F b : nat) : @M strin (option token) :=
  s <- get ;; (if sc_token_available s then ret tt else fetch_more_tokens str_ops F b) ;;; popk.
#[local] Arguments popk : simpl never.
#[local] Arguments ntb : simpl never.

Lemma nt_ntb F b (s : sc strin) : F = b -> sc_stream_end s = false -> next_token str_ops F s = ntb F b s.
Proof. intros <- H. unfold next_token, ntb, popk. cbn. rewrite H. reflexivity. Qed.

Lemma ntb_fetch F b (s s1 s2 : sc strin) :
  sc_token_available s = false -> need_comp s = Ok (true, s1) -> fetch_next_token str_ops F s1 = Ok (tt, s2) ->
  sc_token_available s2 = false ->
  ntb F (S b) s = ntb F b s2.
Proof.
  intros Hta Hn Hf Hta2. unfold ntb. cbn. rewrite Hta, Hta2. rewrite fmt_S. cbn. rewrite Hn. cbn. rewrite Hf. reflexivity.
Qed.

Lemma ntb_pop F b (s s1 : sc strin) :
  sc_token_available s = false -> need_comp s = Ok (false, s1) ->
  ntb F (S b) s = popk (set_ta true s1).
Proof. intros Hta Hn. unfold ntb. cbn. rewrite Hta. rewrite fmt_S. cbn. rewrite Hn. cbn. reflexivity. Qed.

Lemma popk_b cs l mk t r adj ska k ind inds tp ta lws : snd t <> TStreamEnd ->
  popk (mkb cs l mk (t :: r) adj ska k ind inds tp ta lws) = Ok (Some t, mkb cs l mk r adj ska k ind inds (tp + 1) false lws).
Proof. intros Ht. unfold popk, mkb. cbn. destruct t as [sp kd]. cbn [snd] in Ht. destruct kd; try congruence; reflexivity. Qed.

Definition delivers (F : nat) (s : sc strin) (toks : list token) (s' : sc strin) : Prop :=
  forall fuel acc, scan_all str_ops F (length toks + fuel) s acc = scan_all str_ops F fuel s' (rev toks ++ acc).

Lemma delivers_nil F s : delivers F s [] s.
Proof. intros fuel acc. reflexivity. Qed.
Lemma delivers_trans F s t1 s1 t2 s2 : delivers F s t1 s1 -> delivers F s1 t2 s2 -> delivers F s (t1 ++ t2) s2.
Proof.
  intros H1 H2 fuel acc. rewrite app_length, <- Nat.add_assoc, H1, H2, rev_app_distr, <- app_assoc. reflexivity.
Qed.
Lemma delivers_one F (s s' : sc strin) t : next_token str_ops F s = Ok (Some t, s') -> delivers F s [t] s'.
Proof. intros H fuel acc. cbn [length plus rev app]. rewrite scan_all_S, H. reflexivity. Qed.

(* popping while no key is pending at the head of the queue *)
Lemma pop_b F cs l mk t r adj ska k ind inds tp lws :
  (1 <= F)%nat -> snd t <> TStreamEnd -> (stale_k k mk && sk_required k) = false ->
  (sk_possible (staled k mk) && (sk_token_number (staled k mk) =? tp)) = false ->
  next_token str_ops F (mkb cs l mk (t :: r) adj ska k ind inds tp false lws)
  = Ok (Some t, mkb cs l mk r adj ska (staled k mk) ind inds (tp + 1) false lws).
Proof.
  intros HF Ht Hst Hnp. destruct F as [|F']; [lia|].
  rewrite (nt_ntb (S F') (S F')) by reflexivity.
  pose proof (need_b cs l mk t r adj ska k ind inds tp false lws Hst) as Hn. cbn zeta in Hn. fold (staled k mk) in Hn.
  rewrite Hnp in Hn. cbn [orb] in Hn.
  erewrite ntb_pop; [| reflexivity | exact Hn].
  apply (popk_b cs l mk t r adj ska (staled k mk) ind inds tp true lws Ht).
Qed.

Lemma staled_idem k mk : staled (staled k mk) mk = staled k mk.
Proof. unfold staled. destruct (stale_k k mk) eqn:E; [reflexivity|]. rewrite E. reflexivity. Qed.
Lemma staled_req k mk : sk_required (staled k mk) = sk_required k.
Proof. unfold staled. destruct (stale_k k mk); reflexivity. Qed.
Lemma stale_staled k mk : (stale_k k mk && sk_required k) = false -> (stale_k (staled k mk) mk && sk_required (staled k mk)) = false.
Proof. intros H. unfold staled. destruct (stale_k k mk) eqn:E; [reflexivity|]. rewrite E. reflexivity. Qed.

(* the whole queue is handed out when no key is possible any more *)
Lemma drain_b F ts : forall cs l mk adj ska k ind inds tp lws,
  (1 <= F)%nat -> Forall (fun t => snd t <> TStreamEnd) ts -> ts <> [] ->
  (stale_k k mk && sk_required k) = false -> sk_possible (staled k mk) = false ->
  delivers F (mkb cs l mk ts adj ska k ind inds tp false lws) ts
             (mkb cs l mk [] adj ska (staled k mk) ind inds (tp + N.of_nat (length ts)) false lws).
Proof.
  induction ts as [|t ts IH]; intros cs l mk adj ska k ind inds tp lws HF Hts Hne Hst Hnp; [congruence|].
  inversion Hts as [|? ? Ht Hts']; subst.
  assert (E1 : next_token str_ops F (mkb cs l mk (t :: ts) adj ska k ind inds tp false lws)
               = Ok (Some t, mkb cs l mk ts adj ska (staled k mk) ind inds (tp + 1) false lws)).
  { apply pop_b; try assumption. rewrite Hnp. reflexivity. }
  destruct ts as [|t2 ts].
  - replace (tp + N.of_nat (length [t])) with (tp + 1) by (cbn [length]; lia). apply delivers_one, E1.
  - change (t :: t2 :: ts) with ([t] ++ t2 :: ts) at 2. eapply delivers_trans; [apply delivers_one, E1|].
    replace (tp + N.of_nat (length (t :: t2 :: ts))) with (tp + 1 + N.of_nat (length (t2 :: ts))) by (cbn [length]; lia).
    rewrite <- (staled_idem k mk) at 2.
    apply IH; try assumption; [discriminate | apply stale_staled, Hst | rewrite staled_idem; exact Hnp].
Qed.

(* more budget does not change a successful fetch_more_tokens *)
Lemma fmt_mono F b : forall (s : sc strin) r, fetch_more_tokens str_ops F b s = Ok r -> fetch_more_tokens str_ops F (S b) s = Ok r.
Proof.
  induction b as [|b IH]; intros s r H; [discriminate|].
  rewrite fmt_S in H. rewrite fmt_S. cbn in H |- *.
  destruct (need_comp s) as [[nd s1]| | |]; try discriminate. destruct nd; [|exact H].
  cbn in H |- *. destruct (fetch_next_token str_ops F s1) as [[u s2]| | |]; try discriminate.
  apply IH, H.
Qed.
Lemma ntb_mono F b (s : sc strin) r : ntb F b s = Ok r -> ntb F (S b) s = Ok r.
Proof.
  unfold ntb. cbn. destruct (sc_token_available s); [auto|].
  destruct (fetch_more_tokens str_ops F b s) as [[u s1]| | |] eqn:E; try discriminate.
  intros H. rewrite (fmt_mono F b s _ E). exact H.
Qed.
Lemma ntb_mono_le F b b' (s : sc strin) r : (b <= b')%nat -> ntb F b s = Ok r -> ntb F b' s = Ok r.
Proof. intros Hb H. induction Hb as [|b' Hb IH]; [exact H|]. apply ntb_mono. exact IH. Qed.
Lemma nt_of_ntb F b (s : sc strin) r : sc_stream_end s = false -> (b <= F)%nat -> ntb F b s = Ok r -> next_token str_ops F s = Ok r.
Proof.
  intros Hse Hb H. rewrite (nt_ntb F F) by (reflexivity || exact Hse). exact (ntb_mono_le F b F s r Hb H).
Qed.

(* popping the tokens in front of a pending key *)
Lemma pop_pending F cs l mk t r adj ska k ind inds tp lws :
  (1 <= F)%nat -> snd t <> TStreamEnd -> stale_k k mk = false -> (sk_token_number k =? tp) = false ->
  next_token str_ops F (mkb cs l mk (t :: r) adj ska k ind inds tp false lws)
  = Ok (Some t, mkb cs l mk r adj ska k ind inds (tp + 1) false lws).
Proof.
  intros HF Ht Hst Htn.
  rewrite (pop_b F cs l mk t r adj ska k ind inds tp lws HF Ht); unfold staled; rewrite Hst; [reflexivity|reflexivity|].
  rewrite Htn. apply andb_false_r.
Qed.

Lemma drain_pending F ts : forall cs l mk r adj ska k ind inds tp lws,
  (1 <= F)%nat -> Forall (fun t => snd t <> TStreamEnd) ts -> stale_k k mk = false ->
  sk_token_number k = tp + N.of_nat (length ts) ->
  delivers F (mkb cs l mk (ts ++ r) adj ska k ind inds tp false lws) ts
             (mkb cs l mk r adj ska k ind inds (tp + N.of_nat (length ts)) false lws).
Proof.
  induction ts as [|t ts IH]; intros cs l mk r adj ska k ind inds tp lws HF Hts Hst Htn.
  - cbn [app length N.of_nat]. rewrite N.add_0_r. apply delivers_nil.
  - inversion Hts as [|? ? Ht Hts']; subst.
    change (t :: ts) with ([t] ++ ts) at 2. eapply delivers_trans.
    + apply delivers_one. cbn [app]. apply pop_pending; try assumption. apply N.eqb_neq. rewrite Htn. cbn [length]. lia.
    + replace (tp + N.of_nat (length (t :: ts))) with (tp + 1 + N.of_nat (length ts)) by (cbn [length]; lia).
      apply IH; try assumption. rewrite Htn. cbn [length]. lia.
Qed.

Lemma ntb_pop_b F b cs l mk t r adj ska k ind inds tp lws :
  snd t <> TStreamEnd -> (stale_k k mk && sk_required k) = false ->
  (sk_possible (staled k mk) && (sk_token_number (staled k mk) =? tp)) = false ->
  ntb F (S b) (mkb cs l mk (t :: r) adj ska k ind inds tp false lws)
  = Ok (Some t, mkb cs l mk r adj ska (staled k mk) ind inds (tp + 1) false lws).
Proof.
  intros Ht Hst Hnp.
  pose proof (need_b cs l mk t r adj ska k ind inds tp false lws Hst) as Hn. cbn zeta in Hn. fold (staled k mk) in Hn.
  rewrite Hnp in Hn. cbn [orb] in Hn.
  erewrite ntb_pop; [| reflexivity | exact Hn].
  apply (popk_b cs l mk t r adj ska (staled k mk) ind inds tp true lws Ht).
Qed.

Lemma need_pending cs l mk t r adj ska k ind inds tp ta lws :
  stale_k k mk = false -> sk_possible k = true -> sk_token_number k = tp ->
  need_comp (mkb cs l mk (t :: r) adj ska k ind inds tp ta lws) = Ok (true, mkb cs l mk (t :: r) adj ska k ind inds tp ta lws).
Proof.
  intros Hst Hp Htn. rewrite need_b by (rewrite Hst; reflexivity). cbn zeta. rewrite Hst, Hp, Htn, N.eqb_refl. reflexivity.
Qed.

Definition no_se (ts : list token) : Prop := Forall (fun t => snd t <> TStreamEnd) ts.

(* a state between two units: nothing queued *)
Definition canon (s : sc strin) : Prop :=
  sc_tokens s = [] /\ sc_token_available s = false /\ sc_stream_end s = false.
Lemma need_canon (s : sc strin) : sc_tokens s = [] -> need_comp s = Ok (true, s).
Proof. intros H. unfold need_comp. cbn. rewrite H. reflexivity. Qed.

(* one fetch on an empty queue, then the queue is handed out *)
Lemma unit1 F (s0 : sc strin) cs l mk t ts adj ska k ind inds tp lws :
  (2 <= F)%nat -> canon s0 ->
  fetch_next_token str_ops F s0 = Ok (tt, mkb cs l mk (t :: ts) adj ska k ind inds tp false lws) ->
  no_se (t :: ts) -> (stale_k k mk && sk_required k) = false -> sk_possible (staled k mk) = false ->
  delivers F s0 (t :: ts)
             (mkb cs l mk [] adj ska (staled k mk) ind inds (tp + N.of_nat (length (t :: ts))) false lws).
Proof.
  intros HF (Hq0 & Hta0 & Hse0) Hf Hse Hst Hnp. inversion Hse as [|? ? Ht Hts]; subst.
  assert (E1 : next_token str_ops F s0
               = Ok (Some t, mkb cs l mk ts adj ska (staled k mk) ind inds (tp + 1) false lws)).
  { apply (nt_of_ntb F 2); [exact Hse0 | exact HF |].
    erewrite ntb_fetch; [ | exact Hta0 | apply need_canon, Hq0 | exact Hf | reflexivity].
    apply ntb_pop_b; [exact Ht | exact Hst | rewrite Hnp; reflexivity]. }
  destruct ts as [|t2 ts].
  - replace (tp + N.of_nat (length [t])) with (tp + 1) by (cbn [length]; lia). apply delivers_one, E1.
  - eapply (delivers_trans F s0 [t] _ (t2 :: ts)); [apply delivers_one, E1|].
    replace (tp + N.of_nat (length (t :: t2 :: ts))) with (tp + 1 + N.of_nat (length (t2 :: ts))) by (cbn [length]; lia).
    rewrite <- (staled_idem k mk) at 2.
    apply drain_b; try assumption; [lia | discriminate | apply stale_staled, Hst | rewrite staled_idem; exact Hnp].
Qed.

(* a key: the word is fetched, the tokens in front of it are handed out, then ':' is fetched (the key is pending at the head
   of the queue), then the queue is handed out *)
Lemma unit2 F (s0 : sc strin) adj tp
            cs1 l1 m1 pre kt ska1 rq mkk ind1 inds1 lws1
            cs2 l2 m2 t3 ts3 ska2 k2 ind2 inds2 lws2 :
  (3 <= F)%nat -> canon s0 ->
  fetch_next_token str_ops F s0
    = Ok (tt, mkb cs1 l1 m1 (pre ++ [kt]) adj ska1 (newkey rq (tp + N.of_nat (length pre)) mkk) ind1 inds1 tp false lws1) ->
  stale_k (newkey rq (tp + N.of_nat (length pre)) mkk) m1 = false ->
  fetch_next_token str_ops F (mkb cs1 l1 m1 [kt] adj ska1 (newkey rq (tp + N.of_nat (length pre)) mkk) ind1 inds1 (tp + N.of_nat (length pre)) false lws1)
    = Ok (tt, mkb cs2 l2 m2 (t3 :: ts3) adj ska2 k2 ind2 inds2 (tp + N.of_nat (length pre)) false lws2) ->
  no_se pre -> no_se (t3 :: ts3) -> (stale_k k2 m2 && sk_required k2) = false -> sk_possible (staled k2 m2) = false ->
  delivers F s0 (pre ++ t3 :: ts3)
             (mkb cs2 l2 m2 [] adj ska2 (staled k2 m2) ind2 inds2 (tp + N.of_nat (length pre) + N.of_nat (length (t3 :: ts3))) false lws2).
Proof.
  intros HF (Hq0 & Hta0 & Hse0) Hf1 Hst1 Hf2 Hse1 Hse3 Hst2 Hnp2.
  set (K := newkey rq (tp + N.of_nat (length pre)) mkk) in *.
  set (tp2 := tp + N.of_nat (length pre)) in *.
  inversion Hse3 as [|? ? Ht3 Hts3]; subst.
  (* from the state in which the key is at the head of the queue *)
  assert (Emid : forall b, ntb F (S (S b)) (mkb cs1 l1 m1 [kt] adj ska1 K ind1 inds1 tp2 false lws1)
                 = Ok (Some t3, mkb cs2 l2 m2 ts3 adj ska2 (staled k2 m2) ind2 inds2 (tp2 + 1) false lws2)).
  { intros b. erewrite ntb_fetch; [ | reflexivity | apply need_pending; [exact Hst1 | reflexivity | reflexivity] | exact Hf2 | reflexivity].
    apply ntb_pop_b; [exact Ht3 | exact Hst2 | rewrite Hnp2; reflexivity]. }
  assert (Etail : delivers F (mkb cs2 l2 m2 ts3 adj ska2 (staled k2 m2) ind2 inds2 (tp2 + 1) false lws2) ts3
                    (mkb cs2 l2 m2 [] adj ska2 (staled k2 m2) ind2 inds2 (tp2 + N.of_nat (length (t3 :: ts3))) false lws2)).
  { destruct ts3 as [|t4 ts3].
    - replace (tp2 + N.of_nat (length [t3])) with (tp2 + 1) by (cbn [length]; lia). apply delivers_nil.
    - replace (tp2 + N.of_nat (length (t3 :: t4 :: ts3))) with (tp2 + 1 + N.of_nat (length (t4 :: ts3))) by (cbn [length]; lia).
      rewrite <- (staled_idem k2 m2) at 2.
      apply drain_b; try assumption; [lia | discriminate | apply stale_staled, Hst2 | rewrite staled_idem; exact Hnp2]. }
  destruct pre as [|p pre].
  - cbn [app length N.of_nat] in *. unfold tp2 in *. rewrite N.add_0_r in *.
    change (t3 :: ts3) with ([t3] ++ ts3). eapply delivers_trans; [|exact Etail].
    apply delivers_one. apply (nt_of_ntb F 3); [exact Hse0 | exact HF |].
    erewrite ntb_fetch; [ | exact Hta0 | apply need_canon, Hq0 | exact Hf1 | reflexivity].
    apply Emid.
  - inversion Hse1 as [|? ? Hp Hpre]; subst.
    change ((p :: pre) ++ t3 :: ts3) with ([p] ++ (pre ++ ([t3] ++ ts3))).
    eapply delivers_trans; [|eapply delivers_trans; [|eapply delivers_trans; [|exact Etail]]].
    + apply delivers_one. apply (nt_of_ntb F 2); [exact Hse0 | lia |].
      erewrite ntb_fetch; [ | exact Hta0 | apply need_canon, Hq0 | exact Hf1 | reflexivity].
      cbn [app]. apply ntb_pop_b; [exact Hp | rewrite Hst1; reflexivity |].
      unfold staled. rewrite Hst1. unfold K, newkey. cbn [sk_possible sk_token_number andb].
      apply N.eqb_neq. unfold tp2. cbn [length]. lia.
    + unfold staled. rewrite Hst1.
      apply (drain_pending F pre cs1 l1 m1 [kt] adj ska1 K ind1 inds1 (tp + 1) lws1); try assumption; [lia|].
      unfold K, newkey, tp2. cbn [sk_token_number length]. unfold token in *. lia.
    + apply delivers_one. apply (nt_of_ntb F 2); [reflexivity | lia |].
      match goal with |- ntb _ _ (mkb _ _ _ _ _ _ _ _ _ ?x _ _) = _ =>
        replace x with tp2 by (unfold tp2; cbn [length]; unfold token in *; lia) end.
      apply Emid.
Qed.

(* ---------- where the scanner stands between two units ---------- *)
(* the pending key, if any, belongs to an earlier line and is not required (it goes stale silently) *)
Definition key_done (k : simple_key) (ln : N) : Prop :=
  sk_possible k = false \/ (sk_required k = false /\ m_line (sk_mark k) < ln).
Lemma key_done_stale k i ln c : key_done k ln ->
  (stale_k k (mkm i ln c) && sk_required k) = false /\ sk_possible (staled k (mkm i ln c)) = false.
Proof.
  unfold key_done, staled, stale_k. intros [Hp | [Hr Hl]].
  - rewrite Hp. cbn. split; [reflexivity|exact Hp].
  - rewrite Hr, andb_false_r. split; [reflexivity|]. destruct (sk_possible k) eqn:Hp; cbn; [|exact Hp].
    replace (m_line (sk_mark k) <? ln) with true by (symmetry; apply N.ltb_lt; exact Hl). reflexivity.
Qed.

(* at a token: the queue is empty, a simple key may start here, the stack holds the open block collections [cols] *)
Definition at_tok (s : sc strin) (cs : list N) (c : nat) (cols : list N) : Prop :=
  exists l i ln adj k tp lws,
    s = mkb cs l (mkm i ln (N.of_nat c)) [] adj true k (fst (stk cols)) (snd (stk cols)) tp false lws /\ key_done k ln.
(* behind "-" at the end of its line or behind "key:": the indent was raised by one column over the innermost collection *)
Definition at_below (s : sc strin) (cs : list N) (cols : list N) : Prop :=
  exists l i ln c0 adj ska k tp top rest,
    cols = top :: rest /\ top <= c0 /\
    s = mkb cs l (mkm i ln c0) [] adj ska k (Z.of_N top + 1)%Z (nbl (Z.of_N top) :: snd (stk cols)) tp false false /\
    sk_possible k = false.

Lemma first_ok_not_ws x : first_ok x -> not_ws x.
Proof. intros (H32 & H9 & _ & _ & H35). repeat split; assumption. Qed.

Lemma stk_top_le cols c : base_le cols (Z.of_N c) -> (fst (stk cols) <= Z.of_N c)%Z.
Proof. destruct cols as [|b r]; cbn; intros H; lia. Qed.


Lemma unroll_keep fuel col ind inds : (ind <= col)%Z -> unroll_pure (S fuel) col ind inds = Some (O, ind, inds).
Proof. intros H. cbn [unroll_pure]. replace (col <? ind)%Z with false by (symmetry; apply Z.ltb_ge; exact H). reflexivity. Qed.

Lemma canon_b cs l mk adj ska k ind inds tp lws : canon (mkb cs l mk [] adj ska k ind inds tp false lws).
Proof. repeat split. Qed.

(* arriving at the first token of a line (or of a compact collection): the collections right of it are closed *)
Lemma arrive_tok F s x cs c ext base :
  at_tok s (x :: cs) c (ext ++ base) -> first_ok x -> (x =? 0) = false ->
  Forall (fun e => (Z.of_nat c < Z.of_N e)%Z) ext -> base_le base (Z.of_nat c) -> (1 <= F)%nat ->
  canon s /\
  exists l' i ln adj k tp lws,
    (4 <= l')%nat /\ sk_possible k = false /\
    fetch_next_token str_ops F s
    = fnt_rest F (mkb (x :: cs) l' (mkm i ln (N.of_nat c)) (repeat (be_tok (mkm i ln (N.of_nat c))) (length ext)) adj true k
                       (fst (stk base)) (snd (stk base)) tp false lws).
Proof.
  intros (l & i & ln & adj & k & tp & lws & -> & Hk) Hx Hx0 Hext Hbase HF. split; [apply canon_b|].
  destruct (key_done_stale k i ln (N.of_nat c) Hk) as [Hst Hnp].
  exists (Nat.max (Nat.max (Nat.max l 1) 1) 4), i, ln, adj, (staled k (mkm i ln (N.of_nat c))), tp, lws.
  split; [lia|]. split; [exact Hnp|].
  erewrite fnt_b; [ | apply skip_none; [exact HF | exact Hx] | exact Hst
                    | cbn [m_col mkm]; rewrite nat_N_Z; apply unroll_stk; [exact Hext | exact Hbase | rewrite stk_len, app_length; lia] ].
  cbn [app]. apply tail_char, Hx0.
Qed.

(* arriving below "-" / "key:": the line break and the indentation are skipped, nothing is closed *)
Lemma arrive_below F s c x cs cols :
  at_below s (10 :: repeat 32 c ++ x :: cs) cols -> first_ok x -> (x =? 0) = false ->
  (match cols with t :: _ => t < N.of_nat c | [] => True end) -> (c + 2 <= F)%nat ->
  canon s /\
  exists l' i ln adj k tp top rest,
    cols = top :: rest /\ (4 <= l')%nat /\ sk_possible k = false /\
    fetch_next_token str_ops F s
    = fnt_rest F (mkb (x :: cs) l' (mkm i ln (N.of_nat c)) [] adj true k
                       (Z.of_N top + 1)%Z (nbl (Z.of_N top) :: snd (stk cols)) tp false true).
Proof.
  intros (l & i & ln & c0 & adj & ska & k & tp & top & rest & -> & Htop & -> & Hk) Hx Hx0 Hc HF. split; [apply canon_b|].
  exists (Nat.max (Nat.max (Nat.max l 1) 2) 4), (i + 1 + N.of_nat c), (ln + 1), adj, k, tp, top, rest.
  split; [reflexivity|]. split; [lia|]. split; [exact Hk|].
  erewrite fnt_b; [ | apply skip_gap; [lia | exact Hx] | rewrite (stale_k_not_possible _ _ Hk); reflexivity
                    | cbn [m_col mkm]; apply unroll_keep; lia ].
  unfold staled. rewrite (stale_k_not_possible _ _ Hk). cbn [repeat]. rewrite app_nil_r. apply tail_char, Hx0.
Qed.

(* the blank behind "key:" *)
Lemma arrive_blank F s x cs cols :
  at_below s (32 :: x :: cs) cols -> first_ok x -> (x =? 0) = false -> (2 <= F)%nat ->
  canon s /\
  exists l' i ln c1 adj ska k tp top rest,
    cols = top :: rest /\ top < c1 /\ (4 <= l')%nat /\ sk_possible k = false /\
    fetch_next_token str_ops F s
    = fnt_rest F (mkb (x :: cs) l' (mkm i ln c1) [] adj ska k
                       (Z.of_N top + 1)%Z (nbl (Z.of_N top) :: snd (stk cols)) tp false false).
Proof.
  intros (l & i & ln & c0 & adj & ska & k & tp & top & rest & -> & Htop & -> & Hk) Hx Hx0 HF. split; [apply canon_b|].
  destruct Hx as (H32 & H9 & H10 & H13 & H35).
  exists (Nat.max (Nat.max (Nat.max l 1) 1) 4), (i + N.of_nat 1), ln, (c0 + N.of_nat 1), adj, ska, k, tp, top, rest.
  split; [reflexivity|]. split; [lia|]. split; [lia|]. split; [exact Hk|].
  erewrite fnt_b; [ | apply (skip_spaces_b 1); [lia | assumption..] | rewrite (stale_k_not_possible _ _ Hk); reflexivity
                    | cbn [m_col mkm]; apply unroll_keep; lia ].
  unfold staled. rewrite (stale_k_not_possible _ _ Hk). cbn [repeat]. rewrite app_nil_r. apply tail_char, Hx0.
Qed.

(* the first token of a line is reached: the scanner stands there, or -- for the first "-" of a sequence that stands at the
   column of its key -- in front of the line break behind "key:", the innermost open collection being the key's mapping *)
Definition reach (s : sc strin) (txt : list N) (c : nat) (cols : list N) : Prop :=
  at_tok s txt c cols \/ (exists rest, cols = N.of_nat c :: rest /\ at_below s (10 :: repeat 32 c ++ txt) cols).

Lemma arrive_reach F s x cs c ext base :
  reach s (x :: cs) c (ext ++ base) -> first_ok x -> (x =? 0) = false ->
  Forall (fun e => (Z.of_nat c < Z.of_N e)%Z) ext -> base_le base (Z.of_nat c) -> (c + 2 <= F)%nat ->
  canon s /\
  exists l' i ln adj k tp lws,
    (4 <= l')%nat /\ sk_possible k = false /\
    fetch_next_token str_ops F s
    = fnt_rest F (mkb (x :: cs) l' (mkm i ln (N.of_nat c)) (repeat (be_tok (mkm i ln (N.of_nat c))) (length ext)) adj true k
                       (fst (stk base)) (snd (stk base)) tp false lws).
Proof.
  intros [Hat | (rest & Ecols & Hbel)] Hx Hx0 Hext Hbase HF.
  - apply arrive_tok; try assumption. lia.
  - (* the one-column raise behind "key:" is taken back by unroll_indent, without a BlockEnd *)
    assert (Eext : ext = []).
    { destruct ext as [|e ext']; [reflexivity|]. cbn [app] in Ecols. injection Ecols as -> _. inversion Hext; subst. lia. }
    subst ext. cbn [app] in Ecols. subst base. cbn [length repeat].
    destruct Hbel as (l & i & ln & c0 & adj & ska & k & tp & top & rest' & [= <- <-] & Htop & -> & Hk). split; [apply canon_b|].
    exists (Nat.max (Nat.max (Nat.max l 1) 2) 4), (i + 1 + N.of_nat c), (ln + 1), adj, k, tp, true.
    split; [lia|]. split; [exact Hk|].
    assert (Hun : unroll_pure (S (length (nbl (Z.of_N (N.of_nat c)) :: snd (stk (N.of_nat c :: rest))))) (Z.of_N (N.of_nat c))
                    (Z.of_N (N.of_nat c) + 1)%Z (nbl (Z.of_N (N.of_nat c)) :: snd (stk (N.of_nat c :: rest)))
                  = Some (O, fst (stk (N.of_nat c :: rest)), snd (stk (N.of_nat c :: rest)))).
    { cbn [length unroll_pure nbl in_indent in_needs_block_end stk fst snd].
      replace (Z.of_N (N.of_nat c) <? Z.of_N (N.of_nat c) + 1)%Z with true by (symmetry; apply Z.ltb_lt; lia).
      rewrite Z.ltb_irrefl. reflexivity. }
    erewrite fnt_b; [ | apply skip_gap; [lia | exact Hx] | rewrite (stale_k_not_possible _ _ Hk); reflexivity | exact Hun ].
    unfold staled. rewrite (stale_k_not_possible _ _ Hk). cbn [repeat]. rewrite app_nil_r. apply tail_char, Hx0.
Qed.

Lemma unit1' F (s0 : sc strin) cs l mk q adj ska k ind inds tp lws :
  (2 <= F)%nat -> canon s0 -> q <> [] ->
  fetch_next_token str_ops F s0 = Ok (tt, mkb cs l mk q adj ska k ind inds tp false lws) ->
  no_se q -> sk_possible k = false ->
  delivers F s0 q (mkb cs l mk [] adj ska k ind inds (tp + N.of_nat (length q)) false lws).
Proof.
  intros HF Hc Hq Hf Hse Hk. destruct q as [|t ts]; [congruence|].
  pose proof (unit1 F s0 cs l mk t ts adj ska k ind inds tp lws HF Hc Hf Hse) as H.
  unfold staled in H. rewrite (stale_k_not_possible k mk Hk) in H. apply H; [reflexivity|exact Hk].
Qed.

Lemma unit2' F (s0 : sc strin) adj tp
            cs1 l1 m1 pre kt ska1 rq mkk ind1 inds1 lws1
            cs2 l2 m2 q3 ska2 k2 ind2 inds2 lws2 :
  (3 <= F)%nat -> canon s0 -> q3 <> [] ->
  fetch_next_token str_ops F s0
    = Ok (tt, mkb cs1 l1 m1 (pre ++ [kt]) adj ska1 (newkey rq (tp + N.of_nat (length pre)) mkk) ind1 inds1 tp false lws1) ->
  stale_k (newkey rq (tp + N.of_nat (length pre)) mkk) m1 = false ->
  fetch_next_token str_ops F (mkb cs1 l1 m1 [kt] adj ska1 (newkey rq (tp + N.of_nat (length pre)) mkk) ind1 inds1 (tp + N.of_nat (length pre)) false lws1)
    = Ok (tt, mkb cs2 l2 m2 q3 adj ska2 k2 ind2 inds2 (tp + N.of_nat (length pre)) false lws2) ->
  no_se pre -> no_se q3 -> sk_possible k2 = false ->
  delivers F s0 (pre ++ q3)
             (mkb cs2 l2 m2 [] adj ska2 k2 ind2 inds2 (tp + N.of_nat (length pre) + N.of_nat (length q3)) false lws2).
Proof.
  intros HF Hc Hq Hf1 Hst1 Hf2 Hse1 Hse3 Hk. destruct q3 as [|t3 ts3]; [congruence|].
  pose proof (unit2 F s0 adj tp cs1 l1 m1 pre kt ska1 rq mkk ind1 inds1 lws1 cs2 l2 m2 t3 ts3 ska2 k2 ind2 inds2 lws2 HF Hc Hf1 Hst1 Hf2 Hse1 Hse3) as H.
  unfold staled in H. rewrite (stale_k_not_possible k2 m2 Hk) in H. apply H; [reflexivity|exact Hk].
Qed.

Lemma nb_top_stk cols : nb_top (snd (stk cols)) = false.
Proof. destruct cols; reflexivity. Qed.

Lemma at_tok_intro s cs l i ln cN adj k ind inds tp lws c cols :
  s = mkb cs l (mkm i ln cN) [] adj true k ind inds tp false lws -> cN = N.of_nat c -> (ind, inds) = stk cols -> key_done k ln ->
  at_tok s cs c cols.
Proof.
  intros -> -> E Hk. exists l, i, ln, adj, k, tp, lws. split; [|exact Hk].
  destruct (stk cols) as [a b]. injection E as -> ->. reflexivity.
Qed.

Lemma no_se_be mk n : no_se (repeat (be_tok mk) n).
Proof. apply Forall_forall. intros t Ht. apply repeat_spec in Ht. subst. discriminate. Qed.
Lemma no_se_app a b : no_se a -> no_se b -> no_se (a ++ b).
Proof. intros Ha Hb. apply Forall_app. split; assumption. Qed.
Lemma map_snd_be mk n : map snd (repeat (be_tok mk) n) = repeat TBlockEnd n.
Proof. induction n as [|n IH]; cbn; [reflexivity|]. rewrite IH. reflexivity. Qed.

(* ---------- the elements of block collections ---------- *)
(* how a "-" / a key at column c relates to the stack below the collections it closes: it opens a collection right of the
   innermost one, or goes on with the innermost one *)
Definition joins (opens : bool) (c : nat) (base : list N) : Prop :=
  if opens then (fst (stk base) < Z.of_nat c)%Z /\ (length base < 255)%nat else exists rest, base = N.of_nat c :: rest.
Definition joined (opens : bool) (c : nat) (base : list N) : list N := if opens then N.of_nat c :: base else base.

Lemma joins_base_le opens c base : joins opens c base -> base_le base (Z.of_nat c).
Proof.
  destruct opens; cbn.
  - intros [H _]. destruct base as [|b r]; cbn in *; lia.
  - intros (rest & ->). cbn. lia.
Qed.

Lemma col_ge_top base c : base_le base (Z.of_nat c) -> (Z.of_N (N.of_nat c) <? fst (stk base))%Z = false.
Proof. intros H. apply Z.ltb_ge. rewrite nat_N_Z. destruct base as [|b r]; cbn in *; lia. Qed.

Lemma roll_joins opens c base tk m : joins opens c base ->
  forall q cs l mk adj ska k tp ta lws,
  roll_indent (N.of_nat c) None tk m (mkb cs l mk q adj ska k (fst (stk base)) (snd (stk base)) tp ta lws)
  = Ok (tt, mkb cs l mk (q ++ (if opens then [(span_empty m, tk)] else [])) adj ska k
              (fst (stk (joined opens c base))) (snd (stk (joined opens c base))) tp ta lws).
Proof.
  intros Hj q cs l mk adj ska k tp ta lws. destruct opens; cbn in Hj |- *.
  - destruct Hj as [Hlt Hlen]. apply roll_push; [apply nb_top_stk | rewrite nat_N_Z; exact Hlt | rewrite stk_len; exact Hlen].
  - destruct Hj as (rest & ->). rewrite app_nil_r. cbn [stk fst snd]. apply roll_same. reflexivity.
Qed.

Definition dash_toks (n : nat) (opens : bool) : list tok :=
  repeat TBlockEnd n ++ (if opens then [TBlockSequenceStart] else []) ++ [TBlockEntry].

(* "- x": a sequence entry at the start of a line (or compact), something follows on the line *)
Lemma dash_sp F s x r c ext base opens :
  reach s (45 :: 32 :: x :: r) c (ext ++ base) ->
  Forall (fun e => (Z.of_nat c < Z.of_N e)%Z) ext -> joins opens c base ->
  not_ws x -> is_break x = false -> is_flow x = false -> (c + 2 <= F)%nat ->
  exists toks s', delivers F s toks s' /\ map snd toks = dash_toks (length ext) opens /\
                  at_tok s' (x :: r) (c + 2) (joined opens c base).
Proof.
  intros Hat Hext Hj Hx Hbr Hfl HF.
  destruct (arrive_reach F s 45 (32 :: x :: r) c ext base Hat ltac:(repeat split; reflexivity) eq_refl Hext (joins_base_le _ _ _ Hj) ltac:(lia))
    as (Hcanon & l' & i & ln & adj & k & tp & lws & Hl' & Hk & Hf).
  rewrite rest_dash in Hf; [ | exact Hl' | reflexivity | reflexivity | apply col_ge_top, (joins_base_le _ _ _ Hj)].
  rewrite (entry_step_sp F i ln (N.of_nat c) (repeat (be_tok (mkm i ln (N.of_nat c))) (length ext)) _ (fst (stk base)) _ (snd (stk base)) _
             (roll_joins opens c base TBlockSequenceStart (mkm i ln (N.of_nat c)) Hj _) (plain_last_be (mkm i ln (N.of_nat c)) _) x r l' adj k tp false lws ltac:(lia) Hx Hbr Hfl
             ltac:(unfold not_req; rewrite Hk; reflexivity)) in Hf.
  eexists. eexists. split; [|split].
  - eapply unit1'; [lia | exact Hcanon | | exact Hf | | reflexivity].
    + intros E. apply app_eq_nil in E as [_ E]. discriminate.
    + apply no_se_app; [apply no_se_app; [apply no_se_be|destruct opens; repeat constructor; discriminate]|repeat constructor; discriminate].
  - rewrite !map_app, map_snd_be. unfold dash_toks. rewrite <- app_assoc. destruct opens; reflexivity.
  - eapply at_tok_intro; [reflexivity | lia | destruct (stk (joined opens c base)); reflexivity | left; reflexivity].
Qed.

Lemma at_below_intro s cs l i ln c0 adj ska k tp top rest :
  s = mkb cs l (mkm i ln c0) [] adj ska k (Z.of_N top + 1)%Z (nbl (Z.of_N top) :: snd (stk (top :: rest))) tp false false ->
  top <= c0 -> sk_possible k = false -> at_below s cs (top :: rest).
Proof. intros -> H1 H2. exists l, i, ln, c0, adj, ska, k, tp, top, rest. repeat split; assumption. Qed.

Lemma joined_cons opens c base : joins opens c base -> exists rest, joined opens c base = N.of_nat c :: rest.
Proof. destruct opens; cbn; [eauto|]. intros (rest & ->). eauto. Qed.

(* "-" at the end of its line: the entry stands on the lines below *)
Lemma dash_nl F s r c ext base opens :
  reach s (45 :: 10 :: r) c (ext ++ base) ->
  Forall (fun e => (Z.of_nat c < Z.of_N e)%Z) ext -> joins opens c base -> (c + 2 <= F)%nat ->
  exists toks s', delivers F s toks s' /\ map snd toks = dash_toks (length ext) opens /\
                  at_below s' (10 :: r) (joined opens c base).
Proof.
  intros Hat Hext Hj HF.
  destruct (arrive_reach F s 45 (10 :: r) c ext base Hat ltac:(repeat split; reflexivity) eq_refl Hext (joins_base_le _ _ _ Hj) ltac:(lia))
    as (Hcanon & l' & i & ln & adj & k & tp & lws & Hl' & Hk & Hf).
  rewrite rest_dash in Hf; [ | exact Hl' | reflexivity | reflexivity | apply col_ge_top, (joins_base_le _ _ _ Hj)].
  destruct (joined_cons opens c base Hj) as (rest & Ej).
  assert (Hi2 : snd (stk (joined opens c base)) = lvl (fst (stk rest)) :: snd (stk rest)) by (rewrite Ej; reflexivity).
  rewrite (entry_step_nl F i ln (N.of_nat c) (repeat (be_tok (mkm i ln (N.of_nat c))) (length ext)) _ (fst (stk base)) _ (snd (stk base)) _
             (roll_joins opens c base TBlockSequenceStart (mkm i ln (N.of_nat c)) Hj _) (plain_last_be (mkm i ln (N.of_nat c)) _) r l' adj k tp false lws
             (lvl (fst (stk rest))) (snd (stk rest)) ltac:(lia)
             ltac:(unfold not_req; rewrite Hk; reflexivity) Hi2 eq_refl) in Hf.
  eexists. eexists. split; [|split].
  - eapply unit1'; [lia | exact Hcanon | | exact Hf | | reflexivity].
    + intros E. apply app_eq_nil in E as [_ E]. discriminate.
    + apply no_se_app; [apply no_se_app; [apply no_se_be|destruct opens; repeat constructor; discriminate]|repeat constructor; discriminate].
  - rewrite !map_app, map_snd_be. unfold dash_toks. rewrite <- app_assoc. destruct opens; reflexivity.
  - rewrite Ej. eapply at_below_intro; [reflexivity | lia | reflexivity].
Qed.

(* the first "-" of a sequence that stands below its parent *)
Lemma roll_below c top rest tk m : top < N.of_nat c -> (length (top :: rest) < 255)%nat ->
  forall q cs l mk adj ska k tp ta lws,
  roll_indent (N.of_nat c) None tk m (mkb cs l mk q adj ska k (Z.of_N top + 1)%Z (nbl (Z.of_N top) :: snd (stk (top :: rest))) tp ta lws)
  = Ok (tt, mkb cs l mk (q ++ [(span_empty m, tk)]) adj ska k (fst (stk (N.of_nat c :: top :: rest))) (snd (stk (N.of_nat c :: top :: rest))) tp ta lws).
Proof.
  intros Hlt Hlen q cs l mk adj ska k tp ta lws.
  apply (roll_push_nb (N.of_nat c) tk m cs l mk q adj ska k (Z.of_N top + 1)%Z (Z.of_N top) (snd (stk (top :: rest))) tp ta lws); [lia | lia |].
  rewrite stk_len. exact Hlen.
Qed.

Lemma dash_sp_below F s x r c top rest :
  at_below s (10 :: repeat 32 c ++ 45 :: 32 :: x :: r) (top :: rest) -> top < N.of_nat c -> (length (top :: rest) < 255)%nat ->
  not_ws x -> is_break x = false -> is_flow x = false -> (c + 2 <= F)%nat ->
  exists toks s', delivers F s toks s' /\ map snd toks = dash_toks 0 true /\
                  at_tok s' (x :: r) (c + 2) (N.of_nat c :: top :: rest).
Proof.
  intros Hat Hlt Hlen Hx Hbr Hfl HF.
  destruct (arrive_below F s c 45 (32 :: x :: r) (top :: rest) Hat ltac:(repeat split; reflexivity) eq_refl Hlt HF)
    as (Hcanon & l' & i & ln & adj & k & tp & top' & rest' & [= <- <-] & Hl' & Hk & Hf).
  rewrite rest_dash in Hf; [ | exact Hl' | reflexivity | reflexivity | apply Z.ltb_ge; lia].
  rewrite (entry_step_sp F i ln (N.of_nat c) [] _ _ _ _ _
             (roll_below c top rest TBlockSequenceStart (mkm i ln (N.of_nat c)) Hlt Hlen _) plain_last_nil x r l' adj k tp false true ltac:(lia) Hx Hbr Hfl
             ltac:(unfold not_req; rewrite Hk; reflexivity)) in Hf.
  eexists. eexists. split; [|split].
  - eapply unit1'; [lia | exact Hcanon | | exact Hf | | reflexivity]; [discriminate | repeat constructor; discriminate].
  - reflexivity.
  - eapply at_tok_intro; [reflexivity | lia | reflexivity | left; reflexivity].
Qed.

Lemma dash_nl_below F s r c top rest :
  at_below s (10 :: repeat 32 c ++ 45 :: 10 :: r) (top :: rest) -> top < N.of_nat c -> (length (top :: rest) < 255)%nat ->
  (c + 2 <= F)%nat ->
  exists toks s', delivers F s toks s' /\ map snd toks = dash_toks 0 true /\
                  at_below s' (10 :: r) (N.of_nat c :: top :: rest).
Proof.
  intros Hat Hlt Hlen HF.
  destruct (arrive_below F s c 45 (10 :: r) (top :: rest) Hat ltac:(repeat split; reflexivity) eq_refl Hlt HF)
    as (Hcanon & l' & i & ln & adj & k & tp & top' & rest' & [= <- <-] & Hl' & Hk & Hf).
  rewrite rest_dash in Hf; [ | exact Hl' | reflexivity | reflexivity | apply Z.ltb_ge; lia].
  rewrite (entry_step_nl F i ln (N.of_nat c) [] _ _ _ _ _
             (roll_below c top rest TBlockSequenceStart (mkm i ln (N.of_nat c)) Hlt Hlen _) plain_last_nil r l' adj k tp false true
             (lvl (Z.of_N top)) (snd (stk (top :: rest))) ltac:(lia)
             ltac:(unfold not_req; rewrite Hk; reflexivity) eq_refl eq_refl) in Hf.
  eexists. eexists. split; [|split].
  - eapply unit1'; [lia | exact Hcanon | | exact Hf | | reflexivity]; [discriminate | repeat constructor; discriminate].
  - reflexivity.
  - eapply at_below_intro; [reflexivity | lia | reflexivity].
Qed.

Lemma unroll_nb_stk cols : unroll_nb (snd (stk cols)) (fst (stk cols)) = stk cols.
Proof. destruct cols as [|c r]; reflexivity. Qed.
Lemma unroll_nb_below top rest : unroll_nb (nbl (Z.of_N top) :: snd (stk (top :: rest))) (Z.of_N top + 1)%Z = stk (top :: rest).
Proof. reflexivity. Qed.

Definition key_toks (opens : bool) (kw : str) : list tok :=
  (if opens then [TBlockMappingStart] else []) ++ [TKey; TScalar Plain kw; TValue].

(* the second half of a key unit: the key's scalar is queued behind [pre], the scanner stands at ':' *)
Lemma key_unit F s adj tp y r l1 i ln c len pre sp kw rq base opens :
  (3 <= F)%nat -> canon s ->
  fetch_next_token str_ops F s
    = Ok (tt, mkb (58 :: y :: r) l1 (mkm (i + len) ln (N.of_nat c + len)) (pre ++ [(sp, TScalar Plain kw)]) adj false
                (newkey rq (tp + N.of_nat (length pre)) (mkm i ln (N.of_nat c))) (fst (stk base)) (snd (stk base)) tp false false) ->
  0 < len -> len <= SIMPLE_KEY_MAX -> y = 32 \/ y = 10 -> joins opens c base -> no_se pre ->
  exists q3 s', delivers F s (pre ++ q3) s' /\ map snd q3 = key_toks opens kw /\ at_below s' (y :: r) (joined opens c base).
Proof.
  intros HF Hcanon Hf1 Hlen0 Hlen Hy Hj Hpre.
  set (K := newkey rq (tp + N.of_nat (length pre)) (mkm i ln (N.of_nat c))) in *.
  set (m1 := mkm (i + len) ln (N.of_nat c + len)) in *.
  assert (Hst1 : stale_k K m1 = false).
  { unfold stale_k, K, m1, newkey, mkm. cbn. rewrite N.ltb_irrefl. cbn.
    apply N.ltb_ge. lia. }
  assert (Hyb : is_blank_or_breakz y = true /\ (y =? 9) = false) by (destruct Hy as [-> | ->]; split; reflexivity).
  destruct Hyb as [Hyb Hy9].
  assert (Hle : (fst (stk base) <= Z.of_N (N.of_nat c + len))%Z).
  { pose proof (stk_top_le base (N.of_nat c) ltac:(rewrite nat_N_Z; apply (joins_base_le _ _ _ Hj))). lia. }
  assert (Hf2 : exists l3, fetch_next_token str_ops F (mkb (58 :: y :: r) l1 m1 [(sp, TScalar Plain kw)] adj false K (fst (stk base)) (snd (stk base))
                                               (tp + N.of_nat (length pre)) false false)
                = Ok (tt, mkb (y :: r) l3 (mkm (i + len + 1) ln (N.of_nat c + len + 1))
                            (([] ++ (if opens then [(span_empty (mkm i ln (N.of_nat c)), TBlockMappingStart)] else [])
                                 ++ [key_tok (mkm i ln (N.of_nat c)); (sp, TScalar Plain kw)])
                               ++ [(span_empty m1, TValue)])
                            adj false (unposs K) (Z.of_N (N.of_nat c) + 1)%Z
                            (nbl (Z.of_N (N.of_nat c)) :: snd (stk (joined opens c base))) (tp + N.of_nat (length pre)) false false)).
  { eexists. erewrite fnt_b; [ | apply skip_none; [lia | repeat split; reflexivity] | rewrite Hst1; reflexivity
                      | apply unroll_keep; exact Hle].
    unfold staled. rewrite Hst1. cbn [repeat]. rewrite app_nil_r.
    rewrite tail_char by reflexivity.
    unfold m1. rewrite rest_colon; [ | exact Hyb | apply N.eqb_neq; lia | apply Z.ltb_ge; exact Hle].
    pose proof (value_step_b F opens y r (Nat.max (Nat.max (Nat.max l1 1) 1) 4) (i + len) ln (N.of_nat c + len) [] (sp, TScalar Plain kw) adj false rq i (N.of_nat c)
                  (fst (stk base)) (snd (stk base)) (tp + N.of_nat (length pre)) false false Hyb Hy9 (nb_top_stk base)) as V.
    cbn [length N.of_nat app] in V. rewrite N.add_0_r in V. fold K in V. cbn [app].
    etransitivity; [apply V|].
    - destruct opens; cbn in Hj |- *.
      + destruct Hj as [H1 H2]. split; [rewrite nat_N_Z; exact H1 | rewrite stk_len; exact H2].
      + destruct Hj as (rest & ->). split; [reflexivity | discriminate].
    - unfold m1. destruct opens; reflexivity. }
  destruct Hf2 as (l3 & Hf2).
  eexists. eexists. split; [|split].
  - eapply (unit2' F s adj tp (58 :: y :: r) l1 m1 pre (sp, TScalar Plain kw) false rq (mkm i ln (N.of_nat c)));
      [exact HF | exact Hcanon | | exact Hf1 | exact Hst1 | exact Hf2 | exact Hpre | | reflexivity].
    + intros E. apply app_eq_nil in E as [_ E]. discriminate.
    + destruct opens; repeat constructor; discriminate.
  - unfold key_toks. destruct opens; reflexivity.
  - destruct (joined_cons opens c base Hj) as (rest & Ej). rewrite Ej.
    eapply at_below_intro; [rewrite <- Ej; reflexivity | lia | reflexivity].
Qed.

Lemma wch_first_ok x : wch x = true -> first_ok x /\ (x =? 0) = false.
Proof.
  intros H. destruct (wch_facts x H) as (Hb & _ & _ & H35 & _). destruct (blankz_facts x Hb) as (H32 & H9 & H10 & H13 & H0).
  repeat split; assumption.
Qed.

Lemma stk_req_ne base c : (fst (stk base) =? Z.of_N c)%Z = true -> snd (stk base) <> [].
Proof. destruct base as [|b r]; cbn; [intros H; apply Z.eqb_eq in H; lia | discriminate]. Qed.

(* a key at the start of a line (or of a compact mapping) *)
Lemma key_at_tok F s c0 w y r c ext base opens :
  at_tok s (c0 :: w ++ 58 :: y :: r) c (ext ++ base) ->
  forallb wch (c0 :: w) = true -> wlen c0 w <= SIMPLE_KEY_MAX -> y = 32 \/ y = 10 ->
  Forall (fun e => (Z.of_nat c < Z.of_N e)%Z) ext -> joins opens c base -> (2 * length w + 3 <= F)%nat ->
  exists toks s', delivers F s toks s' /\ map snd toks = repeat TBlockEnd (length ext) ++ key_toks opens (c0 :: w) /\
                  at_below s' (y :: r) (joined opens c base).
Proof.
  intros Hat Hw Hlen Hy Hext Hj HF.
  pose proof Hw as Hw0. cbn [forallb] in Hw0. apply andb_prop in Hw0 as [Hc0 _]. destruct (wch_first_ok c0 Hc0) as [Hfo Hnz].
  destruct (arrive_tok F s c0 (w ++ 58 :: y :: r) c ext base Hat Hfo Hnz Hext (joins_base_le _ _ _ Hj) ltac:(lia))
    as (Hcanon & l' & i & ln & adj & k & tp & lws & Hl' & Hk & Hf).
  rewrite rest_key in Hf; [ | exact Hw | exact Hl' | apply col_ge_top, (joins_base_le _ _ _ Hj)].
  assert (Hyb : is_blank_or_breakz y = true) by (destruct Hy as [-> | ->]; reflexivity).
  destruct (word_key_step F c0 w y r l' i ln (N.of_nat c) (repeat (be_tok (mkm i ln (N.of_nat c))) (length ext)) adj true k
              (fst (stk base)) (snd (stk base)) (fst (stk base)) (snd (stk base)) tp false lws Hw Hyb
              ltac:(rewrite unroll_nb_stk; destruct (stk base); reflexivity) (stk_req_ne base (N.of_nat c)) HF) as (l1 & E1).
  rewrite E1 in Hf. unfold saved in Hf. cbn [m_col mkm] in Hf.
  destruct (key_unit F s adj tp y r l1 i ln c (wlen c0 w) (repeat (be_tok (mkm i ln (N.of_nat c))) (length ext)) _ (c0 :: w) _ base opens
              ltac:(lia) Hcanon Hf ltac:(unfold wlen; cbn [length]; lia) Hlen Hy Hj (no_se_be _ _)) as (q3 & s' & Hd & Hm & Hb).
  exists (repeat (be_tok (mkm i ln (N.of_nat c))) (length ext) ++ q3), s'. split; [exact Hd|]. split; [|exact Hb].
  rewrite map_app, map_snd_be. f_equal. exact Hm.
Qed.

(* the first key of a mapping that stands below its parent *)
Lemma key_at_below F s c0 w y r c top rest :
  at_below s (10 :: repeat 32 c ++ c0 :: w ++ 58 :: y :: r) (top :: rest) -> top < N.of_nat c -> (length (top :: rest) < 255)%nat ->
  forallb wch (c0 :: w) = true -> wlen c0 w <= SIMPLE_KEY_MAX -> y = 32 \/ y = 10 ->
  (2 * length w + 3 <= F)%nat -> (c + 2 <= F)%nat ->
  exists toks s', delivers F s toks s' /\ map snd toks = key_toks true (c0 :: w) /\
                  at_below s' (y :: r) (N.of_nat c :: top :: rest).
Proof.
  intros Hat Hlt Hlen255 Hw Hlen Hy HF HF2.
  pose proof Hw as Hw0. cbn [forallb] in Hw0. apply andb_prop in Hw0 as [Hc0 _]. destruct (wch_first_ok c0 Hc0) as [Hfo Hnz].
  destruct (arrive_below F s c c0 (w ++ 58 :: y :: r) (top :: rest) Hat Hfo Hnz Hlt HF2)
    as (Hcanon & l' & i & ln & adj & k & tp & top' & rest' & [= <- <-] & Hl' & Hk & Hf).
  rewrite rest_key in Hf; [ | exact Hw | exact Hl' | apply Z.ltb_ge; lia].
  assert (Hyb : is_blank_or_breakz y = true) by (destruct Hy as [-> | ->]; reflexivity).
  destruct (word_key_step F c0 w y r l' i ln (N.of_nat c) [] adj true k
              (Z.of_N top + 1)%Z (nbl (Z.of_N top) :: snd (stk (top :: rest))) (fst (stk (top :: rest))) (snd (stk (top :: rest))) tp false true Hw Hyb
              (unroll_nb_below top rest) ltac:(discriminate) HF) as (l1 & E1).
  rewrite E1 in Hf. unfold saved in Hf. cbn [m_col mkm] in Hf.
  destruct (key_unit F s adj tp y r l1 i ln c (wlen c0 w) [] _ (c0 :: w) _ (top :: rest) true
              ltac:(lia) Hcanon Hf ltac:(unfold wlen; cbn [length]; lia) Hlen Hy
              ltac:(split; [cbn; lia | exact Hlen255]) ltac:(constructor)) as (q3 & s' & Hd & Hm & Hb).
  exists q3, s'. split; [exact Hd|]. split; [exact Hm|exact Hb].
Qed.

(* a scalar: "- word" / "key: word", up to the first character of the next line *)
Lemma stale_next_line rq tn i ln c i2 c2 : stale_k (newkey rq tn (mkm i ln c)) (mkm i2 (ln + 1) c2) = true.
Proof.
  unfold stale_k, newkey, mkm. cbn. replace (ln <? ln + 1) with true by (symmetry; apply N.ltb_lt; lia). reflexivity.
Qed.

Lemma word_after_dash F s c0 w c' tl cw top rest :
  at_tok s (c0 :: w ++ 10 :: repeat 32 c' ++ tl) cw (top :: rest) -> top < N.of_nat cw -> N.of_nat c' <= top ->
  forallb wch (c0 :: w) = true -> line_first tl -> (2 * length w + 3 <= F)%nat -> (c' + 2 <= F)%nat ->
  exists toks s', delivers F s toks s' /\ map snd toks = [TScalar Plain (c0 :: w)] /\ at_tok s' tl c' (top :: rest).
Proof.
  intros Hat Hlt Hc' Hw Htl HF HF2.
  pose proof Hw as Hw0. cbn [forallb] in Hw0. apply andb_prop in Hw0 as [Hc0 _]. destruct (wch_first_ok c0 Hc0) as [Hfo Hnz].
  destruct (arrive_tok F s c0 (w ++ 10 :: repeat 32 c' ++ tl) cw [] (top :: rest) Hat Hfo Hnz ltac:(constructor) ltac:(cbn; lia) ltac:(lia))
    as (Hcanon & l' & i & ln & adj & k & tp & lws & Hl' & Hk & Hf).
  assert (Hcw : (N.of_nat cw =? 0) = false) by (apply N.eqb_neq; lia).
  rewrite rest_word_b in Hf; [ | exact Hc0 | exact Hcw | apply Z.ltb_ge; cbn; lia].
  destruct (word_value_step F c0 w c' tl l' i ln (N.of_nat cw) [] adj true k
              (fst (stk (top :: rest))) (snd (stk (top :: rest))) (fst (stk (top :: rest))) (snd (stk (top :: rest))) tp false lws Hw
              ltac:(rewrite Hcw; apply andb_false_r) eq_refl ltac:(discriminate) Htl ltac:(cbn; lia) HF HF2) as (l1 & E1).
  cbn [repeat length] in Hf. rewrite E1 in Hf. unfold saved in Hf. cbn [m_col mkm app length N.of_nat] in Hf.
  eexists. eexists. split; [|split].
  - eapply unit1; [lia | exact Hcanon | exact Hf | repeat constructor; discriminate | | ].
    + rewrite stale_next_line. unfold req. cbn [newkey sk_required fst snd stk].
      replace (Z.of_N top =? Z.of_N (N.of_nat cw))%Z with false by (symmetry; apply Z.eqb_neq; lia). reflexivity.
    + unfold staled. rewrite stale_next_line. reflexivity.
  - reflexivity.
  - eapply at_tok_intro; [reflexivity | reflexivity | reflexivity | left; unfold staled; rewrite stale_next_line; reflexivity].
Qed.

Lemma word_after_key F s c0 w c' tl top rest :
  at_below s (32 :: c0 :: w ++ 10 :: repeat 32 c' ++ tl) (top :: rest) -> N.of_nat c' <= top ->
  forallb wch (c0 :: w) = true -> line_first tl -> (2 * length w + 3 <= F)%nat -> (c' + 2 <= F)%nat ->
  exists toks s', delivers F s toks s' /\ map snd toks = [TScalar Plain (c0 :: w)] /\ at_tok s' tl c' (top :: rest).
Proof.
  intros Hat Hc' Hw Htl HF HF2.
  pose proof Hw as Hw0. cbn [forallb] in Hw0. apply andb_prop in Hw0 as [Hc0 _]. destruct (wch_first_ok c0 Hc0) as [Hfo Hnz].
  destruct (arrive_blank F s c0 (w ++ 10 :: repeat 32 c' ++ tl) (top :: rest) Hat Hfo Hnz ltac:(lia))
    as (Hcanon & l' & i & ln & c1 & adj & ska & k & tp & top' & rest' & [= <- <-] & Hc1 & Hl' & Hk & Hf).
  assert (Hcw : (c1 =? 0) = false) by (apply N.eqb_neq; lia).
  rewrite rest_word_b in Hf; [ | exact Hc0 | exact Hcw | apply Z.ltb_ge; lia].
  destruct (word_value_step F c0 w c' tl l' i ln c1 [] adj ska k
              (Z.of_N top + 1)%Z (nbl (Z.of_N top) :: snd (stk (top :: rest))) (fst (stk (top :: rest))) (snd (stk (top :: rest))) tp false false Hw
              eq_refl (unroll_nb_below top rest) ltac:(discriminate) Htl ltac:(cbn; lia) HF HF2) as (l1 & E1).
  rewrite E1 in Hf. cbn [app length N.of_nat] in Hf.
  set (K := saved ska k (Z.of_N top + 1)%Z (nbl (Z.of_N top) :: snd (stk (top :: rest))) tp [] (mkm i ln c1)) in *.
  set (m2 := mkm (i + wlen c0 w + 1 + N.of_nat c') (ln + 1) (N.of_nat c')) in *.
  assert (HK : (stale_k K m2 && sk_required K) = false /\ sk_possible (staled K m2) = false).
  { unfold K, saved. destruct ska.
    - unfold m2. rewrite stale_next_line. unfold staled. rewrite stale_next_line. unfold req. cbn. rewrite andb_false_r. split; reflexivity.
    - unfold staled. rewrite (stale_k_not_possible k m2 Hk). split; [reflexivity|exact Hk]. }
  destruct HK as [HK1 HK2].
  eexists. eexists. split; [|split].
  - eapply unit1; [lia | exact Hcanon | exact Hf | repeat constructor; discriminate | exact HK1 | exact HK2].
  - reflexivity.
  - eapply at_tok_intro; [reflexivity | reflexivity | reflexivity | left; exact HK2].
Qed.

(* ---------- the text grammar against the token grammar ---------- *)
Section bnode_ind2.
  Variable P : bnode -> Prop.
  Hypothesis HW : forall w, P (BW w).
  Hypothesis HS : forall pl items, Forall P items -> P (BS pl items).
  Hypothesis HM : forall pl pairs, Forall (fun p : str * bnode => P (snd p)) pairs -> P (BM pl pairs).
  Hypothesis HI : forall items, Forall P items -> P (BI items).
  Fixpoint bnode_ind2 (n : bnode) : P n :=
    match n with
    | BW w => HW w
    | BS pl items => HS pl items ((fix go (l : list bnode) : Forall P l :=
                         match l with [] => Forall_nil _ | x :: r => Forall_cons x (bnode_ind2 x) (go r) end) items)
    | BM pl pairs => HM pl pairs ((fix go (l : list (str * bnode)) : Forall (fun p => P (snd p)) l :=
                         match l with [] => Forall_nil _ | (k, x) :: r => Forall_cons (k, x) (bnode_ind2 x) (go r) end) pairs)
    | BI items => HI items ((fix go (l : list bnode) : Forall P l :=
                         match l with [] => Forall_nil _ | x :: r => Forall_cons x (bnode_ind2 x) (go r) end) items)
    end.
End bnode_ind2.

Definition item_text (c : nat) (x : bnode) : str := 45 :: lead c x ++ brender (child_col c x) x.
Definition pair_text (c : nat) (p : str * bnode) : str := fst p ++ 58 :: lead c (snd p) ++ brender (child_col c (snd p)) (snd p).
Definition more_text {A} (f : nat -> A -> str) (c : nat) (l : list A) : str := flat_map (fun y => spaces c ++ f c y) l.

Lemma brender_BS pl c x xs : brender c (BS pl (x :: xs)) = item_text c x ++ more_text item_text c xs.
Proof. cbn [brender map bjoin]. unfold more_text, item_text. rewrite flat_map_concat_map, map_map, <- flat_map_concat_map. reflexivity. Qed.
Lemma brender_BM pl c p ps : brender c (BM pl (p :: ps)) = pair_text c p ++ more_text pair_text c ps.
Proof. cbn [brender map bjoin]. unfold more_text, pair_text. rewrite flat_map_concat_map, map_map, <- flat_map_concat_map. reflexivity. Qed.

Lemma brender_BI c x xs : brender c (BI (x :: xs)) = item_text c x ++ more_text item_text c xs.
Proof. cbn [brender map bjoin]. unfold more_text, item_text. rewrite flat_map_concat_map, map_map, <- flat_map_concat_map. reflexivity. Qed.

Definition item_toks (x : bnode) : list tok := TBlockEntry :: tokens_of (blt x).
Definition pair_toks (p : str * bnode) : list tok := [TKey; TScalar Plain (fst p); TValue] ++ tokens_of (blt (snd p)).
Lemma tokens_BS pl items : tokens_of (blt (BS pl items)) = TBlockSequenceStart :: flat_map item_toks items ++ [TBlockEnd].
Proof. cbn [blt tokens_of]. rewrite props_none. cbn [app]. rewrite flat_map_concat_map, map_map, <- flat_map_concat_map. reflexivity. Qed.
Lemma tokens_BI items : tokens_of (blt (BI items)) = flat_map item_toks items.
Proof. cbn [blt tokens_of]. rewrite props_none. cbn [app]. rewrite flat_map_concat_map, map_map, <- flat_map_concat_map. reflexivity. Qed.
Lemma tokens_BM pl pairs : tokens_of (blt (BM pl pairs)) = TBlockMappingStart :: flat_map pair_toks pairs ++ [TBlockEnd].
Proof.
  cbn [blt tokens_of]. rewrite props_none. cbn [app]. f_equal. f_equal.
  rewrite flat_map_concat_map, map_map, <- flat_map_concat_map. apply flat_map_ext. intros [k v]. reflexivity.
Qed.

(* the first character of a node / of its lead *)
Lemma brender_first c n : bwf true n = true \/ bwf false n = true ->
  exists x cs, brender c n = x :: cs /\ (x = 45 \/ wch x = true).
Proof.
  intros H. destruct n as [w|pl items|pl pairs|items].
  4:{ assert (Hne : nonempty items = true).
      { destruct H as [H|H]; cbn [bwf] in H; apply andb_prop in H as [H _]; apply andb_prop in H as [_ H]; exact H. }
      destruct items as [|x xs]; [discriminate|]. rewrite brender_BI. eexists; eexists. split; [reflexivity|]. left; reflexivity. }
  - assert (Hw : word_ok w = true) by (destruct H as [H|H]; exact H).
    destruct (word_first w Hw) as (x & w' & -> & Hx). exists x, (w' ++ [10]). split; [reflexivity|]. right.
    cbn [forallb] in Hx. apply andb_prop in Hx as [Hx _]. exact Hx.
  - assert (Hne : nonempty items = true).
    { destruct H as [H|H]; cbn [bwf] in H; apply andb_prop in H as [H _]; apply andb_prop in H as [_ H]; exact H. }
    destruct items as [|x xs]; [discriminate|]. rewrite brender_BS. eexists; eexists. split; [reflexivity|]. left; reflexivity.
  - assert (Hp : nonempty pairs = true /\ forallb (fun p => key_ok (fst p) && bwf false (snd p)) pairs = true).
    { destruct H as [H|H]; cbn [bwf] in H; apply andb_prop in H as [H H2]; apply andb_prop in H as [_ H]; split; assumption. }
    destruct Hp as [Hne Hall]. destruct pairs as [|[k v] ps]; [discriminate|]. rewrite brender_BM. unfold pair_text. cbn [fst snd].
    cbn [forallb fst snd] in Hall. apply andb_prop in Hall as [Hk _]. apply andb_prop in Hk as [Hk _]. unfold key_ok in Hk. apply andb_prop in Hk as [Hk _].
    destruct (word_first k Hk) as (x & w' & -> & Hx). eexists; eexists. split; [reflexivity|]. right.
    cbn [forallb] in Hx. apply andb_prop in Hx as [Hx _]. exact Hx.
Qed.

(* ---------- the induction ---------- *)
(* how the scanner comes to the first token of a collection at column cc: it stands there (the root; a compact collection
   behind "- "), or in front of the line break behind "-" / "key:" *)
Definition arrives (s : sc strin) (cc : nat) (txt : list N) (cols : list N) : Prop :=
  at_tok s txt cc cols \/ at_below s (10 :: repeat 32 cc ++ txt) cols.
Definition top_lt (cols : list N) (cc : nat) : Prop := (fst (stk cols) < Z.of_nat cc)%Z.

(* [pend] BlockEnd tokens are owed; the tokens T are scanned except for the BlockEnds owed at the end ([ext'], the
   collections still open, all right of [low]); the scanner stands at the first character [tl] of the next line *)
Definition scanned_b (F : nat) (s : sc strin) (pend : nat) (T : list tok) (tl : list N) (c' : nat) (cols : list N) (low : Z) : Prop :=
  exists toks s' ext', delivers F s toks s'
     /\ repeat TBlockEnd pend ++ T = map snd toks ++ repeat TBlockEnd (length ext')
     /\ at_tok s' tl c' (ext' ++ cols) /\ Forall (fun e => (low < Z.of_N e)%Z) ext'.

Definition fuel_ok (F : nat) (txt : list N) (cc : nat) : Prop := (2 * length txt + 2 * cc + 8 <= F)%nat.

Definition CollScan (X : bnode) : Prop :=
  forall F cc cols s c' tl,
    arrives s cc (brender cc X ++ repeat 32 c' ++ tl) cols -> top_lt cols cc -> (length cols + bdepth X <= 255)%nat ->
    line_first tl -> (c' <= cc)%nat -> fuel_ok F (brender cc X ++ repeat 32 c' ++ tl) cc ->
    scanned_b F s 0 (tokens_of (blt X)) tl c' cols (fst (stk cols)).

Lemma first_char_facts x : x = 45 \/ wch x = true -> not_ws x /\ is_break x = false /\ is_flow x = false.
Proof.
  intros [-> | H]; [repeat split; reflexivity|].
  destruct (wch_facts x H) as (Hb & Hfw & _ & H35 & _). destruct (blankz_facts x Hb) as (H32 & H9 & H10 & H13 & _).
  repeat split; try assumption. unfold is_break. rewrite H10, H13. reflexivity.
Qed.

Lemma top_lt_joins cols cc : top_lt cols cc -> (length cols < 255)%nat -> joins true cc cols.
Proof. intros H1 H2. split; assumption. Qed.
Lemma top_lt_cons cols cc : top_lt cols cc -> match cols with t :: _ => t < N.of_nat cc | [] => True end.
Proof. unfold top_lt. destruct cols as [|t r]; cbn; [trivial|lia]. Qed.

(* the state behind the "-" of an item x of a sequence at column c *)
Definition after_dash (s : sc strin) (x : bnode) (c : nat) (cols : list N) (rest : list N) : Prop :=
  match x with
  | BW _ | BS None _ | BM None _ => at_tok s (brender (c + 2) x ++ rest) (c + 2) (N.of_nat c :: cols)
  | BS (Some d) _ | BM (Some d) _ => at_below s (lead c x ++ brender (c + 1 + d) x ++ rest) (N.of_nat c :: cols)
  | BI _ => False                                  (* an indentless sequence is no item of a sequence *)
  end.

(* "-" in front of the item x, when the scanner stands at it *)
Lemma dash_item F s x c ext base opens rest :
  reach s (item_text c x ++ rest) c (ext ++ base) -> bwf true x = true ->
  Forall (fun e => (Z.of_nat c < Z.of_N e)%Z) ext -> joins opens c base -> (c + 2 <= F)%nat ->
  exists toks s', delivers F s toks s' /\ map snd toks = dash_toks (length ext) opens /\
                  after_dash s' x c (match joined opens c base with _ :: r => r | [] => [] end) rest /\
                  exists r, joined opens c base = N.of_nat c :: r.
Proof.
  intros Hat Hwf Hext Hj HF. destruct (joined_cons opens c base Hj) as (r0 & Ej).
  unfold item_text in Hat. assert (Etxt : (45 :: lead c x ++ brender (child_col c x) x) ++ rest = 45 :: lead c x ++ brender (child_col c x) x ++ rest)
    by (cbn [app]; rewrite <- app_assoc; reflexivity).
  rewrite Etxt in Hat. clear Etxt.
  assert (Hsp : lead c x = [32] -> child_col c x = (c + 2)%nat \/ (exists w, x = BW w) ->
            exists toks s', delivers F s toks s' /\ map snd toks = dash_toks (length ext) opens /\
                            at_tok s' (brender (child_col c x) x ++ rest) (c + 2) (joined opens c base)).
  { intros El _. rewrite El in Hat. cbn [app] in Hat.
    destruct (brender_first (child_col c x) x (or_introl Hwf)) as (x0 & cs0 & E0 & Hx0).
    destruct (first_char_facts x0 Hx0) as (H1 & H2 & H3).
    rewrite E0 in Hat |- *. cbn [app] in Hat |- *.
    exact (dash_sp F s x0 (cs0 ++ rest) c ext base opens Hat Hext Hj H1 H2 H3 HF). }
  rewrite Ej. cbn [after_dash].
  destruct x as [w|[d|] items|[d|] pairs|items]; cbn [lead child_col after_dash app] in *; [| | | | |cbn [bwf negb andb] in Hwf; discriminate].
  - destruct (Hsp eq_refl (or_intror (ex_intro _ w eq_refl))) as (toks & s' & H1 & H2 & H3).
    exists toks, s'. rewrite Ej in H3. repeat split; try assumption. eauto.
  - destruct (dash_nl F s (repeat 32 (c + 1 + d) ++ brender (c + 1 + d) (BS (Some d) items) ++ rest) c ext base opens Hat Hext Hj HF)
      as (toks & s' & H1 & H2 & H3).
    exists toks, s'. rewrite Ej in H3. repeat split; try assumption. eauto.
  - destruct (Hsp eq_refl (or_introl eq_refl)) as (toks & s' & H1 & H2 & H3).
    exists toks, s'. rewrite Ej in H3. repeat split; try assumption. eauto.
  - destruct (dash_nl F s (repeat 32 (c + 1 + d) ++ brender (c + 1 + d) (BM (Some d) pairs) ++ rest) c ext base opens Hat Hext Hj HF)
      as (toks & s' & H1 & H2 & H3).
    exists toks, s'. rewrite Ej in H3. repeat split; try assumption. eauto.
  - destruct (Hsp eq_refl (or_introl eq_refl)) as (toks & s' & H1 & H2 & H3).
    exists toks, s'. rewrite Ej in H3. repeat split; try assumption. eauto.
Qed.

Lemma dash_item_below F s x c top rest0 rest :
  at_below s (10 :: repeat 32 c ++ item_text c x ++ rest) (top :: rest0) -> bwf true x = true ->
  top < N.of_nat c -> (length (top :: rest0) < 255)%nat -> (c + 2 <= F)%nat ->
  exists toks s', delivers F s toks s' /\ map snd toks = dash_toks 0 true /\ after_dash s' x c (top :: rest0) rest.
Proof.
  intros Hat Hwf Hlt Hlen HF.
  unfold item_text in Hat. cbn [app] in Hat. rewrite <- app_assoc in Hat.
  assert (Hsp : lead c x = [32] ->
            exists toks s', delivers F s toks s' /\ map snd toks = dash_toks 0 true /\
                            at_tok s' (brender (child_col c x) x ++ rest) (c + 2) (N.of_nat c :: top :: rest0)).
  { intros El. rewrite El in Hat. cbn [app] in Hat.
    destruct (brender_first (child_col c x) x (or_introl Hwf)) as (x0 & cs0 & E0 & Hx0).
    destruct (first_char_facts x0 Hx0) as (H1 & H2 & H3).
    rewrite E0 in Hat |- *. cbn [app] in Hat |- *.
    exact (dash_sp_below F s x0 (cs0 ++ rest) c top rest0 Hat Hlt Hlen H1 H2 H3 HF). }
  destruct x as [w|[d|] items|[d|] pairs|items]; cbn [lead child_col after_dash app] in *; [| | | | |cbn [bwf negb andb] in Hwf; discriminate].
  - exact (Hsp eq_refl).
  - exact (dash_nl_below F s (repeat 32 (c + 1 + d) ++ brender (c + 1 + d) (BS (Some d) items) ++ rest) c top rest0 Hat Hlt Hlen HF).
  - exact (Hsp eq_refl).
  - exact (dash_nl_below F s (repeat 32 (c + 1 + d) ++ brender (c + 1 + d) (BM (Some d) pairs) ++ rest) c top rest0 Hat Hlt Hlen HF).
  - exact (Hsp eq_refl).
Qed.

(* an indentless sequence (the value of a key of the mapping at column c, which is the innermost open collection): its items
   are scanned like the further items of a sequence at c; it owes no BlockEnd of its own *)
Definition IScan (items : list bnode) : Prop :=
  forall F c cols s c' tl,
    at_below s (10 :: repeat 32 c ++ brender c (BI items) ++ repeat 32 c' ++ tl) (N.of_nat c :: cols) ->
    (S (length cols) + bdepth (BI items) <= 255)%nat ->
    line_first tl -> (c' <= c)%nat -> fuel_ok F (brender c (BI items) ++ repeat 32 c' ++ tl) c ->
    scanned_b F s 0 (tokens_of (blt (BI items))) tl c' (N.of_nat c :: cols) (Z.of_nat c).

(* what a child needs from the induction *)
Definition ChildOK (inl : bool) (x : bnode) : Prop :=
  bwf inl x = true /\ (b_is_coll x = true -> CollScan x) /\ (forall items, x = BI items -> IScan items).

Lemma scanned_word F s toks s' w tl c' cols low :
  delivers F s toks s' -> map snd toks = [TScalar Plain w] -> at_tok s' tl c' cols ->
  scanned_b F s 0 (tokens_of (blt (BW w))) tl c' cols low.
Proof.
  intros Hd Hm Hat. exists toks, s', []. split; [exact Hd|]. split; [|split; [exact Hat|constructor]].
  cbn. rewrite Hm. reflexivity.
Qed.

Lemma bdepth_item pl items x : In x items -> (bdepth x < bdepth (BS pl items))%nat.
Proof.
  cbn [bdepth]. induction items as [|y r IH]; intros H; [destruct H|]. cbn [fold_right]. destruct H as [->|H]; [lia|].
  specialize (IH H). lia.
Qed.
Lemma bdepth_pair pl pairs p : In p pairs -> (bdepth (snd p) < bdepth (BM pl pairs))%nat.
Proof.
  cbn [bdepth]. induction pairs as [|y r IH]; intros H; [destruct H|]. cbn [fold_right]. destruct H as [->|H]; [lia|].
  specialize (IH H). lia.
Qed.

Ltac lens H := unfold spaces in H; repeat (progress (rewrite ?app_length, ?repeat_length in H; cbn [length] in H)).
Ltac lensg := unfold spaces; repeat (progress (rewrite ?app_length, ?repeat_length; cbn [length])).

(* an item behind its "-" *)
Lemma seq_child F s x c cols c' tl :
  after_dash s x c cols (repeat 32 c' ++ tl) -> ChildOK true x -> (S (length cols) + bdepth x <= 255)%nat ->
  line_first tl -> (c' <= c)%nat -> fuel_ok F (item_text c x ++ repeat 32 c' ++ tl) c ->
  scanned_b F s 0 (tokens_of (blt x)) tl c' (N.of_nat c :: cols) (Z.of_nat c).
Proof.
  intros Had (Hwf & HC & _) Hd Htl Hc' Hfuel. unfold fuel_ok, item_text in Hfuel.
  destruct x as [w|[d|] items|[d|] pairs|items]; cbn [after_dash lead child_col app] in *; [| | | | |contradiction].
  - cbn [bwf] in Hwf. destruct (word_first w Hwf) as (c0 & w' & -> & Hw).
    cbn [brender] in Had, Hfuel. rewrite <- app_assoc in Had. cbn [app] in Had.
    lens Hfuel.
    destruct (word_after_dash F s c0 w' c' tl (c + 2) (N.of_nat c) cols Had ltac:(lia) ltac:(lia) Hw Htl ltac:(lia) ltac:(lia))
      as (toks & s' & H1 & H2 & H3).
    eapply scanned_word; eassumption.
  - replace (Z.of_nat c) with (fst (stk (N.of_nat c :: cols))) by (cbn; lia).
    apply (HC eq_refl F (c + 1 + d)%nat (N.of_nat c :: cols) s c' tl); [right; exact Had | unfold top_lt; cbn; lia | cbn [length]; lia | exact Htl | lia |].
    unfold fuel_ok. lens Hfuel. lensg. lia.
  - replace (Z.of_nat c) with (fst (stk (N.of_nat c :: cols))) by (cbn; lia).
    apply (HC eq_refl F (c + 2)%nat (N.of_nat c :: cols) s c' tl); [left; exact Had | unfold top_lt; cbn; lia | cbn [length]; lia | exact Htl | lia |].
    unfold fuel_ok. lens Hfuel. lensg. lia.
  - replace (Z.of_nat c) with (fst (stk (N.of_nat c :: cols))) by (cbn; lia).
    apply (HC eq_refl F (c + 1 + d)%nat (N.of_nat c :: cols) s c' tl); [right; exact Had | unfold top_lt; cbn; lia | cbn [length]; lia | exact Htl | lia |].
    unfold fuel_ok. lens Hfuel. lensg. lia.
  - replace (Z.of_nat c) with (fst (stk (N.of_nat c :: cols))) by (cbn; lia).
    apply (HC eq_refl F (c + 2)%nat (N.of_nat c :: cols) s c' tl); [left; exact Had | unfold top_lt; cbn; lia | cbn [length]; lia | exact Htl | lia |].
    unfold fuel_ok. lens Hfuel. lensg. lia.
Qed.

(* head tokens, then a child, then the rest *)
Lemma scanned_seq F s pend t1 s1 H T1 T2 tl1 c1 tl c' cols low :
  delivers F s t1 s1 -> map snd t1 = repeat TBlockEnd pend ++ H ->
  scanned_b F s1 0 T1 tl1 c1 cols low ->
  (forall s2 ext1, at_tok s2 tl1 c1 (ext1 ++ cols) -> Forall (fun e => (low < Z.of_N e)%Z) ext1 ->
                   scanned_b F s2 (length ext1) T2 tl c' cols low) ->
  scanned_b F s pend (H ++ T1 ++ T2) tl c' cols low.
Proof.
  intros Hd1 Hm1 (toks1 & s2 & ext1 & Hd2 & He2 & Hat2 & Hf2) Htail.
  destruct (Htail s2 ext1 Hat2 Hf2) as (toks2 & s3 & ext2 & Hd3 & He3 & Hat3 & Hf3).
  exists (t1 ++ toks1 ++ toks2), s3, ext2. split; [|split; [|split; assumption]].
  - eapply delivers_trans; [exact Hd1|]. eapply delivers_trans; eassumption.
  - cbn [repeat app] in He2.
    transitivity ((repeat TBlockEnd pend ++ H) ++ map snd toks1 ++ (repeat TBlockEnd (length ext1) ++ T2)).
    + rewrite He2, <- !app_assoc. reflexivity.
    + rewrite He3, <- Hm1, !map_app, <- !app_assoc. reflexivity.
Qed.

(* the elements behind the first one: each on a line of its own at column c; then the line (c', tl) *)
Definition cont {A} (f : nat -> A -> str) (c : nat) (xs : list A) (c' : nat) (tl : list N) : nat * list N :=
  match xs with [] => (c', tl) | x :: r => (c, f c x ++ more_text f c r ++ repeat 32 c' ++ tl) end.
Lemma cont_eq {A} (f : nat -> A -> str) c xs c' tl :
  more_text f c xs ++ repeat 32 c' ++ tl = repeat 32 (fst (cont f c xs c' tl)) ++ snd (cont f c xs c' tl).
Proof. destruct xs as [|x r]; cbn [cont fst snd more_text flat_map app]; [reflexivity|]. unfold spaces. rewrite <- !app_assoc. reflexivity. Qed.
Lemma cont_le {A} (f : nat -> A -> str) c xs c' tl : (c' <= c)%nat -> (fst (cont f c xs c' tl) <= c)%nat.
Proof. destruct xs; cbn; lia. Qed.

Lemma seq_tail F c cols c' tl : forall xs, Forall (ChildOK true) xs ->
  (forall x, In x xs -> (S (length cols) + bdepth x <= 255)%nat) -> line_first tl -> (c' <= c)%nat ->
  forall s ext, at_tok s (snd (cont item_text c xs c' tl)) (fst (cont item_text c xs c' tl)) (ext ++ N.of_nat c :: cols) ->
  Forall (fun e => (Z.of_nat c < Z.of_N e)%Z) ext ->
  fuel_ok F (more_text item_text c xs ++ repeat 32 c' ++ tl) c ->
  scanned_b F s (length ext) (flat_map item_toks xs) tl c' (N.of_nat c :: cols) (Z.of_nat c).
Proof.
  induction xs as [|x r IH]; intros Hok Hdep Htl Hc' s ext Hat Hext Hfuel.
  - cbn [cont fst snd flat_map] in *. exists [], s, ext. split; [apply delivers_nil|]. split; [rewrite app_nil_r; reflexivity|]. split; assumption.
  - inversion Hok as [|? ? Hx Hr]; subst. cbn [cont fst snd] in Hat. cbn [flat_map]. unfold item_toks at 1.
    change ((TBlockEntry :: tokens_of (blt x)) ++ flat_map item_toks r) with ([TBlockEntry] ++ tokens_of (blt x) ++ flat_map item_toks r).
    rewrite (cont_eq item_text c r c' tl) in Hat.
    assert (Hfx : fuel_ok F (item_text c x ++ repeat 32 (fst (cont item_text c r c' tl)) ++ snd (cont item_text c r c' tl)) c).
    { rewrite <- (cont_eq item_text c r c' tl). unfold fuel_ok, more_text, spaces in *. cbn [flat_map] in Hfuel. lens Hfuel. lensg. lia. }
    destruct (dash_item F s x c ext (N.of_nat c :: cols) false _ (or_introl Hat) (proj1 Hx) Hext ltac:(exists cols; reflexivity) ltac:(unfold fuel_ok in Hfuel; lia))
      as (t1 & s1 & Hd1 & Hm1 & Had & _).
    cbn [joined] in Had.
    eapply scanned_seq; [exact Hd1 | exact Hm1 | | ].
    + apply seq_child; [exact Had | exact Hx | apply Hdep; left; reflexivity | | apply cont_le, Hc' | exact Hfx].
      destruct r as [|y r']; cbn [cont snd]; [exact Htl | split; reflexivity].
    + intros s2 ext1 Hat2 Hf2. apply IH; [exact Hr | intros y Hy; apply Hdep; right; exact Hy | exact Htl | exact Hc' | exact Hat2 | exact Hf2 |].
      unfold fuel_ok, more_text, spaces in *. cbn [flat_map] in Hfuel. lens Hfuel. lensg. lia.
Qed.

(* closing the collection itself: its own level joins the levels owed *)
Lemma scanned_close F s Hd T tl c' cc cols :
  top_lt cols cc ->
  scanned_b F s 0 (Hd :: T) tl c' (N.of_nat cc :: cols) (Z.of_nat cc) ->
  scanned_b F s 0 (Hd :: T ++ [TBlockEnd]) tl c' cols (fst (stk cols)).
Proof.
  intros Htop (toks & s' & ext' & Hd1 & He & Hat & Hf).
  exists toks, s', (ext' ++ [N.of_nat cc]). split; [exact Hd1|]. split; [|split].
  - cbn [repeat app] in He |- *. rewrite app_length. cbn [length]. rewrite Nat.add_1_r. cbn [repeat].
    rewrite <- repeat_snoc. rewrite app_assoc, <- He. reflexivity.
  - rewrite <- app_assoc. exact Hat.
  - apply Forall_app. split; [|constructor; [unfold top_lt in Htop; lia|constructor]].
    eapply Forall_impl; [|exact Hf]. intros e He'. unfold top_lt in Htop. cbn beta in He'. lia.
Qed.

Lemma at_below_cols s cs cols : at_below s cs cols -> exists top rest, cols = top :: rest.
Proof. intros (l & i & ln & c0 & adj & ska & k & tp & top & rest & -> & _). eauto. Qed.

Lemma coll_seq pl x xs : Forall (ChildOK true) (x :: xs) -> CollScan (BS pl (x :: xs)).
Proof.
  intros Hok F cc cols s c' tl Harr Htop Hdep Htl Hc' Hfuel.
  inversion Hok as [|? ? Hx Hxs]; subst.
  rewrite brender_BS in Harr, Hfuel. rewrite <- app_assoc in Harr, Hfuel. rewrite tokens_BS.
  assert (Hlen : (length cols < 255)%nat) by (cbn [bdepth] in Hdep; lia).
  assert (Hdep' : forall y, In y (x :: xs) -> (S (length cols) + bdepth y <= 255)%nat).
  { intros y Hy. pose proof (bdepth_item pl (x :: xs) y Hy). lia. }
  set (rest := more_text item_text cc xs ++ repeat 32 c' ++ tl) in *.
  assert (Hdash : exists t1 s1, delivers F s t1 s1 /\ map snd t1 = repeat TBlockEnd 0 ++ [TBlockSequenceStart; TBlockEntry]
                                /\ after_dash s1 x cc cols rest).
  { destruct Harr as [Hat | Hbel].
    - destruct (dash_item F s x cc [] cols true rest (or_introl Hat) (proj1 Hx) ltac:(constructor) (top_lt_joins cols cc Htop Hlen)
                  ltac:(unfold fuel_ok in Hfuel; lia)) as (t1 & s1 & H1 & H2 & H3 & _).
      exists t1, s1. repeat split; assumption.
    - destruct (at_below_cols _ _ _ Hbel) as (top & rest0 & ->).
      destruct (dash_item_below F s x cc top rest0 rest Hbel (proj1 Hx) ltac:(unfold top_lt in Htop; cbn in Htop; lia) Hlen
                  ltac:(unfold fuel_ok in Hfuel; lia)) as (t1 & s1 & H1 & H2 & H3).
      exists t1, s1. repeat split; assumption. }
  destruct Hdash as (t1 & s1 & Hd1 & Hm1 & Had).
  cbn [flat_map]. unfold item_toks at 1.
  change (TBlockSequenceStart :: ((TBlockEntry :: tokens_of (blt x)) ++ flat_map item_toks xs) ++ [TBlockEnd])
    with (TBlockSequenceStart :: (TBlockEntry :: tokens_of (blt x) ++ flat_map item_toks xs) ++ [TBlockEnd]).
  apply (scanned_close F s _ _ tl c' cc cols Htop).
  change (TBlockSequenceStart :: TBlockEntry :: tokens_of (blt x) ++ flat_map item_toks xs)
    with ([TBlockSequenceStart; TBlockEntry] ++ tokens_of (blt x) ++ flat_map item_toks xs).
  unfold rest in Had. rewrite (cont_eq item_text cc xs c' tl) in Had.
  eapply scanned_seq; [exact Hd1 | exact Hm1 | | ].
  - apply seq_child; [exact Had | exact Hx | apply Hdep'; left; reflexivity | | apply cont_le, Hc' | ].
    + destruct xs as [|y r']; cbn [cont snd]; [exact Htl | split; reflexivity].
    + rewrite <- (cont_eq item_text cc xs c' tl). exact Hfuel.
  - intros s2 ext1 Hat2 Hf2. apply seq_tail; [exact Hxs | intros y Hy; apply Hdep'; right; exact Hy | exact Htl | exact Hc' | exact Hat2 | exact Hf2 |].
    unfold fuel_ok, rest in *. lens Hfuel. lensg. lia.
Qed.

(* ---- mappings ---- *)
Lemma lead_first c v : exists y r, lead c v = y :: r /\ (y = 32 \/ y = 10).
Proof. destruct v as [w|[d|] items|[d|] pairs|items]; cbn [lead]; eauto. Qed.

Lemma key_ok_word k : key_ok k = true -> exists c0 w, k = c0 :: w /\ forallb wch (c0 :: w) = true /\ wlen c0 w <= SIMPLE_KEY_MAX.
Proof.
  unfold key_ok. intros H. apply andb_prop in H as [Hw Hs]. destruct (word_first k Hw) as (c0 & w & -> & Hcw).
  exists c0, w. split; [reflexivity|]. split; [exact Hcw|]. unfold key_short, key_max in Hs. apply N.leb_le in Hs. exact Hs.
Qed.

Lemma key_item F s p c ext base opens rest :
  at_tok s (pair_text c p ++ rest) c (ext ++ base) -> key_ok (fst p) = true ->
  Forall (fun e => (Z.of_nat c < Z.of_N e)%Z) ext -> joins opens c base -> (2 * length (fst p) + 3 <= F)%nat ->
  exists toks s', delivers F s toks s' /\ map snd toks = repeat TBlockEnd (length ext) ++ key_toks opens (fst p) /\
                  at_below s' (lead c (snd p) ++ brender (child_col c (snd p)) (snd p) ++ rest) (joined opens c base).
Proof.
  intros Hat Hk Hext Hj HF. destruct p as [k v]. cbn [fst snd] in *. unfold pair_text in Hat. cbn [fst snd] in Hat.
  destruct (key_ok_word k Hk) as (c0 & w & -> & Hw & Hlen).
  destruct (lead_first c v) as (y & r & El & Hy). rewrite El in Hat |- *.
  rewrite <- app_assoc in Hat. cbn [app] in Hat. rewrite <- app_assoc in Hat. cbn [app] in Hat |- *.
  exact (key_at_tok F s c0 w y (r ++ brender (child_col c v) v ++ rest) c ext base opens Hat Hw Hlen Hy Hext Hj ltac:(cbn [length] in HF; lia)).
Qed.

Lemma key_item_below F s p c top rest0 rest :
  at_below s (10 :: repeat 32 c ++ pair_text c p ++ rest) (top :: rest0) -> key_ok (fst p) = true ->
  top < N.of_nat c -> (length (top :: rest0) < 255)%nat -> (2 * length (fst p) + 3 <= F)%nat -> (c + 2 <= F)%nat ->
  exists toks s', delivers F s toks s' /\ map snd toks = key_toks true (fst p) /\
                  at_below s' (lead c (snd p) ++ brender (child_col c (snd p)) (snd p) ++ rest) (N.of_nat c :: top :: rest0).
Proof.
  intros Hat Hk Hlt Hlen255 HF HF2. destruct p as [k v]. cbn [fst snd] in *. unfold pair_text in Hat. cbn [fst snd] in Hat.
  destruct (key_ok_word k Hk) as (c0 & w & -> & Hw & Hlen).
  destruct (lead_first c v) as (y & r & El & Hy). rewrite El in Hat |- *.
  rewrite <- app_assoc in Hat. cbn [app] in Hat. rewrite <- app_assoc in Hat. cbn [app] in Hat |- *.
  exact (key_at_below F s c0 w y (r ++ brender (child_col c v) v ++ rest) c top rest0 Hat Hlt Hlen255 Hw Hlen Hy ltac:(cbn [length] in HF; lia) HF2).
Qed.

(* a value behind its "key:" *)
Lemma map_child F s v c cols c' tl :
  at_below s (lead c v ++ brender (child_col c v) v ++ repeat 32 c' ++ tl) (N.of_nat c :: cols) ->
  ChildOK false v -> (S (length cols) + bdepth v <= 255)%nat ->
  line_first tl -> (c' <= c)%nat -> fuel_ok F (58 :: lead c v ++ brender (child_col c v) v ++ repeat 32 c' ++ tl) c ->
  scanned_b F s 0 (tokens_of (blt v)) tl c' (N.of_nat c :: cols) (Z.of_nat c).
Proof.
  intros Hat (Hwf & HC & HI) Hd Htl Hc' Hfuel. unfold fuel_ok in Hfuel.
  destruct v as [w|[d|] items|[d|] pairs|items]; cbn [lead child_col app] in *.
  6:{ apply (HI items eq_refl F c cols s c' tl Hat Hd Htl Hc'). unfold fuel_ok. lens Hfuel. lensg. lia. }
  - cbn [bwf] in Hwf. destruct (word_first w Hwf) as (c0 & w' & -> & Hw).
    cbn [brender] in Hat, Hfuel. rewrite <- app_assoc in Hat. cbn [app] in Hat.
    lens Hfuel.
    destruct (word_after_key F s c0 w' c' tl (N.of_nat c) cols Hat ltac:(lia) Hw Htl ltac:(lia) ltac:(lia))
      as (toks & s' & H1 & H2 & H3).
    eapply scanned_word; eassumption.
  - replace (Z.of_nat c) with (fst (stk (N.of_nat c :: cols))) by (cbn; lia).
    apply (HC eq_refl F (c + 1 + d)%nat (N.of_nat c :: cols) s c' tl); [right; exact Hat | unfold top_lt; cbn; lia | cbn [length]; lia | exact Htl | lia |].
    unfold fuel_ok. lens Hfuel. lensg. lia.
  - cbn [bwf place_ok andb] in Hwf. discriminate.
  - replace (Z.of_nat c) with (fst (stk (N.of_nat c :: cols))) by (cbn; lia).
    apply (HC eq_refl F (c + 1 + d)%nat (N.of_nat c :: cols) s c' tl); [right; exact Hat | unfold top_lt; cbn; lia | cbn [length]; lia | exact Htl | lia |].
    unfold fuel_ok. lens Hfuel. lensg. lia.
  - cbn [bwf place_ok andb] in Hwf. discriminate.
Qed.

Definition PairOK (p : str * bnode) : Prop := key_ok (fst p) = true /\ ChildOK false (snd p).

Lemma pair_line_first c p z : key_ok (fst p) = true -> line_first (pair_text c p ++ z).
Proof.
  intros Hk. destruct (key_ok_word _ Hk) as (c0 & w & E & Hw & _). unfold pair_text. rewrite E. cbn [app line_first].
  cbn [forallb] in Hw. apply andb_prop in Hw as [Hc0 _]. destruct (first_char_facts c0 (or_intror Hc0)) as ((H32 & H9 & _) & Hbr & _).
  split; [unfold is_blank; rewrite H32, H9; reflexivity | exact Hbr].
Qed.

Lemma map_tail F c cols c' tl : forall ps, Forall PairOK ps ->
  (forall p, In p ps -> (S (length cols) + bdepth (snd p) <= 255)%nat) -> line_first tl -> (c' <= c)%nat ->
  forall s ext, at_tok s (snd (cont pair_text c ps c' tl)) (fst (cont pair_text c ps c' tl)) (ext ++ N.of_nat c :: cols) ->
  Forall (fun e => (Z.of_nat c < Z.of_N e)%Z) ext ->
  fuel_ok F (more_text pair_text c ps ++ repeat 32 c' ++ tl) c ->
  scanned_b F s (length ext) (flat_map pair_toks ps) tl c' (N.of_nat c :: cols) (Z.of_nat c).
Proof.
  induction ps as [|p r IH]; intros Hok Hdep Htl Hc' s ext Hat Hext Hfuel.
  - cbn [cont fst snd flat_map] in *. exists [], s, ext. split; [apply delivers_nil|]. split; [rewrite app_nil_r; reflexivity|]. split; assumption.
  - inversion Hok as [|? ? Hp Hr]; subst. destruct Hp as [Hk Hv]. cbn [cont fst snd] in Hat. cbn [flat_map]. unfold pair_toks at 1.
    rewrite <- app_assoc.
    rewrite (cont_eq pair_text c r c' tl) in Hat.
    assert (Hfx : fuel_ok F (pair_text c p ++ repeat 32 (fst (cont pair_text c r c' tl)) ++ snd (cont pair_text c r c' tl)) c).
    { rewrite <- (cont_eq pair_text c r c' tl). unfold fuel_ok, more_text, spaces in *. cbn [flat_map] in Hfuel. lens Hfuel. lensg. lia. }
    assert (Hfk : (2 * length (fst p) + 3 <= F)%nat).
    { unfold fuel_ok, pair_text in Hfx. lens Hfx. lia. }
    destruct (key_item F s p c ext (N.of_nat c :: cols) false _ Hat Hk Hext ltac:(exists cols; reflexivity) Hfk)
      as (t1 & s1 & Hd1 & Hm1 & Hab).
    cbn [joined] in Hab. unfold key_toks in Hm1. cbn [app] in Hm1.
    eapply scanned_seq; [exact Hd1 | exact Hm1 | | ].
    + apply map_child; [exact Hab | exact Hv | apply Hdep; left; reflexivity | | apply cont_le, Hc' | ].
      * destruct r as [|y r']; cbn [cont snd]; [exact Htl | apply pair_line_first]. inversion Hr as [|? ? [Hky _] _]; subst. exact Hky.
      * unfold fuel_ok, pair_text in *. lens Hfx. lensg. lia.
    + intros s2 ext1 Hat2 Hf2. apply IH; [exact Hr | intros y Hy; apply Hdep; right; exact Hy | exact Htl | exact Hc' | exact Hat2 | exact Hf2 |].
      unfold fuel_ok, more_text, spaces in *. cbn [flat_map] in Hfuel. lens Hfuel. lensg. lia.
Qed.

Lemma pair_text_len c p :
  length (pair_text c p) = (length (fst p) + S (length (lead c (snd p)) + length (brender (child_col c (snd p)) (snd p))))%nat.
Proof. unfold pair_text. rewrite app_length. cbn [length]. rewrite app_length. reflexivity. Qed.

Lemma coll_map pl p ps : Forall PairOK (p :: ps) -> CollScan (BM pl (p :: ps)).
Proof.
  intros Hok F cc cols s c' tl Harr Htop Hdep Htl Hc' Hfuel.
  inversion Hok as [|? ? Hp Hps]; subst. destruct Hp as [Hk Hv].
  rewrite brender_BM in Harr, Hfuel. rewrite <- app_assoc in Harr, Hfuel. rewrite tokens_BM.
  assert (Hlen : (length cols < 255)%nat) by (cbn [bdepth] in Hdep; lia).
  assert (Hdep' : forall y, In y (p :: ps) -> (S (length cols) + bdepth (snd y) <= 255)%nat).
  { intros y Hy. pose proof (bdepth_pair pl (p :: ps) y Hy). lia. }
  set (rest := more_text pair_text cc ps ++ repeat 32 c' ++ tl) in *.
  assert (Hfk : (2 * length (fst p) + 3 <= F)%nat).
  { unfold fuel_ok in Hfuel. lens Hfuel. rewrite pair_text_len in Hfuel. lia. }
  assert (Hkey : exists t1 s1, delivers F s t1 s1 /\ map snd t1 = repeat TBlockEnd 0 ++ [TBlockMappingStart; TKey; TScalar Plain (fst p); TValue]
                                /\ at_below s1 (lead cc (snd p) ++ brender (child_col cc (snd p)) (snd p) ++ rest) (N.of_nat cc :: cols)).
  { destruct Harr as [Hat | Hbel].
    - destruct (key_item F s p cc [] cols true rest Hat Hk ltac:(constructor) (top_lt_joins cols cc Htop Hlen) Hfk) as (t1 & s1 & H1 & H2 & H3).
      exists t1, s1. repeat split; assumption.
    - destruct (at_below_cols _ _ _ Hbel) as (top & rest0 & ->).
      destruct (key_item_below F s p cc top rest0 rest Hbel Hk ltac:(unfold top_lt in Htop; cbn in Htop; lia) Hlen Hfk
                  ltac:(unfold fuel_ok in Hfuel; lia)) as (t1 & s1 & H1 & H2 & H3).
      exists t1, s1. repeat split; assumption. }
  destruct Hkey as (t1 & s1 & Hd1 & Hm1 & Hab).
  cbn [flat_map]. unfold pair_toks at 1.
  change (TBlockMappingStart :: (([TKey; TScalar Plain (fst p); TValue] ++ tokens_of (blt (snd p))) ++ flat_map pair_toks ps) ++ [TBlockEnd])
    with (TBlockMappingStart :: (TKey :: TScalar Plain (fst p) :: TValue :: tokens_of (blt (snd p)) ++ flat_map pair_toks ps) ++ [TBlockEnd]).
  apply (scanned_close F s _ _ tl c' cc cols Htop).
  change (TBlockMappingStart :: TKey :: TScalar Plain (fst p) :: TValue :: tokens_of (blt (snd p)) ++ flat_map pair_toks ps)
    with ([TBlockMappingStart; TKey; TScalar Plain (fst p); TValue] ++ tokens_of (blt (snd p)) ++ flat_map pair_toks ps).
  unfold rest in Hab. rewrite (cont_eq pair_text cc ps c' tl) in Hab.
  eapply scanned_seq; [exact Hd1 | exact Hm1 | | ].
  - apply map_child; [exact Hab | exact Hv | apply Hdep'; left; reflexivity | | apply cont_le, Hc' | ].
    + destruct ps as [|y r']; cbn [cont snd]; [exact Htl | apply pair_line_first]. inversion Hps as [|? ? [Hky _] _]; subst. exact Hky.
    + rewrite <- (cont_eq pair_text cc ps c' tl). unfold fuel_ok, rest in *. lens Hfuel. rewrite pair_text_len in Hfuel. lensg. lia.
  - intros s2 ext1 Hat2 Hf2. apply map_tail; [exact Hps | intros y Hy; apply Hdep'; right; exact Hy | exact Htl | exact Hc' | exact Hat2 | exact Hf2 |].
    unfold fuel_ok, rest in *. lens Hfuel. lensg. lia.
Qed.

(* ---------- every node of the sub-language ---------- *)
(* an indentless sequence: the first "-" is reached from behind "key:" NL; then as for any sequence *)
Lemma iseq_scan x xs : Forall (ChildOK true) (x :: xs) -> IScan (x :: xs).
Proof.
  intros Hok F c cols s c' tl Hbel Hdep Htl Hc' Hfuel.
  inversion Hok as [|? ? Hx Hxs]; subst.
  rewrite brender_BI in Hbel, Hfuel. rewrite <- app_assoc in Hbel, Hfuel. rewrite tokens_BI.
  assert (Hdep' : forall y, In y (x :: xs) -> (S (length cols) + bdepth y <= 255)%nat).
  { intros y Hy. cbn [bdepth] in Hdep. revert Hdep. generalize (x :: xs) Hy. clear. intros l Hy.
    induction l as [|z r IH]; [destruct Hy|]. cbn [fold_right]. destruct Hy as [->|Hy]; [lia|]. intros H. apply IH; [exact Hy|lia]. }
  set (rest := more_text item_text c xs ++ repeat 32 c' ++ tl) in *.
  destruct (dash_item F s x c [] (N.of_nat c :: cols) false rest
              (or_intror (ex_intro _ cols (conj eq_refl Hbel))) (proj1 Hx) ltac:(constructor) ltac:(exists cols; reflexivity)
              ltac:(unfold fuel_ok in Hfuel; lia)) as (t1 & s1 & Hd1 & Hm1 & Had & _).
  cbn [joined] in Had. cbn [flat_map]. unfold item_toks at 1.
  change ((TBlockEntry :: tokens_of (blt x)) ++ flat_map item_toks xs) with ([TBlockEntry] ++ tokens_of (blt x) ++ flat_map item_toks xs).
  unfold rest in Had. rewrite (cont_eq item_text c xs c' tl) in Had.
  eapply scanned_seq; [exact Hd1 | exact Hm1 | | ].
  - apply seq_child; [exact Had | exact Hx | apply Hdep'; left; reflexivity | | apply cont_le, Hc' | ].
    + destruct xs as [|y r']; cbn [cont snd]; [exact Htl | split; reflexivity].
    + rewrite <- (cont_eq item_text c xs c' tl). exact Hfuel.
  - intros s2 ext1 Hat2 Hf2. apply seq_tail; [exact Hxs | intros y Hy; apply Hdep'; right; exact Hy | exact Htl | exact Hc' | exact Hat2 | exact Hf2 |].
    unfold fuel_ok, rest in *. lens Hfuel. lensg. lia.
Qed.

Theorem child_ok : forall n inl, bwf inl n = true -> ChildOK inl n.
Proof.
  apply (bnode_ind2 (fun n => forall inl, bwf inl n = true -> ChildOK inl n)).
  - intros w inl H. split; [exact H|]. split; [discriminate|intros items [=]].
  - intros pl items IH inl H. split; [exact H|]. split; [|intros items' [=]]. intros _.
    cbn [bwf] in H. apply andb_prop in H as [H Hall]. apply andb_prop in H as [_ Hne].
    destruct items as [|x xs]; [discriminate|]. apply coll_seq.
    rewrite Forall_forall in *. intros y Hy. apply IH; [exact Hy|]. rewrite forallb_forall in Hall. exact (Hall y Hy).
  - intros pl pairs IH inl H. split; [exact H|]. split; [|intros items' [=]]. intros _.
    cbn [bwf] in H. apply andb_prop in H as [H Hall]. apply andb_prop in H as [_ Hne].
    destruct pairs as [|p ps]; [discriminate|]. apply coll_map.
    rewrite Forall_forall in *. intros y Hy. rewrite forallb_forall in Hall. specialize (Hall y Hy). apply andb_prop in Hall as [Hk Hv].
    split; [exact Hk|]. apply IH; [exact Hy|exact Hv].
  - intros items IH inl H. split; [exact H|]. split; [discriminate|]. intros items' [= <-].
    cbn [bwf] in H. apply andb_prop in H as [H Hall]. apply andb_prop in H as [_ Hne].
    destruct items as [|x xs]; [discriminate|]. apply iseq_scan.
    rewrite Forall_forall in *. intros y Hy. apply IH; [exact Hy|]. rewrite forallb_forall in Hall. exact (Hall y Hy).
Qed.

Theorem coll_scan_all : forall n inl, bwf inl n = true -> b_is_coll n = true -> CollScan n.
Proof. intros n inl H. exact (proj1 (proj2 (child_ok n inl H))). Qed.

Theorem iscan_all : forall items, bwf false (BI items) = true -> IScan items.
Proof. intros items H. exact (proj2 (proj2 (child_ok (BI items) false H)) items eq_refl). Qed.

(* ---------- the end of the input ---------- *)
Lemma split_cols cols : exists ext base, cols = ext ++ base /\ Forall (fun e => (Z.of_nat 0 < Z.of_N e)%Z) ext /\ base_le base (Z.of_nat 0).
Proof.
  induction cols as [|c r IH].
  - exists [], []. repeat split; [constructor | cbn; lia].
  - destruct (N.ltb 0 c) eqn:E.
    + destruct IH as (ext & base & -> & H1 & H2). exists (c :: ext), base. repeat split; [|exact H2].
      constructor; [apply N.ltb_lt in E; lia | exact H1].
    + exists [], (c :: r). repeat split; [constructor|]. cbn. apply N.ltb_ge in E. lia.
Qed.

Lemma need_none cs l mk t q adj ska k ind inds tp ta lws : sk_possible k = false ->
  need_comp (mkb cs l mk (t :: q) adj ska k ind inds tp ta lws) = Ok (false, mkb cs l mk (t :: q) adj ska k ind inds tp ta lws).
Proof.
  intros Hk. rewrite need_b by (rewrite (stale_k_not_possible _ _ Hk); reflexivity).
  cbn zeta. rewrite (stale_k_not_possible _ _ Hk), Hk. reflexivity.
Qed.

Lemma end_pop F cs l mk sp adj ska k ind inds tp lws acc fuel : (1 <= F)%nat -> sk_possible k = false ->
  scan_all str_ops F (S (S fuel)) (mkb cs l mk [(sp, TStreamEnd)] adj ska k ind inds tp false lws) acc
  = (rev ((sp, TStreamEnd) :: acc), SEnded).
Proof.
  intros HF Hk. destruct F as [|F']; [lia|].
  rewrite scan_all_S, (nt_ntb (S F') (S F')) by reflexivity.
  erewrite ntb_pop; [| reflexivity | apply need_none; exact Hk].
  unfold popk, mkb. cbn. rewrite scan_all_S. unfold next_token. cbn. reflexivity.
Qed.

Lemma drain_b_r F ts : forall cs l mk r adj ska k ind inds tp lws,
  (1 <= F)%nat -> no_se ts -> sk_possible k = false ->
  delivers F (mkb cs l mk (ts ++ r) adj ska k ind inds tp false lws) ts
             (mkb cs l mk r adj ska k ind inds (tp + N.of_nat (length ts)) false lws).
Proof.
  induction ts as [|t ts IH]; intros cs l mk r adj ska k ind inds tp lws HF Hts Hk.
  - cbn [app length N.of_nat]. rewrite N.add_0_r. apply delivers_nil.
  - inversion Hts as [|? ? Ht Hts']; subst.
    eapply (delivers_trans F _ [t] _ ts).
    + apply delivers_one. cbn [app].
      pose proof (pop_b F cs l mk t (ts ++ r) adj ska k ind inds tp lws HF Ht) as P.
      unfold staled in P. rewrite (stale_k_not_possible _ _ Hk), Hk in P. exact (P eq_refl eq_refl).
    + replace (tp + N.of_nat (length (t :: ts))) with (tp + 1 + N.of_nat (length ts)) by (cbn [length]; lia).
      apply IH; assumption.
Qed.

Lemma stream_end_all F s cols : at_tok s [] 0 cols -> (3 <= F)%nat ->
  exists toks, map snd toks = repeat TBlockEnd (length cols) ++ [TStreamEnd] /\
    forall fuel acc, (length toks < fuel)%nat -> scan_all str_ops F fuel s acc = (rev acc ++ toks, SEnded).
Proof.
  intros (l & i & ln & adj & k & tp & lws & -> & Hk) HF.
  destruct (key_done_stale k i ln (N.of_nat 0) Hk) as [Hst Hnp].
  destruct (split_cols cols) as (ext & base & -> & Hext & Hbase).
  set (m := mkm i ln (N.of_nat 0)) in *.
  assert (Hf : exists l', fetch_next_token str_ops F (mkb [] l m [] adj true k (fst (stk (ext ++ base))) (snd (stk (ext ++ base))) tp false lws)
               = Ok (tt, mkb [] l' m (((repeat (be_tok m) (length ext)) ++ repeat (be_tok m) (length base)) ++ [se_tok m]) adj false
                           (unposs (staled k m)) (fst (stk [])) (snd (stk [])) tp false lws)).
  { eexists. erewrite fnt_b; [ | apply skip_eof; lia | exact Hst
                               | cbn [m_col mkm m]; rewrite nat_N_Z; apply unroll_stk; [exact Hext | exact Hbase | rewrite stk_len, app_length; lia] ].
    cbn [app]. rewrite tail_eof. unfold m. cbn [N.of_nat].
    apply (stream_end_b _ i ln); [fold m; change 0 with (N.of_nat 0); fold m; rewrite Hnp; apply andb_false_r|].
    pose proof (unroll_stk base [] (-1)%Z (S (length (snd (stk base))))) as U. rewrite app_nil_r in U. apply U; [|cbn; lia|rewrite stk_len; lia].
    apply Forall_forall. intros e _. lia. }
  destruct Hf as (l' & Hf).
  set (bes := repeat (be_tok m) (length ext) ++ repeat (be_tok m) (length base)) in *.
  exists (bes ++ [se_tok m]). split.
  - unfold bes. rewrite !map_app, !map_snd_be, <- repeat_app, <- app_length. reflexivity.
  - intros fuel acc Hfuel. rewrite app_length in Hfuel. cbn [length] in Hfuel.
    assert (Hbes : no_se bes) by (apply no_se_app; apply no_se_be).
    destruct bes as [|b bs] eqn:Eb.
    + (* only StreamEnd *)
      destruct fuel as [|[|fuel]]; [lia|lia|]. cbn [app].
      rewrite scan_all_S.
      rewrite (nt_of_ntb F 2 _ (Some (se_tok m), set_se true (mkb [] l' m [] adj false (unposs (staled k m)) (fst (stk [])) (snd (stk [])) (tp + 1) false lws)));
        [ | reflexivity | lia | ].
      * rewrite scan_all_S. unfold next_token. cbn. reflexivity.
      * erewrite ntb_fetch; [ | reflexivity | apply need_empty_b | exact Hf | reflexivity].
        erewrite ntb_pop; [| reflexivity | apply need_none; reflexivity]. reflexivity.
    + inversion Hbes as [|? ? Hb Hbs]; subst.
      assert (E1 : next_token str_ops F (mkb [] l m [] adj true k (fst (stk (ext ++ base))) (snd (stk (ext ++ base))) tp false lws)
                   = Ok (Some b, mkb [] l' m (bs ++ [se_tok m]) adj false (unposs (staled k m)) (fst (stk [])) (snd (stk [])) (tp + 1) false lws)).
      { apply (nt_of_ntb F 2); [reflexivity | lia |].
        erewrite ntb_fetch; [ | reflexivity | apply need_empty_b | exact Hf | reflexivity].
        cbn [app]. rewrite ntb_pop_b; [reflexivity | exact Hb | reflexivity | reflexivity]. }
      pose proof (drain_b_r F bs [] l' m [se_tok m] adj false (unposs (staled k m)) (fst (stk [])) (snd (stk [])) (tp + 1) lws ltac:(lia) Hbs eq_refl) as D.
      pose proof (delivers_trans F _ [b] _ bs _ (delivers_one F _ _ b E1) D) as D2.
      assert (Ef : exists f2, fuel = (length ([b] ++ bs) + S (S f2))%nat).
      { exists (fuel - length ([b] ++ bs) - 2)%nat. cbn [length app] in *. lia. }
      destruct Ef as (f2 & ->). rewrite D2. unfold se_tok. rewrite end_pop by (lia || reflexivity).
      cbn [rev app]. rewrite !rev_app_distr, rev_involutive. cbn [rev app]. rewrite <- !app_assoc. reflexivity.
Qed.

(* ---------- at most two tokens per character ---------- *)
Lemma bjoin_length c (l : list str) : (length (concat l) <= length (bjoin c l))%nat.
Proof.
  destruct l as [|x r]; cbn [bjoin concat length]; [lia|]. rewrite !app_length.
  enough (length (concat r) <= length (flat_map (fun y => spaces c ++ y) r))%nat by lia.
  induction r as [|y r IH]; cbn [concat flat_map length]; [lia|]. rewrite !app_length. lia.
Qed.
Lemma lead_length c x : (1 <= length (lead c x))%nat.
Proof. destruct x as [w|[d|] items|[d|] pairs|items]; cbn [lead length]; lia. Qed.

Lemma items_sum (P : bnode -> Prop) c items :
  (forall x, P x -> bwf true x = true -> (length (tokens_of (blt x)) <= 2 * length (brender (child_col c x) x))%nat) ->
  Forall P items -> forallb (bwf true) items = true ->
  (length (flat_map item_toks items) + 3 * length items <= 2 * length (concat (map (item_text c) items)))%nat.
Proof.
  intros HP IH Hall. induction items as [|x r IHr]; [cbn; lia|].
  inversion IH as [|? ? Hx Hr]; subst. cbn [forallb] in Hall. apply andb_prop in Hall as [Hwx Hwr].
  cbn [flat_map map concat length]. rewrite !app_length. unfold item_toks at 1. unfold item_text at 1. cbn [length]. rewrite app_length.
  specialize (IHr Hr Hwr). pose proof (HP x Hx Hwx). pose proof (lead_length c x). lia.
Qed.

Definition TokLe (n : bnode) : Prop := forall inl c, bwf inl n = true -> (length (tokens_of (blt n)) <= 2 * length (brender c n))%nat.
Lemma toks_le_text : forall n inl c, bwf inl n = true -> (length (tokens_of (blt n)) <= 2 * length (brender c n))%nat.
Proof.
  apply (bnode_ind2 (fun n => forall inl c, bwf inl n = true -> (length (tokens_of (blt n)) <= 2 * length (brender c n))%nat)).
  - intros w inl c _. cbn. rewrite app_length. cbn [length]. lia.
  - intros pl items IH inl c H. cbn [bwf] in H. apply andb_prop in H as [H Hall]. apply andb_prop in H as [_ Hne].
    rewrite tokens_BS. change (brender c (BS pl items)) with (bjoin c (map (item_text c) items)).
    cbn [length]. rewrite app_length. cbn [length].
    pose proof (bjoin_length c (map (item_text c) items)) as HJ.
    pose proof (items_sum TokLe c items (fun x (Hx : TokLe x) Hw => Hx true (child_col c x) Hw) IH Hall) as Hsum.
    destruct items as [|x r]; [discriminate|]. cbn [length] in Hsum. unfold str in *. lia.
  - intros pl pairs IH inl c H. cbn [bwf] in H. apply andb_prop in H as [H Hall]. apply andb_prop in H as [_ Hne].
    rewrite tokens_BM. change (brender c (BM pl pairs)) with (bjoin c (map (pair_text c) pairs)).
    cbn [length]. rewrite app_length. cbn [length].
    pose proof (bjoin_length c (map (pair_text c) pairs)) as HJ.
    assert (Hsum : (length (flat_map pair_toks pairs) + 3 * length pairs <= 2 * length (concat (map (pair_text c) pairs)))%nat).
    { clear HJ Hne. induction pairs as [|x r IHr]; [cbn; lia|].
      inversion IH as [|? ? Hx Hr]; subst. cbn [forallb] in Hall. apply andb_prop in Hall as [Hwx Hwr]. apply andb_prop in Hwx as [Hk Hwx].
      cbn [flat_map map concat length]. rewrite !app_length. unfold pair_toks at 1. rewrite pair_text_len. cbn [length app].
      specialize (IHr Hr Hwr). specialize (Hx false (child_col c (snd x)) Hwx). pose proof (lead_length c (snd x)).
      destruct (key_ok_word _ Hk) as (c0 & w & E & _). rewrite E. cbn [length]. lia. }
    destruct pairs as [|x r]; [discriminate|]. cbn [length] in Hsum. unfold str in *. lia.
  - intros items IH inl c H. cbn [bwf] in H. apply andb_prop in H as [H Hall]. apply andb_prop in H as [_ Hne].
    rewrite tokens_BI. change (brender c (BI items)) with (bjoin c (map (item_text c) items)).
    pose proof (bjoin_length c (map (item_text c) items)) as HJ.
    pose proof (items_sum TokLe c items (fun x (Hx : TokLe x) Hw => Hx true (child_col c x) Hw) IH Hall) as Hsum.
    unfold str in *. lia.
Qed.

(* ---------- the whole scanner on a document of the sub-language ---------- *)
Theorem scan_block n : bwf_root n = true -> (bdepth n <= 255)%nat ->
  exists toks, scan_str (bdoc_text n) = (toks, SEnded) /\ map snd toks = wrap false false (tokens_of (blt n)).
Proof.
  intros Hroot Hdep. unfold bwf_root in Hroot. apply andb_prop in Hroot as [Hcoll Hwf].
  destruct (child_ok n true Hwf) as (_ & HC & _). specialize (HC Hcoll).
  unfold scan_str, bdoc_text. set (txt := brender 0 n).
  remember (2 * length txt + 10)%nat as F eqn:HF.
  set (S1 := mkb txt 1 (mkm 0 1 0) [] 0 true dummy_key (-1)%Z [] 1 false true).
  assert (Hat : at_tok S1 (brender 0 n ++ repeat 32 0 ++ []) 0 []).
  { cbn [repeat app]. rewrite app_nil_r. exists 1%nat, 0, 1, 0, dummy_key, 1, true. split; [reflexivity|left; reflexivity]. }
  destruct (HC F 0%nat [] S1 0%nat [] (or_introl Hat) ltac:(unfold top_lt; cbn; lia) ltac:(cbn [length]; lia) I ltac:(lia)
              ltac:(unfold fuel_ok; cbn [repeat app]; rewrite app_nil_r; fold txt; lia))
    as (toks & s' & ext' & Hd & He & Hat' & _).
  destruct (stream_end_all F s' (ext' ++ []) Hat' ltac:(lia)) as (toks2 & Hm2 & Hscan).
  cbn [repeat app] in He.
  pose proof (toks_le_text n true 0%nat Hwf) as Hlen. fold txt in Hlen.
  assert (Hl1 : (length toks + length ext' = length (tokens_of (blt n)))%nat).
  { rewrite He, app_length, map_length, repeat_length. reflexivity. }
  assert (Hl2 : length toks2 = S (length ext')).
  { rewrite <- (map_length snd toks2), Hm2, app_length, repeat_length, app_nil_r. cbn [length]. lia. }
  assert (Etot : exists f2, (4 * F + 20 = S (length toks + f2) /\ length toks2 < f2)%nat).
  { exists (4 * F + 19 - length toks)%nat. lia. }
  destruct Etot as (f2 & -> & Hf2).
  rewrite scan_all_S, (first_token F txt) by lia. cbv beta iota.
  change (mkst txt 1 (mk1 0) [] 0 true [dummy_key] 0 1 false true []) with S1.
  rewrite Hd, (Hscan f2 _ Hf2).
  eexists. split; [reflexivity|].
  rewrite rev_app_distr, rev_involutive. cbn [rev app map snd]. rewrite map_app.
  unfold wrap. cbn [flag app]. f_equal. rewrite He, <- app_assoc. f_equal.
  rewrite app_nil_r in Hm2. exact Hm2.
Qed.

(* ---------- text -> events: the scanner theorem composed with the parser theorem ---------- *)
Require Import TokenGrammarProofs TokenStreamProofs.

(* where the layout tree may stand: an indentless sequence only as the value of a block-mapping entry *)
Lemma blt_wf : forall n inl, bwf inl n = true -> wf true (negb inl) (blt n) = true.
Proof.
  apply (bnode_ind2 (fun n => forall inl, bwf inl n = true -> wf true (negb inl) (blt n) = true)).
  - intros w inl _. reflexivity.
  - intros pl items IH inl H. cbn [bwf] in H. apply andb_prop in H as [_ Hall].
    cbn [blt wf andb]. rewrite forallb_map. apply forallb_forall. intros x Hx.
    rewrite Forall_forall in IH. rewrite forallb_forall in Hall. pose proof (IH x Hx true (Hall x Hx)) as E. cbn [negb] in E. rewrite E. apply orb_true_r.
  - intros pl pairs IH inl H. cbn [bwf] in H. apply andb_prop in H as [_ Hall].
    cbn [blt wf andb]. apply andb_true_intro. split.
    + rewrite forallb_map. apply forallb_forall. intros p Hp. rewrite Forall_forall in IH. rewrite forallb_forall in Hall.
      specialize (Hall p Hp). apply andb_prop in Hall as [_ Hv].
      pose proof (IH p Hp false Hv) as E. cbn [negb] in E. cbn [ent_wf lword is_none wf orb andb]. rewrite E. rewrite orb_true_r. reflexivity.
    + clear IH Hall. induction pairs as [|p r IHr]; [reflexivity|]. cbn [map adj_ok]. destruct r as [|p2 r2]; [reflexivity|].
      cbn [map]. cbn [map] in IHr. rewrite IHr. reflexivity.
  - intros items IH inl H. cbn [bwf] in H. apply andb_prop in H as [H Hall]. apply andb_prop in H as [Hinl Hne].
    destruct inl; [discriminate|]. cbn [blt wf andb negb]. apply andb_true_intro. split.
    + destruct items; [discriminate|reflexivity].
    + rewrite forallb_map. apply forallb_forall. intros x Hx.
      rewrite Forall_forall in IH. rewrite forallb_forall in Hall. pose proof (IH x Hx true (Hall x Hx)) as E. cbn [negb] in E. rewrite E. apply orb_true_r.
Qed.

Lemma blt_plain : forall n, forallb plain_pev (pre_events (blt n)) = true.
Proof.
  apply bnode_ind2.
  - intros w. reflexivity.
  - intros pl items IH. cbn [blt pre_events forallb plain_pev no_props pr_anchor pr_tag andb]. rewrite forallb_app. cbn [forallb plain_pev]. rewrite andb_true_r.
    rewrite forallb_flat_map, forallb_map. apply forallb_forall. intros x Hx. rewrite Forall_forall in IH. exact (IH x Hx).
  - intros pl pairs IH. cbn [blt pre_events forallb plain_pev no_props pr_anchor pr_tag andb]. rewrite forallb_app. cbn [forallb plain_pev]. rewrite andb_true_r.
    rewrite forallb_flat_map, forallb_map. apply forallb_forall. intros p Hp. rewrite Forall_forall in IH. specialize (IH p Hp).
    cbn [ent_pre pre_events lword no_props pr_anchor pr_tag app forallb plain_pev andb]. exact IH.
  - intros items IH. cbn [blt pre_events forallb plain_pev no_props pr_anchor pr_tag andb]. rewrite forallb_app. cbn [forallb plain_pev]. rewrite andb_true_r.
    rewrite forallb_flat_map, forallb_map. apply forallb_forall. intros x Hx. rewrite Forall_forall in IH. exact (IH x Hx).
Qed.

(* at most one event per token, plus one per indentless sequence; in any case at most two per character *)
Lemma items_ev_sum (P : bnode -> Prop) c items :
  (forall x, P x -> bwf true x = true -> (length (pre_events (blt x)) <= 2 * length (brender (child_col c x) x))%nat) ->
  Forall P items -> forallb (bwf true) items = true ->
  (length (flat_map pre_events (map blt items)) + 4 * length items <= 2 * length (concat (map (item_text c) items)))%nat.
Proof.
  intros HP IH Hall. induction items as [|x r IHr]; [cbn; lia|].
  inversion IH as [|? ? Hx Hr]; subst. cbn [forallb] in Hall. apply andb_prop in Hall as [Hwx Hwr].
  cbn [flat_map map concat length]. rewrite !app_length. unfold item_text at 1. cbn [length]. rewrite app_length.
  specialize (IHr Hr Hwr). pose proof (HP x Hx Hwx). pose proof (lead_length c x). lia.
Qed.

Definition EvLe (n : bnode) : Prop := forall inl c, bwf inl n = true -> (length (pre_events (blt n)) <= 2 * length (brender c n))%nat.
Lemma events_le_text : forall n inl c, bwf inl n = true -> (length (pre_events (blt n)) <= 2 * length (brender c n))%nat.
Proof.
  apply (bnode_ind2 (fun n => forall inl c, bwf inl n = true -> (length (pre_events (blt n)) <= 2 * length (brender c n))%nat)).
  - intros w inl c _. cbn. rewrite app_length. cbn [length]. lia.
  - intros pl items IH inl c H. cbn [bwf] in H. apply andb_prop in H as [H Hall]. apply andb_prop in H as [_ Hne].
    change (brender c (BS pl items)) with (bjoin c (map (item_text c) items)).
    cbn [blt pre_events length]. rewrite app_length. cbn [length].
    pose proof (bjoin_length c (map (item_text c) items)) as HJ.
    pose proof (items_ev_sum EvLe c items (fun x (Hx : EvLe x) Hw => Hx true (child_col c x) Hw) IH Hall) as Hsum.
    destruct items as [|x r]; [discriminate|]. cbn [length] in Hsum. unfold str in *. lia.
  - intros pl pairs IH inl c H. cbn [bwf] in H. apply andb_prop in H as [H Hall]. apply andb_prop in H as [_ Hne].
    change (brender c (BM pl pairs)) with (bjoin c (map (pair_text c) pairs)).
    cbn [blt pre_events length]. rewrite app_length. cbn [length].
    pose proof (bjoin_length c (map (pair_text c) pairs)) as HJ.
    assert (Hsum : (length (flat_map (ent_pre pre_events) (map (fun p : str * bnode => (true, lword (fst p), (true, blt (snd p)))) pairs)) + 4 * length pairs
                    <= 2 * length (concat (map (pair_text c) pairs)))%nat).
    { clear HJ Hne. induction pairs as [|x r IHr]; [cbn; lia|].
      inversion IH as [|? ? Hx Hr]; subst. cbn [forallb] in Hall. apply andb_prop in Hall as [Hwx Hwr]. apply andb_prop in Hwx as [Hk Hwx].
      cbn [flat_map map concat length]. rewrite !app_length. rewrite pair_text_len. cbn [ent_pre pre_events lword length app].
      specialize (IHr Hr Hwr). specialize (Hx false (child_col c (snd x)) Hwx). pose proof (lead_length c (snd x)).
      destruct (key_ok_word _ Hk) as (c0 & w & E & _). rewrite E. cbn [length]. lia. }
    destruct pairs as [|x r]; [discriminate|]. cbn [length] in Hsum. unfold str in *. lia.
  - intros items IH inl c H. cbn [bwf] in H. apply andb_prop in H as [H Hall]. apply andb_prop in H as [_ Hne].
    change (brender c (BI items)) with (bjoin c (map (item_text c) items)).
    cbn [blt pre_events length]. rewrite app_length. cbn [length].
    pose proof (bjoin_length c (map (item_text c) items)) as HJ.
    pose proof (items_ev_sum EvLe c items (fun x (Hx : EvLe x) Hw => Hx true (child_col c x) Hw) IH Hall) as Hsum.
    destruct items as [|x r]; [discriminate|]. cbn [length] in Hsum. unfold str in *. lia.
Qed.

Theorem run_block n : bwf_root n = true -> (bdepth n <= 255)%nat ->
  map fst (fst (run_str (bdoc_text n))) = wrap_events false (events_of (blt n)) /\ snd (run_str (bdoc_text n)) = PDone.
Proof.
  intros Hroot Hdep. destruct (scan_block n Hroot Hdep) as (toks & Es & Hm).
  destruct (run_str_scan (bdoc_text n)) as (fuel & Hfuel & ->). rewrite Es.
  unfold bwf_root in Hroot. apply andb_prop in Hroot as [Hcoll Hwf].
  apply (parse_wrap (blt n) false false toks false SEnded fuel); [ | | exact Hm | ].
  - unfold wf_root. pose proof (blt_wf n true Hwf) as W. cbn [negb] in W. destruct n; try discriminate; exact W.
  - apply bound_plain, blt_plain.
  - unfold wrap_events, events_of. cbn [length]. rewrite app_length, number_length. cbn [length].
    pose proof (events_le_text n true 0%nat Hwf). unfold bdoc_text in Hfuel. lia.
Qed.
