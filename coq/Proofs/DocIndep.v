(* C15, parser half: composition of token streams at a document-end marker.

   For ALL token lists [ta], [tb] (no bound, no assumption that they come from the scanner other than: [ta] contains
   no StreamEnd token):  if   StreamStart ta StreamEnd   and   StreamStart tb StreamEnd   are each accepted by the
   pull parser (tag handles not kept across documents), then

        StreamStart ta DocumentEnd tb StreamEnd

   is accepted, and its events are the events of the first stream without its StreamEnd event, followed by the events
   of the second stream without its StreamStart event in which every anchor id and alias id is shifted by the number
   of anchors the first stream defined.  Spans: the second part keeps the spans of its tokens; in the first part only
   the events that the parser derives from looking at the final token (it sees DocumentEnd instead of StreamEnd) may
   carry a different span.

   Three ingredients:
   (A) [sim_step]: replacing the final StreamEnd by "DocumentEnd rest" does not change what the state machine does
       until the first stream is over (the parser never distinguishes the two tokens outside the three document-level
       states);
   (B) at that point the parser is — field by field — the parser that has just read the StreamStart of the second
       stream, except for the anchor id counter ([document_end_resets]: anchors and tag handles are gone; C02: the
       state stack is empty);
   (C) [state_machine_shift]: a larger anchor id counter only renumbers. *)
From Coq Require Import List NArith Bool Lia.
Import ListNotations.
Require Import Parser Grammar C02base C02rest C02tail C02anchors DocReset DocRun DocShift DocSim.
Local Open Scope N_scope.


Lemma steps_end p l pe : p_state p = SEnd -> steps p l pe -> l = [] /\ pe = p.
Proof.
  intros E H. destruct H as [|p e p1 l p2 H1 H2]; [auto|]. unfold state_machine in H1. rewrite E in H1. discriminate.
Qed.
Lemma steps_first p q e l pe : state_machine p = state_machine q -> steps q (e :: l) pe -> steps p (e :: l) pe.
Proof. intros E H. inversion H; subst. econstructor; [rewrite E; eassumption|assumption]. Qed.
Lemma step_not_end p r : state_machine p = Ok r -> p_state p <> SEnd.
Proof. intros H E. unfold state_machine in H. rewrite E in H. discriminate. Qed.

(* ---- anchors handed out along a run (C02: ids are 1, 2, 3, ...) ---- *)
Lemma steps_arun : forall p evs pe, steps p evs pe -> forall k, AInv p k ->
  exists k', arun k (evs_of evs) = Some k' /\ AInv pe k'.
Proof.
  induction 1 as [p|p [e sp] p1 l p2 H1 H2 IH]; intros k HA; [exists k; cbn; auto|].
  pose proof (state_machine_apost k p HA (step_not_end _ _ H1)) as HP. rewrite H1 in HP. cbn in HP.
  destruct HP as (k1 & E1 & HA1). destruct (IH _ HA1) as (k' & E' & HA'). exists k'. cbn. rewrite E1. auto.
Qed.

(* the number of anchored nodes *)
Definition anchored (e : event) : bool :=
  match e with
  | EScalar _ _ aid _ | ESequenceStart aid _ | EMappingStart aid _ => negb (aid =? 0)
  | _ => false
  end.
Definition count_anchored (l : list event) : N := N.of_nat (length (filter anchored l)).
Lemma arun_count l : forall k k', arun k l = Some k' -> k' = k + count_anchored l.
Proof.
  unfold count_anchored. induction l as [|e l IH]; intros k k' H; cbn in H; [inversion H; cbn; lia|].
  destruct (aev k e) as [k1|] eqn:E; [|discriminate]. apply IH in H. subst k'.
  assert (k1 = k + (if anchored e then 1 else 0)).
  { unfold aev in E. destruct e; cbn [anchored]; try (inversion E; lia);
      try (destruct (_ && _); inversion E; lia);
      destruct (N.eqb_spec aid 0); cbn [negb]; try (inversion E; lia);
      destruct (N.eqb_spec aid (k + 1)); inversion E; lia. }
  cbn [filter]. destruct (anchored e); cbn [length]; lia.
Qed.

(* ---- (C) along a run ---- *)
Lemma shift_run d : forall p evs pe, steps p evs pe -> forall k, AInv p k ->
  steps (shiftp d p) (map (shift_evsp d) evs) (shiftp d pe).
Proof.
  induction 1 as [p|p [e sp] p1 l p2 H1 H2 IH]; intros k HA; [constructor|].
  pose proof (state_machine_apost k p HA (step_not_end _ _ H1)) as HP. rewrite H1 in HP. cbn in HP.
  destruct HP as (k1 & _ & HA1). cbn [map]. econstructor; [|eapply IH; exact HA1].
  rewrite state_machine_shift; [rewrite H1; reflexivity|]. destruct HA as [E _]. rewrite E. lia.
Qed.

Section Glue.
Variables sps spd : span.
Variable rest : list token.
Notation se := (sps, TStreamEnd).
Notation de := (spd, TDocumentEnd).

(* ---- (A) along a run, up to the boundary (B) ---- *)
Lemma sim_run : forall p1 evs pend, steps p1 evs pend -> p_state pend = SEnd ->
  forall p2 g, R sps spd rest p1 p2 -> DL p1 -> Inv p1 g ->
  exists pre pre' q2,
    evs = pre ++ [(EStreamEnd, sps)] /\ evs_of pre' = evs_of pre /\ steps p2 pre' q2
    /\ state_machine q2 = state_machine (pB rest [] (p_anchor_id pend)).
Proof.
  induction 1 as [p1|p1 [e sp] p1' l pend H1 H2 IH]; intros HE p2 g HR HD HI.
  - destruct HD as [HD _]. contradiction.
  - pose proof (state_machine_post p1 g HI (proj1 HD)) as HP. rewrite H1 in HP. cbn in HP. destruct HP as (g' & _ & HI').
    destruct (sim_step _ _ _ _ _ _ _ _ HR HD H1)
      as [(sp' & p2' & E2 & HR' & HD')
         |[(-> & -> & ES & ES' & EI & EM)
          |(-> & ES & ES' & ET & EI & EK & sp' & E2)]].
    + destruct (IH HE _ _ HR' HD' HI') as (pre & pre' & q2 & -> & EV & HS & HM).
      exists ((e, sp) :: pre), ((e, sp') :: pre'), q2. repeat split; auto.
      * unfold evs_of in *. cbn [map fst]. rewrite EV. reflexivity.
      * econstructor; eauto.
    + (* the first stream ends at a document start *)
      destruct (steps_end _ _ _ ES' H2) as [-> ->].
      exists [], [], p2. repeat split; [constructor|]. rewrite EM. f_equal.
      pose proof HR as (A & B & C & D & E & G & K & _). pose proof HD as (_ & HD2).
      unfold Inv in HI. rewrite ES in HI, HD2, A. cbn in HI, A. destruct HI as [HK _]. destruct HD2 as [HA HT].
      rewrite HK in B. assert (EB : p_states p2 = []) by (inversion B; reflexivity). rewrite EI, <- D.
      unfold restp, pB, set_tok. rewrite A, EB, C, HA, E, HT, K. reflexivity.
    + (* the first stream ends right after a document *)
      pose proof HR as (A & B & C & D & E & G & K & _).
      unfold Inv in HI. rewrite ES in HI. cbn in HI. destruct HI as [HK _].
      rewrite HK in B. assert (EB : p_states p2 = []) by (inversion B; reflexivity). rewrite EB in E2.
      (* the remaining step of the first parser: StreamEnd *)
      assert (HF : state_machine p1' = Ok ((EStreamEnd, sps), skip (set_state p1' SEnd))).
      { unfold state_machine. rewrite ES'. unfold document_start.
        rewrite (sde_cached _ _ _ ET) by discriminate. rewrite (peek_cached _ _ ET). reflexivity. }
      inversion H2 as [|? e2 p1'' l' ? H3 H4]; subst; [rewrite ES' in HE; discriminate|].
      rewrite HF in H3. inversion H3; subst.
      destruct (steps_end (skip (set_state p1' SEnd)) _ _ eq_refl H4) as [-> ->].
      exists [(EDocumentEnd, sp)], [(EDocumentEnd, sp')], (pB rest [] (p_anchor_id p2)).
      repeat split; [apply steps_one; exact E2|]. cbn [p_anchor_id skip set_tok set_state]. rewrite EI, D. reflexivity.
Qed.

End Glue.

(* ================================================================================================ *)
(* the composition theorem                                                                           *)
(* ================================================================================================ *)
Theorem doc_composition ssA ta sps spd ssB tb seB evA evB :
  snd ssA = TStreamStart -> Forall (fun t => snd t <> TStreamEnd) ta ->
  accepts (ssA :: ta ++ [(sps, TStreamEnd)]) false evA ->
  accepts (ssB :: tb ++ [seB]) false evB ->
  exists pre pre' b n,
    evA = pre ++ [(EStreamEnd, sps)] /\ evB = (EStreamStart, fst ssB) :: b
    /\ arun 0 (evs_of evA) = Some n /\ n = count_anchored (evs_of evA)
    /\ evs_of pre' = evs_of pre
    /\ accepts (ssA :: ta ++ (spd, TDocumentEnd) :: tb ++ [seB]) false (pre' ++ map (shift_evsp n) b).
Proof.
  intros HSS HTA (pA & HA & EA) (pB' & HB & EB).
  set (rest := tb ++ [seB]).
  (* anchors of the first stream *)
  assert (AI0 : forall toks, AInv (start_parser toks false) 0).
  { intros toks. split; [reflexivity|]. intros nm id H. discriminate. }
  destruct (steps_arun _ _ _ HA 0 (AI0 _)) as (n & HN & [EN _]).
  (* (A) *)
  assert (HR : R sps spd rest (start_parser (ssA :: ta ++ [(sps, TStreamEnd)]) false)
                              (start_parser (ssA :: ta ++ (spd, TDocumentEnd) :: rest) false)).
  { unfold R; cbn [p_state p_states p_anchors p_anchor_id p_tags p_keep_tags start_parser].
    split; [reflexivity|]. split; [constructor|]. split; [reflexivity|]. split; [reflexivity|]. split; [reflexivity|].
    split; [reflexivity|]. split; [reflexivity|]. split; [|constructor].
    eapply (PhBody _ _ _ _ _ (ssA :: ta)); cbn; auto; [discriminate|]. constructor; [|exact HTA].
    unfold nonSE. rewrite HSS. discriminate. }
  destruct (sim_run sps spd rest _ _ _ HA EA _ GInit HR) as (pre & pre' & q2 & -> & EV & HS & HM).
  { unfold DL; cbn. split; [discriminate|auto]. }
  { unfold Inv; cbn. auto. }
  (* the second stream on its own: StreamStart, then the rest *)
  inversion HB as [|? e1 pB1 b ? H1 H2]; subst; [discriminate|].
  unfold state_machine, stream_start, peek in H1. cbn in H1. destruct ssB as [spB tkB]. destruct tkB; try discriminate.
  inversion H1; subst; clear H1.
  (* (C) *)
  match type of H2 with steps ?p _ _ => set (pB1 := p) in * end.
  assert (AI1 : AInv pB1 0) by (split; [reflexivity|intros nm id H; discriminate]).
  pose proof (shift_run n _ _ _ H2 0 AI1) as HSH.
  assert (EP : shiftp n pB1 = pB rest [] (p_anchor_id pA)).
  { replace (p_anchor_id pA) with (1 + n) by lia. reflexivity. }
  rewrite EP in HSH.
  destruct b as [|e b]; [inversion H2; subst; discriminate|].
  exists pre, pre', (e :: b), n. repeat split; auto.
  - symmetry. pose proof (arun_count _ _ _ HN). lia.
  - exists (shiftp n pB'). split; [|exact EB].
    eapply steps_app; [exact HS|]. cbn [map]. eapply steps_first; [exact HM|exact HSH].
Qed.

(* the same on events without spans *)
Corollary doc_composition_events ssA ta sps spd ssB tb seB evA evB :
  snd ssA = TStreamStart -> Forall (fun t => snd t <> TStreamEnd) ta ->
  accepts (ssA :: ta ++ [(sps, TStreamEnd)]) false evA ->
  accepts (ssB :: tb ++ [seB]) false evB ->
  exists evC,
    accepts (ssA :: ta ++ (spd, TDocumentEnd) :: tb ++ [seB]) false evC
    /\ evs_of evC = removelast (evs_of evA) ++ map (shift_ev (count_anchored (evs_of evA))) (tl (evs_of evB)).
Proof.
  intros H1 H2 H3 H4.
  destruct (doc_composition _ _ _ spd _ _ _ _ _ H1 H2 H3 H4) as (pre & pre' & b & n & -> & -> & _ & EN & EV & HC).
  eexists; split; [exact HC|]. rewrite <- EN. unfold evs_of in *. rewrite !map_app, EV. cbn [map fst tl].
  rewrite removelast_last. f_equal. rewrite !map_map. reflexivity.
Qed.

(* ================================================================================================ *)
(* any number of streams                                                                             *)
(* ================================================================================================ *)
(* a well-formed accepted stream: StreamStart, a body without StreamEnd, StreamEnd *)
Definition Acc (T : list token) (E : list (event * span)) : Prop :=
  (exists ss t sps, T = ss :: t ++ [(sps, TStreamEnd)] /\ snd ss = TStreamStart
                    /\ Forall (fun x => snd x <> TStreamEnd) t)
  /\ accepts T false E.
(* A followed by a document-end marker (with span spd) and B: on tokens and on events *)
Definition glueT (spd : span) (TA TB : list token) : list token := removelast TA ++ (spd, TDocumentEnd) :: tl TB.
Definition glueE (a b : list event) : list event := removelast a ++ map (shift_ev (count_anchored a)) (tl b).

Theorem Acc_glue spd TA EA TB EB :
  Acc TA EA -> Acc TB EB -> exists EC, Acc (glueT spd TA TB) EC /\ evs_of EC = glueE (evs_of EA) (evs_of EB).
Proof.
  intros [(ssA & ta & spsA & -> & HA1 & HA2) HA] [(ssB & tb & spsB & -> & HB1 & HB2) HB].
  destruct (doc_composition_events ssA ta spsA spd ssB tb (spsB, TStreamEnd) EA EB HA1 HA2 HA HB) as (EC & HC & EV).
  assert (ET : glueT spd (ssA :: ta ++ [(spsA, TStreamEnd)]) (ssB :: tb ++ [(spsB, TStreamEnd)])
               = ssA :: (ta ++ (spd, TDocumentEnd) :: tb) ++ [(spsB, TStreamEnd)]).
  { unfold glueT. rewrite app_comm_cons, removelast_last. cbn [tl app]. rewrite <- app_assoc. reflexivity. }
  exists EC. split; [|exact EV]. rewrite ET. split.
  - exists ssA, (ta ++ (spd, TDocumentEnd) :: tb), spsB. repeat split; auto.
    apply Forall_app. split; [exact HA2|]. constructor; [discriminate|exact HB2].
  - rewrite <- app_assoc. exact HC.
Qed.

(* n + 1 streams, each accepted on its own, glued with markers of arbitrary spans *)
Fixpoint glue_allT (T0 : list token) (l : list (span * list token * list (event * span))) : list token :=
  match l with [] => T0 | (spd, T, _) :: r => glue_allT (glueT spd T0 T) r end.
Fixpoint glue_allE (e0 : list event) (l : list (span * list token * list (event * span))) : list event :=
  match l with [] => e0 | (_, _, E) :: r => glue_allE (glueE e0 (evs_of E)) r end.

Theorem doc_composition_many l : forall T0 E0,
  Acc T0 E0 -> Forall (fun x => Acc (snd (fst x)) (snd x)) l ->
  exists EC, Acc (glue_allT T0 l) EC /\ evs_of EC = glue_allE (evs_of E0) l.
Proof.
  induction l as [|[[spd T] E] r IH]; intros T0 E0 H0 HL; cbn [glue_allT glue_allE]; [eauto|].
  inversion HL as [|? ? HA HR]; subst. cbn [fst snd] in HA.
  destruct (Acc_glue spd _ _ _ _ H0 HA) as (E1 & H1 & EV1).
  destruct (IH _ _ H1 HR) as (EC & HC & EV). exists EC. split; [exact HC|]. rewrite EV, EV1. reflexivity.
Qed.
