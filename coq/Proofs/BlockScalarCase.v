(* C05 — from the cases of the specification to the theorems about scan_block_scalar.

   Spec/BlockScalar.v describes a block scalar as a record [bcase] (style, chomping, indicator, header comment, raw
   lines, end shape, break style) with the decidable side conditions [case_ok], its YAML text [case_text] and its
   value [case_value].  Proofs/BlockScalarProofs.v proves scan_block_scalar correct under hypotheses stated on line
   lists ([line_ok], [ends_after], [header_tail], ...).  This file discharges those hypotheses from [case_ok]:

     block_scalar_case : for EVERY case b with case_ok b = true that is not in the one remaining finding class
       ([leading_tab]: content indentation 0 and a tab at column 0 of the first line), every break style, from any
       scanner state that stands at the indicator with the parent indentation of the case, with enough fuel,
       scan_block_scalar on the string input returns exactly (style, case_value b) and stops at the line that
       follows the scalar.

   What separates this from [C05_full] (Proofs/BlockScalarProofs.v): the text in front of the indicator (the scanner
   reaching scan_block_scalar in that state), the buffered inputs, and the [leading_tab] class. *)
From Coq Require Import List NArith ZArith Bool Arith Lia.
Import ListNotations.
Require Import Parser SBase SPrim SDir SScalar BlockScalar BlockScalarProofs.
Open Scope N_scope.

(* ------------------------------------------------------------------------------------------ *)
(* boolean side conditions of the specification as propositions                                *)
(* ------------------------------------------------------------------------------------------ *)
Lemma nb_char_breakz c : nb_char c = true -> is_breakz c = false.
Proof.
  unfold nb_char, is_breakz, is_break, is_z. intros H. apply negb_true_iff in H.
  apply orb_false_iff in H. destruct H as [H H4]. apply orb_false_iff in H. destruct H as [H H3].
  apply orb_false_iff in H. destruct H as [H1 H2]. rewrite H1, H2, H3. reflexivity.
Qed.

Lemma forallb_nb_nobreak s : forallb nb_char s = true -> nobreak s.
Proof.
  intros H. apply Forall_forall. intros c Hc. apply nb_char_breakz. rewrite forallb_forall in H. apply H. exact Hc.
Qed.

Lemma rest_text_ok_facts s : rest_text_ok s = true -> nobreak s /\ hd0 s <> 32.
Proof.
  unfold rest_text_ok. intros H. apply andb_true_iff in H. destruct H as [H1 H2]. split; [apply forallb_nb_nobreak; exact H1|].
  destruct s as [|c r]; [discriminate|]. apply negb_true_iff in H2. apply N.eqb_neq in H2. exact H2.
Qed.

Lemma is_white_cases c : is_white c = true -> c = 32 \/ c = 9.
Proof. unfold is_white. intros H. apply orb_true_iff in H. destruct H as [H|H]; apply N.eqb_eq in H; auto. Qed.

(* the header comment: white space, then nothing or '#' and characters.  [hc_tail_ok] alone allows a '#' first;
   [hc_ok] demands a white first character. *)
Inductive hc_shape : list N -> Prop :=
| hcs_white wh : whites wh -> hc_shape wh
| hcs_comment wh txt : whites wh -> nobreak txt -> hc_shape (wh ++ 35 :: txt).

Lemma hc_tail_ok_shape : forall s, hc_tail_ok s = true -> hc_shape s.
Proof.
  induction s as [|c r IH]; intros H.
  - apply hcs_white. constructor.
  - cbn [hc_tail_ok] in H. destruct (is_white c) eqn:Ew.
    + specialize (IH H). pose proof (is_white_cases c Ew) as Hc.
      inversion IH as [wh Hwh|wh txt Hwh Hnb]; subst.
      * apply hcs_white. constructor; assumption.
      * apply (hcs_comment (c :: wh) txt); [constructor; assumption|exact Hnb].
    + apply andb_true_iff in H. destruct H as [H35 Hnb]. apply N.eqb_eq in H35. subst c.
      apply (hcs_comment [] r); [constructor|apply forallb_nb_nobreak; exact Hnb].
Qed.

Lemma hc_ok_header_tail s : hc_ok s = true -> header_tail s.
Proof.
  unfold hc_ok. destruct s as [|c r]; [intros _; apply ht_white; constructor|].
  intros H. apply andb_true_iff in H. destruct H as [Hw Ht].
  pose proof (hc_tail_ok_shape _ Ht) as Hs. inversion Hs as [wh Hwh|wh txt Hwh Hnb]; subst.
  - apply ht_white. exact Hwh.
  - apply ht_comment; [exact Hwh| |exact Hnb].
    destruct wh as [|w wh']; [|discriminate]. cbn [app] in H. inversion H; subst. discriminate Hw.
Qed.

(* ------------------------------------------------------------------------------------------ *)
(* raw lines and their classification                                                          *)
(* ------------------------------------------------------------------------------------------ *)
Lemma classify_line_ok F n (l : rline) :
  rest_text_ok (snd l) = true -> match snd l with [] => True | _ => (n <= fst l)%nat end ->
  (fst l + length (snd l) < F)%nat -> line_ok F n (classify n l).
Proof.
  destruct l as [k s]. cbn [fst snd]. intros Hs Hk HF. destruct (rest_text_ok_facts s Hs) as [Hnb Hhd].
  unfold classify. cbn [fst snd]. destruct s as [|c r].
  - destruct (Nat.leb_spec k n).
    + cbn [line_ok]. cbn [length] in HF. lia.
    + cbn [line_ok length]. cbn [length] in HF. repeat split; [constructor|exact Hhd|left; lia|lia].
  - cbn [line_ok]. repeat split; [exact Hnb|exact Hhd|right; discriminate|lia].
Qed.

Lemma classify_col0 n (l : rline) :
  (n = O -> (Nat.eqb (fst l) O && marker_line (snd l)) = false) -> (match snd l with [] => True | _ => (n <= fst l)%nat end) ->
  line_col0 n (classify n l).
Proof.
  destruct l as [k s]. cbn [fst snd]. intros H Hk. unfold classify. cbn [fst snd]. destruct s as [|c r].
  - destruct (Nat.leb k n); cbn [line_col0]; [exact I|]. intros _ _. reflexivity.
  - cbn [line_col0]. intros Hn He. specialize (H Hn). assert (k = O) by lia. subst k. exact H.
Qed.

Lemma first_text_classify n : forall raw, first_text_indent raw = Some n -> leading_raw_blanks_le n raw = true ->
  exists txt, first_text (map (classify n) raw) = Some (O, txt) /\ txt <> [].
Proof.
  induction raw as [|[k s] raw IH]; intros Hf Hl; [discriminate|].
  cbn [first_text_indent] in Hf. cbn [leading_raw_blanks_le] in Hl. destruct s as [|c r].
  - apply andb_true_iff in Hl. destruct Hl as [Hk Hl]. cbn [map]. unfold classify at 1. cbn [fst snd]. rewrite Hk. cbn [first_text].
    apply IH; assumption.
  - inversion Hf; subst. cbn [map]. unfold classify at 1. cbn [fst snd]. cbn [first_text]. rewrite Nat.sub_diag.
    exists (c :: r). split; [reflexivity|discriminate].
Qed.

Lemma first_text_indent_none n : forall raw, first_text_indent raw = None -> (forall l, In l raw -> (fst l <= n)%nat) ->
  has_text (map (classify n) raw) = false.
Proof.
  induction raw as [|[k s] raw IH]; intros Hf Hle; [reflexivity|].
  cbn [first_text_indent] in Hf. destruct s as [|c r]; [|discriminate].
  cbn [map]. unfold classify at 1. cbn [fst snd].
  assert (Hk : Nat.leb k n = true) by (apply Nat.leb_le; apply (Hle (k, [])); left; reflexivity).
  rewrite Hk. unfold has_text. cbn [existsb is_text orb]. apply IH; [exact Hf|]. intros l Hl. apply Hle. right. exact Hl.
Qed.

Lemma longest_ge (raw : list rline) l : In l raw -> (fst l <= longest raw)%nat.
Proof.
  induction raw as [|x raw IH]; intros H; [contradiction|]. unfold longest. cbn [fold_right]. fold (longest raw).
  destruct H as [->|H]; [lia|]. specialize (IH H). lia.
Qed.

(* no content line: every raw line is a run of at most n spaces *)
Lemma no_text_blanks n : forall raw, has_text (map (classify n) raw) = false ->
  map (classify n) raw = map Blank (map fst raw) /\ Forall (fun k => (k <= n)%nat) (map fst raw).
Proof.
  induction raw as [|[k s] raw IH]; intros H; [split; [reflexivity|constructor]|].
  cbn [map] in H. unfold has_text in H. cbn [existsb] in H. apply orb_false_iff in H. destruct H as [H1 H2].
  destruct (IH H2) as [E Hle]. cbn [map fst]. rewrite E. unfold classify in H1 |- *. cbn [fst snd] in *.
  destruct s as [|c r]; [|discriminate]. destruct (Nat.leb_spec k n); [|discriminate].
  split; [reflexivity|constructor; assumption].
Qed.

(* the fuel a case needs *)
Definition case_fuel (b : bcase) : nat :=
  (2 * length (bc_hc b) + 3 + length (bc_raw b) +
   fold_right (fun (l : rline) m => Nat.max (fst l + length (snd l)) m) (case_indent b) (bc_raw b))%nat.

Lemma fold_max_ge (raw : list rline) (z : nat) :
  (z <= fold_right (fun (l : rline) m => Nat.max (fst l + length (snd l)) m) z raw)%nat /\
  forall l, In l raw -> (fst l + length (snd l) <= fold_right (fun (l : rline) m => Nat.max (fst l + length (snd l)) m) z raw)%nat.
Proof.
  induction raw as [|x raw [IH1 IH2]]; [split; [cbn; lia|intros l []]|].
  cbn [fold_right]. split; [lia|]. intros l [->|H]; [lia|]. specialize (IH2 l H). lia.
Qed.

Definition parent_z (p : option nat) : Z := match p with None => (-1)%Z | Some p => Z.of_nat p end.

(* ------------------------------------------------------------------------------------------ *)
(* the line that follows the scalar ([EofRest r])                                              *)
(* ------------------------------------------------------------------------------------------ *)
Lemma first_line_cons c r : first_line (c :: r) = if (c =? 10) || (c =? 13) then [] else c :: first_line r.
Proof. reflexivity. Qed.

(* r = j - k spaces, then r0 whose first line is t *)
Lemma strip_first_line : forall r k j t, strip_spaces k (first_line r) = (j, t) ->
  exists r0, r = sps (j - k) ++ r0 /\ first_line r0 = t /\ (k <= j)%nat /\ hd0 r0 <> 32.
Proof.
  induction r as [|c r IH]; intros k j t H.
  - cbn in H. inversion H; subst. exists []. rewrite Nat.sub_diag. repeat split; [lia|discriminate].
  - rewrite first_line_cons in H. destruct ((c =? 10) || (c =? 13)) eqn:Eb.
    + cbn [strip_spaces] in H. inversion H; subst. exists (c :: r). rewrite Nat.sub_diag. rewrite first_line_cons, Eb.
      repeat split; [lia|]. intro E. change (c = 32) in E. subst c. discriminate Eb.
    + cbn [strip_spaces] in H. destruct (N.eqb_spec c 32) as [->|Hc].
      * destruct (IH (S k) j t H) as [r0 [E [Hf [Hle Hhd]]]]. exists r0. split; [|split; [exact Hf|split; [lia|exact Hhd]]].
        rewrite E at 1. replace (j - k)%nat with (S (j - S k)) by lia. reflexivity.
      * inversion H; subst. exists (c :: r). rewrite Nat.sub_diag, first_line_cons, Eb. repeat split; [lia|exact Hc].
Qed.

Lemma first_line_head r0 c t : first_line r0 = c :: t -> exists r1, r0 = c :: r1 /\ first_line r1 = t /\ is_break c = false.
Proof.
  destruct r0 as [|x r1]; [discriminate|]. rewrite first_line_cons. destruct ((x =? 10) || (x =? 13)) eqn:E; [discriminate|].
  intros H. inversion H; subst. exists r1. repeat split. exact E.
Qed.

Lemma first_line_nil r0 : first_line r0 = [] -> r0 = [] \/ is_break (hd0 r0) = true.
Proof.
  destruct r0 as [|x r1]; [left; reflexivity|]. rewrite first_line_cons. destruct ((x =? 10) || (x =? 13)) eqn:E; [|discriminate].
  intros _. right. exact E.
Qed.

Lemma wbrk_cons_nolf brk c r : c <> 10 -> wbrk brk (c :: r) = c :: wbrk brk r.
Proof. intros H. unfold wbrk. cbn [flat_map]. destruct (N.eqb_spec c 10); [contradiction|reflexivity]. Qed.

Lemma nb_not_lf c : is_break c = false -> c <> 10.
Proof. intros H ->. discriminate H. Qed.

(* the first character of a rest that starts with a break, or is empty, after replacing the line feeds *)
Lemma hd0_wbrk_breakz brk r1 : break_style brk -> (r1 = [] \/ is_break (hd0 r1) = true) ->
  is_blank_or_breakz (hd0 (wbrk brk r1)) = true.
Proof.
  intros Hb [->|H]; [reflexivity|]. destruct r1 as [|x r]; [discriminate H|]. change (is_break x = true) in H.
  destruct (N.eqb_spec x 10) as [->|Hx].
  - rewrite wbrk_lf. destruct (hd0_brk brk Hb (wbrk brk r)) as [-> | ->]; reflexivity.
  - rewrite wbrk_cons_nolf by exact Hx. change (hd0 (x :: wbrk brk r)) with x.
    unfold is_blank_or_breakz, is_breakz. rewrite H. apply orb_true_r.
Qed.

Lemma marker_doc_ind_wbrk brk r0 : break_style brk -> marker_line (first_line r0) = true -> doc_ind_b (wbrk brk r0) = true.
Proof.
  intros Hb Hm. destruct (first_line r0) as [|a [|b [|c rest]]] eqn:Ef; try discriminate Hm.
  destruct (first_line_head _ _ _ Ef) as [r1 [-> [Ef1 Ha]]].
  destruct (first_line_head _ _ _ Ef1) as [r2 [-> [Ef2 Hbk]]].
  destruct (first_line_head _ _ _ Ef2) as [r3 [-> [Ef3 Hc]]].
  rewrite !wbrk_cons_nolf by (apply nb_not_lf; assumption).
  unfold doc_ind_b. cbn [nth]. cbn [marker_line] in Hm. apply andb_true_iff in Hm. destruct Hm as [H3 Hr].
  rewrite orb_comm in H3. rewrite H3, andb_true_r.
  change (nth 0 (wbrk brk r3) 0) with (hd0 (wbrk brk r3)).
  destruct rest as [|d rest'].
  - apply hd0_wbrk_breakz; [exact Hb|]. apply first_line_nil. exact Ef3.
  - destruct (first_line_head _ _ _ Ef3) as [r4 [-> [_ Hd]]]. rewrite wbrk_cons_nolf by (apply nb_not_lf; exact Hd).
    change (hd0 (d :: wbrk brk r4)) with d. unfold is_blank_or_breakz. unfold is_white in Hr. unfold is_blank. rewrite Hr. reflexivity.
Qed.

(* ------------------------------------------------------------------------------------------ *)
(* the case from the indicator on                                                              *)
(* ------------------------------------------------------------------------------------------ *)
Definition case_block (b : bcase) : list N :=
  with_breaks (bc_brk b) (render_block (case_indent b) (bc_literal b) (bc_chomp b) (bc_explicit b) (bc_digit_first b)
                                       (bc_hc b) (case_lines b) (bc_eof b)).
(* what is left of the input when the scalar has been read: the line that follows, without its indentation *)
Definition case_rest (b : bcase) : list N :=
  match bc_eof b with EofRest r => snd (strip_spaces O (with_breaks (bc_brk b) r)) | _ => [] end.

Lemma case_text_split b : case_text b = with_breaks (bc_brk b) (bc_prefix b) ++ case_block b.
Proof. unfold case_text, case_block, with_breaks. apply flat_map_app. Qed.

(* the one class of cases on which scan_block_scalar differs from the specification (known finding): content
   indentation 0 and a tab at column 0 of the first line below the header *)
Definition leading_tab (b : bcase) : Prop := case_indent b = O /\ first_char O (case_lines b) = 9.

Record case_facts (b : bcase) (F : nat) : Prop := {
  cf_lines : Forall (line_ok F (case_indent b)) (case_lines b);
  cf_col0 : Forall (line_col0 (case_indent b)) (case_lines b);
  cf_hc : header_tail (bc_hc b);
  cf_hcF : (2 * length (bc_hc b) + 2 < F)%nat;
  cf_len : (S (length (case_lines b)) < F)%nat;
  cf_nF : (case_indent b < F)%nat;
  cf_pmin : Z.to_N (parent_z (bc_parent b) + 1) <= N.of_nat (case_indent b);
  cf_explicit : forall d, bc_explicit b = Some d ->
                (1 <= d <= 9)%nat /\
                N.of_nat (case_indent b) = (if (0 <=? parent_z (bc_parent b))%Z
                                            then Z.to_N (parent_z (bc_parent b) + Z.of_N (N.of_nat d)) else N.of_nat d);
  cf_auto : bc_explicit b = None -> has_text (case_lines b) = true ->
            exists txt, first_text (case_lines b) = Some (O, txt) /\ txt <> [];
  cf_eof : match bc_eof b with
           | EofNewline => True
           | EofNone => match rev (bc_raw b) with [] => True | (k, s) :: _ => k <> O \/ s <> [] end
           | EofRest r => rest_ok (bc_parent b) (case_indent b) (has_text (case_lines b)) r = true
           end }.

Lemma case_ok_facts b F : case_ok b = true -> (case_fuel b < F)%nat -> case_facts b F.
Proof.
  intros Hok HF. unfold case_ok in Hok. cbv zeta in Hok.
  repeat (apply andb_true_iff in Hok; let H := fresh "Hc" in destruct Hok as [Hok H]).
  rename Hok into Htxt. (* Hc4: indentation of content lines, Hc3: parent_min, Hc2: explicit / auto, Hc1: marker, Hc0: hc, Hc: eof *)
  set (n := case_indent b) in *. set (raw := bc_raw b) in *.
  rewrite forallb_forall in Htxt, Hc4.
  unfold case_fuel in HF. fold n raw in HF.
  destruct (fold_max_ge raw n) as [Hmn Hml].
  assert (Hline : forall l, In l raw -> line_ok F n (classify n l) /\ line_col0 n (classify n l)).
  { intros l Hl. specialize (Htxt l Hl). specialize (Hc4 l Hl). specialize (Hml l Hl).
    assert (Hk : match snd l with [] => True | _ :: _ => (n <= fst l)%nat end).
    { destruct (snd l); [exact I|]. apply Nat.leb_le. exact Hc4. }
    split.
    - apply classify_line_ok; [exact Htxt|exact Hk|lia].
    - apply classify_col0; [|exact Hk]. intros Hn0.
      apply orb_true_iff in Hc1. destruct Hc1 as [Hc1|Hc1].
      + apply negb_true_iff in Hc1. apply Nat.eqb_neq in Hc1. contradiction.
      + rewrite forallb_forall in Hc1. specialize (Hc1 l Hl). apply negb_true_iff in Hc1. exact Hc1. }
  constructor.
  - unfold case_lines. fold n raw. apply Forall_forall. intros x Hx. apply in_map_iff in Hx. destruct Hx as [l [<- Hl]].
    exact (proj1 (Hline l Hl)).
  - unfold case_lines. fold n raw. apply Forall_forall. intros x Hx. apply in_map_iff in Hx. destruct Hx as [l [<- Hl]].
    exact (proj2 (Hline l Hl)).
  - apply hc_ok_header_tail. exact Hc0.
  - lia.
  - unfold case_lines. rewrite map_length. fold raw. lia.
  - lia.
  - apply Nat.leb_le in Hc3. destruct (bc_parent b) as [p|]; cbn [parent_z parent_min] in *; lia.
  - intros d Hd. rewrite Hd in Hc2. apply andb_true_iff in Hc2. destruct Hc2 as [Hd1 Hd9].
    apply Nat.leb_le in Hd1. apply Nat.leb_le in Hd9. split; [lia|].
    subst n. unfold case_indent, content_indent. rewrite Hd.
    destruct (bc_parent b) as [p|]; cbn [parent_z].
    + destruct (Z.leb_spec 0 (Z.of_nat p)); lia.
    + reflexivity.
  - intros He Ht. rewrite He in Hc2. unfold case_lines in *. fold n raw in Ht |- *.
    destruct (first_text_indent raw) as [k|] eqn:Ef.
    + assert (En : n = k) by (subst n; unfold case_indent, content_indent; rewrite He; fold raw; rewrite Ef; reflexivity).
      rewrite <- En in Ef. apply first_text_classify; assumption.
    + exfalso. rewrite (first_text_indent_none n raw Ef) in Ht; [discriminate|].
      intros l Hl. assert (En : n = Nat.max (longest raw) (parent_min (bc_parent b)))
        by (subst n; unfold case_indent, content_indent; rewrite He; fold raw; rewrite Ef; reflexivity).
      pose proof (longest_ge raw l Hl). lia.
  - destruct (bc_eof b) as [| |r]; [exact I| |exact Hc].
    fold raw. destruct (rev raw) as [|[k s] rr]; [exact I|].
    apply orb_true_iff in Hc. destruct Hc as [Hc|Hc].
    + left. apply negb_true_iff in Hc. apply Nat.eqb_neq in Hc. exact Hc.
    + right. destruct s; [discriminate|discriminate].
Qed.

(* ------------------------------------------------------------------------------------------ *)
(* text shapes                                                                                 *)
(* ------------------------------------------------------------------------------------------ *)
Lemma render_rest_app n literal c explicit digit_first hc lines r :
  render_block n literal c explicit digit_first hc lines (EofRest r)
  = render_block n literal c explicit digit_first hc lines (EofRest []) ++ r.
Proof. unfold render_block. rewrite <- !app_assoc. reflexivity. Qed.

Lemma strip_spaces_sps : forall j k x, hd0 x <> 32 -> strip_spaces k (sps j ++ x) = ((k + j)%nat, x).
Proof.
  induction j as [|j IH]; intros k x Hx.
  - cbn [sps repeat app]. rewrite Nat.add_0_r. destruct x as [|c r]; [reflexivity|]. cbn [strip_spaces].
    destruct (N.eqb_spec c 32) as [->|_]; [exfalso; apply Hx; reflexivity|reflexivity].
  - change (sps (S j) ++ x) with (32 :: sps j ++ x). cbn [strip_spaces]. change (32 =? 32) with true. cbv iota.
    rewrite IH by exact Hx. f_equal. lia.
Qed.

(* the follower line of a case, decomposed: r = j spaces ++ r0; what the scanner is left with is r0 with its breaks *)
Lemma rest_decompose brk parent n text r : break_style brk -> rest_ok parent n text r = true ->
  exists j r0 c,
    r = sps j ++ r0 /\ hd0 (wbrk brk r0) = c /\ wbrk brk r0 <> [] /\ c <> 32 /\ c <> 9 /\ c <> 0 /\ is_break c = false /\
    snd (strip_spaces O (wbrk brk r)) = wbrk brk r0 /\
    (((c = 35 /\ (j < n)%nat /\ text = true) \/
      match parent with
      | Some p => (j <= p)%nat
      | None => j = O /\ doc_ind_b (wbrk brk r0) = true
      end)).
Proof.
  intros Hb H. unfold rest_ok in H. destruct (strip_spaces O (first_line r)) as [j t] eqn:Es.
  destruct (strip_first_line r O j t Es) as [r0 [Er [Ef [_ Hhd]]]]. rewrite Nat.sub_0_r in Er.
  destruct t as [|c t']; [discriminate|].
  destruct (first_line_head _ _ _ Ef) as [r1 [Er0 [_ Hcb]]].
  apply andb_true_iff in H. destruct H as [H Hrest]. apply andb_true_iff in H. destruct H as [H9 H0].
  apply negb_true_iff in H9. apply N.eqb_neq in H9. apply negb_true_iff in H0. apply N.eqb_neq in H0.
  assert (Hw : wbrk brk r0 = c :: wbrk brk r1) by (rewrite Er0; apply wbrk_cons_nolf; apply nb_not_lf; exact Hcb).
  exists j, r0, c. split; [exact Er|]. split; [rewrite Hw; reflexivity|]. split; [rewrite Hw; discriminate|].
  assert (Hc32 : c <> 32) by (rewrite Er0 in Hhd; exact Hhd).
  split; [exact Hc32|]. split; [exact H9|]. split; [exact H0|]. split; [exact Hcb|]. split.
  - rewrite Er, wbrk_app, wbrk_sps, strip_spaces_sps; [reflexivity|]. rewrite Hw. exact Hc32.
  - apply orb_true_iff in Hrest. destruct Hrest as [Hcm|Hp].
    + left. apply andb_true_iff in Hcm. destruct Hcm as [Hcm Ht]. apply andb_true_iff in Hcm. destruct Hcm as [H35 Hj].
      apply N.eqb_eq in H35. apply Nat.ltb_lt in Hj. auto.
    + right. destruct parent as [p|].
      * apply Nat.leb_le. exact Hp.
      * apply andb_true_iff in Hp. destruct Hp as [Hj Hm]. apply Nat.eqb_eq in Hj. split; [exact Hj|].
        apply marker_doc_ind_wbrk; [exact Hb|]. rewrite Ef. exact Hm.
Qed.

Lemma last_line_aux n (rr : list rline) : match rr with [] => True | (k, s) :: _ => k <> O \/ s <> [] end ->
  match map (classify n) rr with Blank O :: _ => False | _ => True end.
Proof.
  destruct rr as [|[k s] rr]; [intros _; exact I|].
  intros H. cbn [map]. unfold classify. cbn [fst snd]. destruct s as [|c r].
  - destruct (Nat.leb k n); [|exact I]. destruct k; [destruct H; congruence|exact I].
  - exact I.
Qed.

Lemma last_line_of_raw n (raw : list rline) : match rev raw with [] => True | (k, s) :: _ => k <> O \/ s <> [] end ->
  last_line_nonempty (map (classify n) raw).
Proof. intros H. unfold last_line_nonempty. rewrite <- map_rev. apply last_line_aux. exact H. Qed.

(* ------------------------------------------------------------------------------------------ *)
(* the theorem, scalars with content                                                           *)
(* ------------------------------------------------------------------------------------------ *)
Lemma case_with_text : forall b (s : sc strin) F inds,
  case_facts b F -> has_text (case_lines b) = true -> ~ leading_tab b ->
  si_chars (sc_in s) = case_block b ->
  unroll_nb (sc_indents s) (sc_indent s) = (parent_z (bc_parent b), inds) ->
  yields (bc_literal b) (case_value b) (case_rest b) (scan_block_scalar str_ops F (bc_literal b) s).
Proof.
  intros b s F inds Hf Htext Htab Hchars Hun. destruct Hf.
  set (n := case_indent b) in *. set (lines := case_lines b) in *. set (pz := parent_z (bc_parent b)) in *.
  assert (Hfc : n = O -> first_char n lines <> 9).
  { intros Hn E. apply Htab. split; [exact Hn|]. rewrite Hn in E. exact E. }
  assert (Hexp : match bc_explicit b with
                 | Some d => (1 <= d <= 9)%nat /\ N.of_nat n = (if (0 <=? pz)%Z then Z.to_N (pz + Z.of_N (N.of_nat d)) else N.of_nat d)
                 | None => Z.to_N (pz + 1) <= N.of_nat n /\ exists txt, first_text lines = Some (O, txt) /\ txt <> []
                 end).
  { destruct (bc_explicit b) as [d|] eqn:Ee; [exact (cf_explicit0 d eq_refl)|]. split; [exact cf_pmin0|]. exact (cf_auto0 eq_refl Htext). }
  unfold case_value. fold lines. unfold case_block in Hchars. fold n lines in Hchars. unfold case_rest.
  destruct (bc_eof b) as [| |r] eqn:Eeof.
  - (* a final line break, then the end of the input *)
    apply (block_scalar_lines_k (bc_brk b) s F (bc_literal b) (bc_chomp b) (bc_explicit b) (bc_digit_first b) (bc_hc b) lines O [] n pz inds);
      auto.
    + rewrite Hchars. cbn [sps repeat app]. rewrite app_nil_r. reflexivity.
    + right. left. split; [reflexivity|lia].
    + discriminate.
  - (* no final line break *)
    apply (block_scalar_lines_eof_k (bc_brk b) s F (bc_literal b) (bc_chomp b) (bc_explicit b) (bc_digit_first b) (bc_hc b) lines n pz inds);
      auto.
    unfold lines, case_lines. apply last_line_of_raw. exact cf_eof0.
  - (* a less indented line, or a document marker *)
    destruct (rest_decompose (kbrk (bc_brk b)) (bc_parent b) n (has_text lines) r (kbrk_style _) cf_eof0)
      as [j [r0 [c [Er [Hc [Hne [H32 [H9 [H0 [Hcb [Hsnd Hshape]]]]]]]]]]].
    change (with_breaks (bc_brk b) r) with (wbrk (kbrk (bc_brk b)) r). rewrite Hsnd.
    apply (block_scalar_lines_k (bc_brk b) s F (bc_literal b) (bc_chomp b) (bc_explicit b) (bc_digit_first b) (bc_hc b) lines j
             (wbrk (kbrk (bc_brk b)) r0) n pz inds); auto.
    + rewrite Hchars, render_rest_app, Er. rewrite !with_breaks_wbrk, !wbrk_app, wbrk_sps. reflexivity.
    + (* ends_after *)
      destruct Hshape as [[_ [Hj _]]|Hp]; [left; exact Hj|].
      destruct (bc_parent b) as [p|] eqn:Ep.
      * left. subst pz. cbn [parent_z] in cf_pmin0. lia.
      * destruct Hp as [Hj Hd]. destruct n as [|n']; [right; right; auto|left; lia].
    + rewrite Hc. exact H32.
    + rewrite Hc. exact Hcb.
    + intros E. congruence.
    + intros _. rewrite Hc. exact H0.
Qed.

(* ------------------------------------------------------------------------------------------ *)
(* the theorem, scalars without content                                                        *)
(* ------------------------------------------------------------------------------------------ *)
Lemma hd0_blank_lines_tab brk ks X : break_style brk -> hd0 X <> 9 -> hd0 (blank_lines brk ks ++ X) <> 9.
Proof.
  intros Hb HX. destruct ks as [|[|k] ks]; [exact HX| |].
  - cbn [blank_lines flat_map]. change (sps 0 ++ brk) with brk. rewrite <- !app_assoc. apply (brk_not_tab brk Hb).
  - discriminate.
Qed.

Lemma blank_text brk n literal c explicit digit_first hc ks : header_tail hc ->
  wbrk brk (render_block n literal c explicit digit_first hc (map Blank ks) (EofRest []))
  = header literal c explicit digit_first ++ hc ++ brk ++ blank_lines brk ks.
Proof.
  intros Hhc. unfold render_block. rewrite flat_map_shift, wbrk_head by exact Hhc.
  rewrite wbrk_lf, app_nil_r, render_blanks. reflexivity.
Qed.

Lemma blank_text_eof brk n literal c explicit digit_first hc ks j : header_tail hc ->
  wbrk brk (render_block n literal c explicit digit_first hc (map Blank (ks ++ [j])) EofNone)
  = header literal c explicit digit_first ++ hc ++ brk ++ blank_lines brk ks ++ sps j.
Proof.
  intros Hhc. unfold render_block. rewrite app_nil_r, map_app, flat_map_app. cbn [map flat_map render_line].
  rewrite app_nil_r, flat_map_shift, wbrk_head by exact Hhc.
  rewrite wbrk_lf, wbrk_app, render_blanks. change (spaces j) with (sps j). rewrite wbrk_sps. reflexivity.
Qed.

Lemma case_without_text : forall b (s : sc strin) F inds,
  case_facts b F -> has_text (case_lines b) = false ->
  si_chars (sc_in s) = case_block b ->
  unroll_nb (sc_indents s) (sc_indent s) = (parent_z (bc_parent b), inds) ->
  yields (bc_literal b) (case_value b) (case_rest b) (scan_block_scalar str_ops F (bc_literal b) s).
Proof.
  intros b s F inds Hf Htext Hchars Hun. destruct Hf.
  set (n := case_indent b) in *. set (pz := parent_z (bc_parent b)) in *.
  unfold case_lines in *. fold n in Htext, cf_lines0, cf_col1, cf_len0, cf_auto0, cf_eof0, cf_nF0.
  destruct (no_text_blanks n (bc_raw b) Htext) as [El Hle].
  set (ks := map fst (bc_raw b)) in *.
  unfold case_value, case_block, case_lines in *. fold n in Hchars |- *. rewrite El in *.
  assert (HksF : Forall (fun k => (k < F)%nat) ks).
  { apply Forall_forall. intros k Hk. rewrite Forall_forall in cf_lines0.
    specialize (cf_lines0 (Blank k) (in_map Blank ks k Hk)). cbn [line_ok] in cf_lines0. lia. }
  rewrite map_length in cf_len0.
  assert (Hexp : forall j, (j <= n)%nat ->
            match bc_explicit b with
            | Some d => (1 <= d <= 9)%nat /\
                        let n0 := if (0 <=? pz)%Z then Z.to_N (pz + Z.of_N (N.of_nat d)) else N.of_nat d in
                        Forall (fun k => N.of_nat k <= n0) (j :: ks)
            | None => True
            end).
  { intros j Hj. destruct (bc_explicit b) as [d|] eqn:Ee; [|exact I].
    destruct (cf_explicit0 d eq_refl) as [Hd En]. split; [exact Hd|]. cbv zeta. rewrite <- En.
    constructor; [lia|]. apply Forall_impl with (2 := Hle). intros k Hk. lia. }
  assert (HnF : (0 < F)%nat) by lia.
  pose proof (kbrk_style (bc_brk b)) as Hb.
  unfold case_rest.
  destruct (bc_eof b) as [| |r] eqn:Eeof.
  - (* a final line break, then the end of the input *)
    assert (Eel : map Blank ks = empty_lines ks O []) by (unfold empty_lines; rewrite app_nil_r; reflexivity).
    rewrite Eel.
    apply (block_scalar_empty_k (bc_brk b) s F (bc_literal b) (bc_chomp b) (bc_explicit b) (bc_digit_first b) (bc_hc b) ks O [] pz inds);
      [ | exact Hun | exact cf_hc0 | exact cf_hcF0 | | lia | discriminate | reflexivity | | left; reflexivity | apply Hexp; lia ].
    + rewrite Hchars. rewrite with_breaks_wbrk.
      change (render_block n (bc_literal b) (bc_chomp b) (bc_explicit b) (bc_digit_first b) (bc_hc b) (map Blank ks) EofNewline)
        with (render_block n (bc_literal b) (bc_chomp b) (bc_explicit b) (bc_digit_first b) (bc_hc b) (map Blank ks) (EofRest [])).
      rewrite blank_text by exact cf_hc0. cbn [sps repeat app]. rewrite app_nil_r. reflexivity.
    + constructor; [exact HnF|exact HksF].
    + apply hd0_blank_lines_tab; [exact Hb|discriminate].
  - (* no final line break *)
    destruct (bc_raw b) as [|l0 raw0] eqn:Eraw.
    + (* the input ends on the header line *)
      subst ks. cbn [map] in *.
      replace (block_value (bc_literal b) (bc_chomp b) []) with (@nil N) by (destruct (bc_chomp b); reflexivity).
      apply (block_scalar_header_eof [10] s F (bc_literal b) (bc_chomp b) (bc_explicit b) (bc_digit_first b) (bc_hc b) pz inds);
        [ | exact Hun | exact cf_hc0 | exact cf_hcF0 | ].
      * rewrite Hchars. rewrite with_breaks_wbrk. unfold render_block. cbn [flat_map]. rewrite !app_nil_r.
        rewrite <- (app_nil_r (bc_hc b)) at 1. rewrite wbrk_head by exact cf_hc0. rewrite app_nil_r. reflexivity.
      * destruct (bc_explicit b) as [d|]; [exact (proj1 (cf_explicit0 d eq_refl))|exact I].
    + (* the input ends inside a last line of spaces *)
      assert (Hne : l0 :: raw0 <> []) by discriminate.
      destruct (exists_last Hne) as [rawi [[j sj] Elast]]. subst ks. rewrite Elast in *.
      rewrite rev_app_distr in cf_eof0. cbn [rev app] in cf_eof0.
      rewrite map_app in *. cbn [map fst] in *.
      apply Forall_app in Hle. destruct Hle as [Hle Hj]. pose proof (Forall_inv Hj) as Hjn.
      apply Forall_app in HksF. destruct HksF as [HksF HjF]. pose proof (Forall_inv HjF) as HjF1.
      assert (Hsj : sj = []).
      { rewrite !map_app in El. cbn [map fst] in El. apply app_inj_tail in El. destruct El as [_ E1].
        unfold classify in E1. cbn [fst snd] in E1. destruct sj; [reflexivity|discriminate]. }
      subst sj. destruct cf_eof0 as [Hj0|Hbad]; [|congruence].
      destruct j as [|j']; [congruence|]. set (j := S j') in *.
      change (map Blank (map fst rawi ++ [j])) with (empty_lines (map fst rawi) j []).
      rewrite app_length in cf_len0. cbn [length] in cf_len0. rewrite map_length in cf_len0.
      apply (block_scalar_empty_k (bc_brk b) s F (bc_literal b) (bc_chomp b) (bc_explicit b) (bc_digit_first b) (bc_hc b)
               (map fst rawi) j [] pz inds);
        [ | exact Hun | exact cf_hc0 | exact cf_hcF0 | constructor; assumption | rewrite map_length; unfold rline in *; lia | discriminate | reflexivity | | left; reflexivity | ].
      * rewrite Hchars. rewrite with_breaks_wbrk. rewrite blank_text_eof by exact cf_hc0. rewrite app_nil_r. reflexivity.
      * apply hd0_blank_lines_tab; [exact Hb|]. discriminate.
      * specialize (Hexp j Hjn). destruct (bc_explicit b) as [d|]; [|exact I].
        destruct Hexp as [Hd Hall]. split; [exact Hd|]. cbv zeta in *.
        inversion Hall as [|? ? H1 H2]; subst. constructor; [exact H1|]. apply Forall_app in H2. exact (proj1 H2).
  - (* a line of an enclosing collection, or a document marker *)
    rewrite Htext in cf_eof0.
    destruct (rest_decompose (kbrk (bc_brk b)) (bc_parent b) n false r Hb cf_eof0)
      as [j [r0 [c [Er [Hc [Hne [H32 [H9 [H0 [Hcb [Hsnd Hshape]]]]]]]]]]].
    change (with_breaks (bc_brk b) r) with (wbrk (kbrk (bc_brk b)) r). rewrite Hsnd.
    set (r' := wbrk (kbrk (bc_brk b)) r0) in *.
    assert (Hjn : (j <= n)%nat).
    { destruct Hshape as [[_ [_ Hbad]]|Hp]; [discriminate|]. destruct (bc_parent b) as [p|] eqn:Ep.
      - subst pz. cbn [parent_z] in cf_pmin0. lia.
      - destruct Hp as [-> _]. lia. }
    assert (Eel : map Blank ks = empty_lines ks j r').
    { unfold empty_lines. destruct r'; [congruence|rewrite app_nil_r; reflexivity]. }
    rewrite Eel.
    apply (block_scalar_empty_k (bc_brk b) s F (bc_literal b) (bc_chomp b) (bc_explicit b) (bc_digit_first b) (bc_hc b) ks j r' pz inds);
      [ | exact Hun | exact cf_hc0 | exact cf_hcF0 | | lia | rewrite Hc; exact H32 | rewrite Hc; exact Hcb | | | apply Hexp; exact Hjn ].
    + rewrite Hchars, render_rest_app, Er. rewrite !with_breaks_wbrk, !wbrk_app, wbrk_sps.
      rewrite blank_text by exact cf_hc0. rewrite <- !app_assoc. reflexivity.
    + constructor; [lia|exact HksF].
    + apply hd0_blank_lines_tab; [exact Hb|]. destruct j; [cbn [sps repeat app]; rewrite Hc; exact H9|discriminate].
    + right. destruct Hshape as [[_ [_ Hbad]]|Hp]; [discriminate|]. destruct (bc_parent b) as [p|] eqn:Ep.
      * left. split; [rewrite Hc; exact H0|]. subst pz. cbn [parent_z]. lia.
      * right. exact Hp.
Qed.

(* ------------------------------------------------------------------------------------------ *)
(* the theorem                                                                                 *)
(* ------------------------------------------------------------------------------------------ *)
Definition leading_tab_b (b : bcase) : bool := Nat.eqb (case_indent b) O && (first_char O (case_lines b) =? 9).
Lemma leading_tab_spec b : leading_tab_b b = false -> ~ leading_tab b.
Proof.
  unfold leading_tab_b, leading_tab. intros H [Hn Hc]. rewrite Hn, Hc in H. discriminate H.
Qed.

(* Every case of the specification outside the leading-tab class, in every break style: from a scanner state that
   stands at the indicator, with the parent indentation of the case (what unroll_non_block_indents leaves), the
   string input holding the text of the case from the indicator on, and enough fuel, scan_block_scalar returns the
   scalar token with exactly the specified value and stops at the line that follows the scalar. *)
Theorem block_scalar_case : forall b (s : sc strin) F inds,
  case_ok b = true -> leading_tab_b b = false ->
  si_chars (sc_in s) = case_block b ->
  unroll_nb (sc_indents s) (sc_indent s) = (parent_z (bc_parent b), inds) ->
  (case_fuel b < F)%nat ->
  exists sp s', scan_block_scalar str_ops F (bc_literal b) s
                = Ok ((sp, TScalar (if bc_literal b then Literal else Folded) (case_value b)), s')
                /\ si_chars (sc_in s') = case_rest b.
Proof.
  intros b s F inds Hok Htab Hchars Hun HF.
  pose proof (case_ok_facts b F Hok HF) as Hf. apply leading_tab_spec in Htab.
  destruct (has_text (case_lines b)) eqn:Ht.
  - exact (case_with_text b s F inds Hf Ht Htab Hchars Hun).
  - exact (case_without_text b s F inds Hf Ht Hchars Hun).
Qed.

(* a top-level case on the scanner's initial state placed at the indicator *)
Corollary block_scalar_case_top : forall b F,
  case_ok b = true -> leading_tab_b b = false -> bc_parent b = None -> (case_fuel b < F)%nat ->
  exists sp s', scan_block_scalar str_ops F (bc_literal b) (init_sc {| si_chars := case_block b; si_look := 0 |})
                = Ok ((sp, TScalar (if bc_literal b then Literal else Folded) (case_value b)), s')
                /\ si_chars (sc_in s') = case_rest b.
Proof.
  intros b F Hok Htab Hp HF. apply (block_scalar_case b _ F []); auto. rewrite Hp. reflexivity.
Qed.
