(* C16 — proofs: the parser model's tag resolution and directive processing against Spec/TagSpec.v,
   and the shapes of the tokens the scanner model produces (percent-decoding: Proofs/TagUtf8.v). *)
From Coq Require Import List NArith ZArith Bool Lia.
Import ListNotations.
Require Import Parser TagSpec.
Open Scope N_scope.

(* ========================================================================================== *)
(* Part 0: the two equality tests and the two lookups coincide                                  *)
(* ========================================================================================== *)
Lemma text_eqb_eq : forall a b, text_eqb a b = true <-> a = b.
Proof.
  induction a as [|x a IH]; destruct b as [|y b]; cbn [text_eqb]; split; intros H; try reflexivity; try discriminate.
  - apply andb_true_iff in H. destruct H as [H1 H2]. apply N.eqb_eq in H1. apply IH in H2. congruence.
  - inversion H; subst. rewrite N.eqb_refl. cbn. apply IH. reflexivity.
Qed.

Lemma str_eqb_eq : forall a b, str_eqb a b = true <-> a = b.
Proof. intros a b. unfold str_eqb. destruct (list_eq_dec N.eq_dec a b); split; congruence. Qed.

Lemma str_eqb_text_eqb : forall a b, str_eqb a b = text_eqb a b.
Proof.
  intros a b. destruct (text_eqb a b) eqn:E.
  - apply str_eqb_eq. apply text_eqb_eq. exact E.
  - destruct (str_eqb a b) eqn:E2; [|reflexivity].
    apply str_eqb_eq in E2. apply text_eqb_eq in E2. congruence.
Qed.

Lemma str_eqb_refl : forall a, str_eqb a a = true.
Proof. intros. apply str_eqb_eq. reflexivity. Qed.

Lemma str_eqb_neq : forall a b, a <> b -> str_eqb a b = false.
Proof. intros a b H. destruct (str_eqb a b) eqn:E; [|reflexivity]. apply str_eqb_eq in E. contradiction. Qed.

Lemma lookup_assoc : forall h (T : table), lookup h T = assoc h T.
Proof.
  intros h T. induction T as [|[k p] r IH]; cbn [lookup assoc]; [reflexivity|].
  rewrite <- str_eqb_text_eqb. destruct (str_eqb h k); [reflexivity|exact IH].
Qed.

Lemma assoc_set_same : forall {B} k (v : B) l, assoc k (assoc_set k v l) = Some v.
Proof.
  intros B k v l. induction l as [|[k' v'] r IH]; cbn [assoc_set assoc].
  - rewrite str_eqb_refl. reflexivity.
  - destruct (str_eqb k k') eqn:E; cbn [assoc]; [rewrite str_eqb_refl; reflexivity|rewrite E; exact IH].
Qed.

Lemma assoc_set_other : forall {B} h k (v : B) l, h <> k -> assoc h (assoc_set k v l) = assoc h l.
Proof.
  intros B h k v l Hn. induction l as [|[k' v'] r IH]; cbn [assoc_set assoc].
  - rewrite (str_eqb_neq _ _ Hn). reflexivity.
  - destruct (str_eqb k k') eqn:E; cbn [assoc].
    + apply str_eqb_eq in E. subst k'. rewrite (str_eqb_neq _ _ Hn). reflexivity.
    + destruct (str_eqb h k'); [reflexivity|exact IH].
Qed.

Lemma assoc_set_spec : forall {B} h k (v : B) l,
  assoc h (assoc_set k v l) = if str_eqb h k then Some v else assoc h l.
Proof.
  intros B h k v l. destruct (str_eqb h k) eqn:E.
  - apply str_eqb_eq in E. subst. apply assoc_set_same.
  - apply assoc_set_other. intros ->. rewrite str_eqb_refl in E. discriminate.
Qed.

(* HashMap::extend: the bindings of [new] are applied in order; the LAST binding of a handle wins *)
Lemma assoc_extend : forall h new t,
  assoc h (extend_tags t new) = match assoc h (rev new) with Some v => Some v | None => assoc h t end.
Proof.
  intros h new. induction new as [|[k v] r IH]; intros t; cbn [extend_tags rev]; [reflexivity|].
  rewrite IH.
  assert (Happ : forall (l : list (str * str)) k v, assoc h (l ++ [(k, v)]) =
            match assoc h l with Some x => Some x | None => if str_eqb h k then Some v else None end).
  { induction l as [|[k0 v0] l IHl]; intros k1 v1; cbn [app assoc]; [reflexivity|].
    destruct (str_eqb h k0); [reflexivity|apply IHl]. }
  rewrite Happ. destruct (assoc h (rev r)); [reflexivity|].
  rewrite assoc_set_spec. destruct (str_eqb h k); reflexivity.
Qed.

(* ========================================================================================== *)
(* Part (a): resolve_tag = expand                                                               *)
(* ========================================================================================== *)

(* The parser's table [tags] represents the specification table [T]: same binding for every real handle;
   the empty handle (under which reserved directives are filed, as ("","")) is bound to "" if at all. *)
Definition agree (tags : list (str * str)) (T : table) : Prop :=
  (forall h, h <> [] -> assoc h tags = lookup h T) /\ (assoc [] tags = None \/ assoc [] tags = Some []).

Definition tag_result (m : marker) (o : option (list N * list N)) : res tag :=
  match o with
  | Some (pre, suf) => Parser.Ok {| tg_handle := pre; tg_suffix := suf |}
  | None => Parser.Err (PErr 20 m)
  end.

Lemma default_prefix_is_yaml_prefix : default_prefix = yaml_prefix.
Proof. reflexivity. Qed.

Lemma resolve_tag_expand : forall p T m h s,
  agree (p_tags p) T -> kind_of h <> HMalformed ->
  resolve_tag p m h s = tag_result m (expand T h s).
Proof.
  intros p T m h s [HA HE] HK. unfold resolve_tag, expand.
  destruct h as [|a [|b r]].
  - (* verbatim / non-specific *)
    cbn [kind_of]. rewrite (str_eqb_neq [] [Parser.bang; Parser.bang]) by discriminate.
    cbn [andb]. destruct (str_eqb s [Parser.bang]).
    + destruct HE as [HE|HE]; rewrite HE; reflexivity.
    + destruct HE as [HE|HE]; rewrite HE; reflexivity.
  - (* "!" *)
    cbn [kind_of] in *. destruct (a =? bang) eqn:Ea; [|congruence].
    apply N.eqb_eq in Ea. subst a.
    rewrite (str_eqb_neq [bang] [Parser.bang; Parser.bang]) by discriminate.
    cbn [andb]. rewrite (HA [bang]) by discriminate.
    destruct (lookup [bang] T); reflexivity.
  - cbn [kind_of] in *.
    destruct ((a =? bang) && (last (b :: r) 0 =? bang)) eqn:Ec; [|congruence].
    apply andb_true_iff in Ec. destruct Ec as [Ea El]. apply N.eqb_eq in Ea. apply N.eqb_eq in El. subst a.
    destruct r as [|c r].
    + (* "!!" *)
      cbn [last] in El. subst b. rewrite str_eqb_refl.
      rewrite (HA [bang; bang]) by discriminate.
      destruct (lookup [bang; bang] T); reflexivity.
    + (* "!name!" *)
      rewrite (str_eqb_neq (bang :: b :: c :: r) [Parser.bang; Parser.bang]) by discriminate.
      cbn [andb]. rewrite (HA (bang :: b :: c :: r)) by discriminate.
      destruct (lookup (bang :: b :: c :: r) T); [reflexivity|].
      unfold is_named_handle.
      replace (last (bang :: b :: c :: r) 0) with (last (b :: c :: r) 0) by reflexivity.
      rewrite El. unfold Parser.bang, bang. rewrite !N.eqb_refl. reflexivity.
Qed.

(* ========================================================================================== *)
(* Part (b): process_directives = decls, merged                                                 *)
(* ========================================================================================== *)
Definition dir_of_tok (t : tok) : option directive :=
  match t with
  | TVersionDirective a b => Some (DYaml a b)
  | TTagDirective [] _ => Some DReserved
  | TTagDirective h p => Some (DTag h p)
  | _ => None
  end.
Definition is_directive_tok (t : tok) : bool := match dir_of_tok t with Some _ => true | None => false end.
(* the scanner files a reserved directive as TagDirective("", "") *)
Definition dir_tok_ok (t : tok) : Prop := match t with TTagDirective [] p => p = [] | _ => True end.

Fixpoint dirs_of (run : list token) : list directive :=
  match run with
  | [] => []
  | (_, t) :: r => match dir_of_tok t with Some d => d :: dirs_of r | None => dirs_of r end
  end.

(* the tokens the parser will see next: the one-token cache, then the scanner's output *)
Definition stream (p : parser) : list token :=
  match p_token p with Some t => t :: p_toks p | None => p_toks p end.

Definition run_ok (run : list token) : Prop :=
  Forall (fun t => is_directive_tok (snd t) = true /\ dir_tok_ok (snd t)) run.
Definition run_ends (rest : list token) : Prop :=
  match rest with [] => True | t :: _ => is_directive_tok (snd t) = false end.

Definition mark_of (run : list token) (j : nat) : marker :=
  sp_start (fst (nth j run (span_empty {| m_index := 0; m_line := 0; m_col := 0 |}, TStreamEnd))).

Lemma peek_stream : forall p t s', stream p = t :: s' -> peek p = Parser.Ok (t, set_tok p s' (Some t)).
Proof.
  intros p t s' H. destruct p as [toks tk sts st an aid tg kp]. unfold stream, peek in *. cbn in *.
  destruct tk as [t0|].
  - inversion H; subst. reflexivity.
  - subst toks. reflexivity.
Qed.

Lemma peek_empty : forall p, stream p = [] -> peek p = Parser.Err PErrScan.
Proof.
  intros p H. destruct p as [toks tk sts st an aid tg kp]. unfold stream, peek in *. cbn in *.
  destruct tk; [discriminate|]. subst. reflexivity.
Qed.

(* the local table of the loop ([tags], a HashMap) against the accumulator of the specification *)
Definition local_agree (tags : list (str * str)) (acc : table) : Prop :=
  (forall h, h <> [] -> assoc h tags = lookup h acc) /\ (assoc [] tags = None \/ assoc [] tags = Some [])
  /\ (forall h, assoc h (rev tags) = assoc h tags).

Lemma keys_unique_rev_aux : forall (l : list (str * str)) h k v,
  assoc h (l ++ [(k, v)]) = match assoc h l with Some x => Some x | None => if str_eqb h k then Some v else None end.
Proof.
  induction l as [|[k0 v0] l IH]; intros h k v; cbn [app assoc]; [reflexivity|].
  destruct (str_eqb h k0); [reflexivity|apply IH].
Qed.

(* assoc_set keeps "reversal does not matter" (i.e. keys stay unique) *)
Definition keys_unique (l : list (str * str)) : Prop := NoDup (map fst l).

Lemma assoc_none_notin : forall (l : list (str * str)) k, ~ In k (map fst l) -> assoc k l = None.
Proof.
  induction l as [|[k0 v0] l IH]; intros k H; cbn [assoc]; [reflexivity|].
  cbn [map fst In] in H. rewrite str_eqb_neq by (intros ->; apply H; left; reflexivity).
  apply IH. intros HI. apply H. right. exact HI.
Qed.

Lemma assoc_rev_unique : forall (l : list (str * str)) h, keys_unique l -> assoc h (rev l) = assoc h l.
Proof.
  induction l as [|[k v] l IH]; intros h HU; [reflexivity|].
  inversion HU as [|? ? Hni HU']; subst. cbn [rev]. rewrite keys_unique_rev_aux. rewrite (IH h HU').
  cbn [assoc]. destruct (str_eqb h k) eqn:E.
  - apply str_eqb_eq in E. subst. rewrite (assoc_none_notin l k Hni). reflexivity.
  - destruct (assoc h l); reflexivity.
Qed.

Lemma assoc_set_keys : forall (l : list (str * str)) k v x,
  In x (map fst (assoc_set k v l)) -> x = k \/ In x (map fst l).
Proof.
  induction l as [|[k0 v0] l IH]; intros k v x H; cbn [assoc_set] in H.
  - cbn in H. destruct H as [H|[]]. left. congruence.
  - destruct (str_eqb k k0) eqn:E.
    + apply str_eqb_eq in E. subst k0. cbn [map fst In] in *. destruct H as [H|H]; [left; congruence|right; right; exact H].
    + cbn [map fst In] in *. destruct H as [H|H]; [right; left; exact H|].
      apply IH in H. destruct H as [H|H]; [left; exact H|right; right; exact H].
Qed.

Lemma assoc_set_unique : forall (l : list (str * str)) k v, keys_unique l -> keys_unique (assoc_set k v l).
Proof.
  unfold keys_unique. induction l as [|[k0 v0] l IH]; intros k v HU; cbn [assoc_set].
  - cbn. constructor; [intros []|constructor].
  - inversion HU as [|? ? Hni HU']; subst. destruct (str_eqb k k0) eqn:E.
    + apply str_eqb_eq in E. subst k0. cbn [map fst]. constructor; assumption.
    + cbn [map fst]. constructor; [|apply IH; exact HU'].
      intros HI. apply assoc_set_keys in HI. destruct HI as [HI|HI]; [|contradiction].
      subst k0. rewrite str_eqb_refl in E. discriminate.
Qed.

Lemma has_key_lookup : forall h tags acc, h <> [] ->
  (forall h, h <> [] -> assoc h tags = lookup h acc) ->
  has_key h tags = match lookup h acc with Some _ => true | None => false end.
Proof. intros h tags acc Hn HA. unfold has_key. rewrite (HA h Hn). reflexivity. Qed.

Lemma decls_from_index : forall ds i ys acc j,
  (decls_from i ds ys acc = DuplicateHandle j \/ decls_from i ds ys acc = DuplicateYaml j) -> (i <= j)%nat.
Proof.
  induction ds as [|d ds IH]; intros i ys acc j H; cbn [decls_from] in H.
  - destruct H; discriminate.
  - destruct d as [a b|h p|].
    + destruct ys.
      * destruct H as [H|H]; inversion H; subst; lia.
      * apply IH in H. lia.
    + destruct (lookup h acc).
      * destruct H as [H|H]; inversion H; subst; lia.
      * apply IH in H. lia.
    + apply IH in H. lia.
Qed.

(* what the loop returns, as a proposition about its result *)
Definition directives_post (p : parser) (T0 : list (str * str)) (run rest : list token) (base : nat)
  (spec : decl_result) (r : res parser) : Prop :=
  match spec with
  | Declared d =>
      match rest with
      | [] => r = Parser.Err PErrScan
      | t :: rest' =>
          exists tags', r = Parser.Ok (set_tags (set_tok p rest' (Some t)) (extend_tags T0 tags')) /\ local_agree tags' d
      end
  | DuplicateHandle j => r = Parser.Err (PErr 21 (mark_of run (j - base)))
  | DuplicateYaml j => r = Parser.Err (PErr 2 (mark_of run (j - base)))
  end.

Lemma set_tok_set_tok : forall p a b c d, set_tok (set_tok p a b) c d = set_tok p c d.
Proof. reflexivity. Qed.

Lemma post_step : forall p p1 T0 tk run rest i spec r,
  (forall a b, set_tok p1 a b = set_tok p a b) ->
  (forall j, spec = DuplicateHandle j \/ spec = DuplicateYaml j -> (S i <= j)%nat) ->
  directives_post p1 T0 run rest (S i) spec r -> directives_post p T0 (tk :: run) rest i spec r.
Proof.
  intros p p1 T0 tk run rest i spec r Hp Hj H. destruct spec as [d|j|j]; cbn [directives_post] in *.
  - destruct rest as [|t rest']; [exact H|]. destruct H as [tags' [Hr HL]]. exists tags'. rewrite <- Hp. auto.
  - assert (S i <= j)%nat by (apply Hj; left; reflexivity).
    rewrite H. unfold mark_of. replace (j - i)%nat with (S (j - S i)) by lia. reflexivity.
  - assert (S i <= j)%nat by (apply Hj; right; reflexivity).
    rewrite H. unfold mark_of. replace (j - i)%nat with (S (j - S i)) by lia. reflexivity.
Qed.

Lemma process_directives_loop : forall run fuel p ys tags acc rest i,
  stream p = run ++ rest -> run_ok run -> run_ends rest -> (length run < fuel)%nat ->
  local_agree tags acc -> keys_unique tags ->
  directives_post p (p_tags p) run rest i (decls_from i (dirs_of run) ys acc) (process_directives fuel p ys tags).
Proof.
  induction run as [|[sp t] run IH]; intros fuel p ys tags acc rest i HS HR HE HF HL HU.
  - (* end of the run *)
    destruct fuel as [|fuel]; [cbn in HF; lia|]. cbn [dirs_of decls_from directives_post process_directives].
    cbn [app] in HS. destruct rest as [|[sp t] rest'].
    + rewrite (peek_empty p HS). reflexivity.
    + rewrite (peek_stream p _ _ HS). cbv beta iota. cbn [run_ends snd] in HE.
      exists tags. split; [|exact HL].
      unfold is_directive_tok in HE.
      destruct t; cbn [dir_of_tok] in HE; try discriminate; try reflexivity.
      destruct h; discriminate.
  - destruct fuel as [|fuel]; [cbn in HF; lia|]. cbn [length] in HF.
    inversion HR as [|? ? [Hd Hok] HR']; subst. cbn [snd] in Hd, Hok.
    cbn [app] in HS. cbn [process_directives]. rewrite (peek_stream p _ _ HS). cbv beta iota.
    assert (HS' : stream (skip (set_tok p (run ++ rest) (Some (sp, t)))) = run ++ rest) by reflexivity.
    destruct HL as [HA [HEm HRv]].
    unfold is_directive_tok in Hd.
    destruct t; cbn [dir_of_tok] in Hd; try discriminate.
    + (* %YAML *)
      cbn [dirs_of dir_of_tok decls_from]. destruct ys.
      * cbn [directives_post]. rewrite Nat.sub_diag. reflexivity.
      * specialize (IH fuel _ true tags acc rest (S i) HS' HR' HE ltac:(lia) (conj HA (conj HEm HRv)) HU).
        eapply post_step; [intros; reflexivity| |exact IH].
        intros j Hj. eapply decls_from_index. exact Hj.
    + (* %TAG or reserved *)
      cbn [dirs_of]. destruct h as [|c h].
      * (* reserved: TagDirective("", p) with p = "" *)
        cbn [dir_tok_ok] in Hok. subst p0. cbn [dir_of_tok decls_from is_empty_str negb andb].
        assert (HL' : local_agree (assoc_set [] [] tags) acc).
        { split; [|split].
          - intros h Hn. rewrite assoc_set_other by exact Hn. apply HA. exact Hn.
          - right. apply assoc_set_same.
          - intros h. apply assoc_rev_unique. apply assoc_set_unique. exact HU. }
        specialize (IH fuel _ ys (assoc_set [] [] tags) acc rest (S i) HS' HR' HE ltac:(lia) HL'
                       (assoc_set_unique _ _ _ HU)).
        eapply post_step; [intros; reflexivity| |exact IH].
        intros j Hj. eapply decls_from_index. exact Hj.
      * (* %TAG with a real handle *)
        cbn [dir_of_tok decls_from is_empty_str negb andb].
        pose proof (has_key_lookup (c :: h) tags acc ltac:(discriminate) HA) as HK.
        destruct (lookup (c :: h) acc) eqn:EL;
          match goal with |- context [if ?b then _ else _] => rewrite (HK : b = _) end.
        -- cbn [directives_post]. rewrite Nat.sub_diag. reflexivity.
        -- assert (HL' : local_agree (assoc_set (c :: h) p0 tags) ((c :: h, p0) :: acc)).
           { split; [|split].
             - intros h' Hn. rewrite assoc_set_spec. cbn [lookup]. rewrite <- str_eqb_text_eqb.
               destruct (str_eqb h' (c :: h)); [reflexivity|apply HA; exact Hn].
             - rewrite assoc_set_other by discriminate. exact HEm.
             - intros h'. apply assoc_rev_unique. apply assoc_set_unique. exact HU. }
           specialize (IH fuel _ ys (assoc_set (c :: h) p0 tags) ((c :: h, p0) :: acc) rest (S i) HS' HR' HE
                          ltac:(lia) HL' (assoc_set_unique _ _ _ HU)).
           eapply post_step; [intros; reflexivity| |exact IH].
           intros j Hj. eapply decls_from_index. exact Hj.
Qed.

(* merging the local table into the parser's: agreement with [merge] *)
Lemma assoc_app : forall (d T : list (str * str)) h,
  assoc h (d ++ T) = match assoc h d with Some v => Some v | None => assoc h T end.
Proof.
  induction d as [|[k v] d IHd]; intros T h; cbn [app assoc]; [reflexivity|].
  destruct (str_eqb h k); [reflexivity|apply IHd].
Qed.

Lemma agree_extend : forall tags T loc d,
  agree tags T -> local_agree loc d -> agree (extend_tags tags loc) (merge T d).
Proof.
  intros tags T loc d [HA HE] [HLA [HLE HRv]]. split.
  - intros h Hn. rewrite assoc_extend, HRv, (HLA h Hn), (HA h Hn). unfold merge.
    rewrite !lookup_assoc. symmetry. apply assoc_app.
  - rewrite assoc_extend, HRv. destruct HLE as [HLE|HLE]; rewrite HLE; [exact HE|right; reflexivity].
Qed.

Lemma local_agree_nil : local_agree [] [].
Proof. split; [|split]; [reflexivity|left; reflexivity|reflexivity]. Qed.

(* the statement with the fuel the model uses, for any parser state *)
Definition directives_spec (p : parser) (T : table) (run rest : list token) (r : res parser) : Prop :=
  match decls (dirs_of run) with
  | Declared d =>
      match rest with
      | [] => r = Parser.Err PErrScan
      | t :: rest' =>
          exists p', r = Parser.Ok p' /\ agree (p_tags p') (merge T d)
                     /\ p_token p' = Some t /\ p_toks p' = rest'
                     /\ p_state p' = p_state p /\ p_states p' = p_states p /\ p_anchors p' = p_anchors p
                     /\ p_anchor_id p' = p_anchor_id p /\ p_keep_tags p' = p_keep_tags p
      end
  | DuplicateHandle j => r = Parser.Err (PErr 21 (mark_of run j))
  | DuplicateYaml j => r = Parser.Err (PErr 2 (mark_of run j))
  end.

Lemma stream_length : forall p, (length (stream p) <= S (length (p_toks p)))%nat.
Proof. intros p. unfold stream. destruct (p_token p); cbn [length]; lia. Qed.

Lemma process_directives_spec : forall p T run rest,
  stream p = run ++ rest -> run_ok run -> run_ends rest -> agree (p_tags p) T ->
  directives_spec p T run rest (process_directives (S (S (length (p_toks p)))) p false []).
Proof.
  intros p T run rest HS HR HE HA.
  assert (HF : (length run < S (S (length (p_toks p))))%nat).
  { pose proof (stream_length p) as HL. rewrite HS, app_length in HL. lia. }
  pose proof (process_directives_loop run _ p false [] [] rest 0%nat HS HR HE HF local_agree_nil
                ltac:(constructor)) as H.
  unfold directives_spec, decls.
  destruct (decls_from 0 (dirs_of run) false []) as [d|j|j]; cbn [directives_post] in H.
  - destruct rest as [|t rest']; [exact H|].
    destruct H as [tags' [Hr HL]]. eexists. split; [exact Hr|].
    split; [apply agree_extend; assumption|]. cbn. repeat split; reflexivity.
  - rewrite Nat.sub_0_r in H. exact H.
  - rewrite Nat.sub_0_r in H. exact H.
Qed.

(* fuel independence: any fuel above the length of the run gives the same result *)
Lemma process_directives_fuel : forall p T run rest fuel,
  stream p = run ++ rest -> run_ok run -> run_ends rest -> agree (p_tags p) T -> (length run < fuel)%nat ->
  directives_spec p T run rest (process_directives fuel p false []).
Proof.
  intros p T run rest fuel HS HR HE HA HF.
  pose proof (process_directives_loop run fuel p false [] [] rest 0%nat HS HR HE HF local_agree_nil
                ltac:(constructor)) as H.
  unfold directives_spec, decls.
  destruct (decls_from 0 (dirs_of run) false []) as [d|j|j]; cbn [directives_post] in H.
  - destruct rest as [|t rest']; [exact H|].
    destruct H as [tags' [Hr HL]]. eexists. split; [exact Hr|].
    split; [apply agree_extend; assumption|]. cbn. repeat split; reflexivity.
  - rewrite Nat.sub_0_r in H. exact H.
  - rewrite Nat.sub_0_r in H. exact H.
Qed.

(* ---- the specification's own reading: what [decls] accepts and what the table then contains ---- *)
Fixpoint tag_handles (ds : list directive) : list (list N) :=
  match ds with
  | [] => []
  | DTag h _ :: r => h :: tag_handles r
  | _ :: r => tag_handles r
  end.
Fixpoint yaml_count (ds : list directive) : nat :=
  match ds with
  | [] => 0
  | DYaml _ _ :: r => S (yaml_count r)
  | _ :: r => yaml_count r
  end.

Lemma lookup_none_notin : forall h (acc : table), lookup h acc = None <-> ~ In h (map fst acc).
Proof.
  intros h acc. induction acc as [|[k v] acc IH]; cbn [lookup map fst In].
  - split; [intros _ []|reflexivity].
  - destruct (text_eqb h k) eqn:E.
    + apply text_eqb_eq in E. subst. split; [discriminate|]. intros H. exfalso. apply H. left. reflexivity.
    + rewrite IH. split.
      * intros H [H1|H1]; [|contradiction]. subst. assert (text_eqb h h = true) by (apply text_eqb_eq; reflexivity). congruence.
      * intros H H1. apply H. right. exact H1.
Qed.

Lemma lookup_cons : forall h k p (acc : table),
  lookup h ((k, p) :: acc) = if text_eqb h k then Some p else lookup h acc.
Proof. reflexivity. Qed.

Lemma text_eqb_refl : forall a, text_eqb a a = true.
Proof. intros. apply text_eqb_eq. reflexivity. Qed.

Lemma text_eqb_neq : forall a b, a <> b -> text_eqb a b = false.
Proof. intros a b H. destruct (text_eqb a b) eqn:E; [|reflexivity]. apply text_eqb_eq in E. contradiction. Qed.

(* a document's directives are accepted iff no handle is declared twice and %YAML is given at most once *)
Lemma decls_from_accepts : forall ds i ys acc,
  (exists d, decls_from i ds ys acc = Declared d) <->
  (forall h, In h (tag_handles ds) -> lookup h acc = None) /\ NoDup (tag_handles ds)
  /\ ((if ys then 1 else 0) + yaml_count ds <= 1)%nat.
Proof.
  induction ds as [|d ds IH]; intros i ys acc; cbn [decls_from tag_handles yaml_count].
  - split.
    + intros _. split; [intros h []|]. split; [constructor|]. destruct ys; lia.
    + intros _. eexists. reflexivity.
  - destruct d as [a b|h p|].
    + destruct ys.
      * split; [intros [d H]; discriminate|]. intros [_ [_ H]]. lia.
      * rewrite IH. split; intros [H1 [H2 H3]]; (split; [exact H1|]; split; [exact H2|]; lia).
    + destruct (lookup h acc) eqn:EL.
      * split; [intros [d H]; discriminate|]. intros [H1 _].
        rewrite (H1 h) in EL by (left; reflexivity). discriminate.
      * rewrite IH. split.
        -- intros [H1 [H2 H3]].
           assert (Hni : ~ In h (tag_handles ds)).
           { intros HI. specialize (H1 h HI). rewrite lookup_cons, text_eqb_refl in H1. discriminate. }
           split; [|split; [constructor; assumption|exact H3]].
           intros h' [<-|HI]; [exact EL|]. specialize (H1 h' HI). rewrite lookup_cons in H1.
           destruct (text_eqb h' h); [discriminate|exact H1].
        -- intros [H1 [H2 H3]]. inversion H2 as [|? ? Hni H2']; subst.
           split; [|split; [exact H2'|exact H3]].
           intros h' HI. rewrite lookup_cons, text_eqb_neq by (intros ->; contradiction).
           apply H1. right. exact HI.
    + rewrite IH. reflexivity.
Qed.

Theorem decls_accepts : forall ds,
  (exists d, decls ds = Declared d) <-> NoDup (tag_handles ds) /\ (yaml_count ds <= 1)%nat.
Proof.
  intros ds. unfold decls. rewrite decls_from_accepts. cbn [lookup]. split.
  - intros [_ [H2 H3]]. split; [exact H2|lia].
  - intros [H2 H3]. split; [reflexivity|]. split; [exact H2|lia].
Qed.

(* ... and then every %TAG line of the document is in force: the table binds exactly the declared handles *)
Fixpoint declared_prefix (h : list N) (ds : list directive) : option (list N) :=
  match ds with
  | [] => None
  | DTag k p :: r => if text_eqb h k then Some p else declared_prefix h r
  | _ :: r => declared_prefix h r
  end.

Lemma declared_prefix_notin : forall h ds, ~ In h (tag_handles ds) -> declared_prefix h ds = None.
Proof.
  induction ds as [|d ds IH]; intros H; cbn [declared_prefix tag_handles] in *; [reflexivity|].
  destruct d as [a b|k p|]; try (apply IH; exact H).
  cbn [In] in H. rewrite text_eqb_neq by (intros ->; apply H; left; reflexivity).
  apply IH. intros HI. apply H. right. exact HI.
Qed.

Lemma decls_from_table : forall ds i ys acc d,
  decls_from i ds ys acc = Declared d ->
  forall h, lookup h d = match declared_prefix h ds with Some p => Some p | None => lookup h acc end.
Proof.
  induction ds as [|d0 ds IH]; intros i ys acc d H h; cbn [decls_from declared_prefix] in *.
  - inversion H. reflexivity.
  - destruct d0 as [a b|k p|].
    + destruct ys; [discriminate|]. eapply IH. exact H.
    + destruct (lookup k acc) eqn:EL; [discriminate|].
      rewrite (IH _ _ _ _ H h). rewrite lookup_cons.
      destruct (text_eqb h k) eqn:E; [|reflexivity].
      apply text_eqb_eq in E. subst k.
      assert (HX : exists d', decls_from (S i) ds ys ((h, p) :: acc) = Declared d') by (eexists; exact H).
      apply decls_from_accepts in HX. destruct HX as [H1 _].
      rewrite declared_prefix_notin; [reflexivity|].
      intros HI. specialize (H1 h HI). rewrite lookup_cons, text_eqb_refl in H1. discriminate.
    + eapply IH. exact H.
Qed.

Theorem decls_table : forall ds d, decls ds = Declared d -> forall h, lookup h d = declared_prefix h ds.
Proof.
  intros ds d H h. unfold decls in H. rewrite (decls_from_table _ _ _ _ _ H h).
  destruct (declared_prefix h ds); reflexivity.
Qed.

Lemma lookup_merge : forall h before new,
  lookup h (merge before new) = match lookup h new with Some p => Some p | None => lookup h before end.
Proof.
  intros h before new. unfold merge. induction new as [|[k p] r IH]; cbn [app lookup]; [reflexivity|].
  destruct (text_eqb h k); [reflexivity|exact IH].
Qed.

(* ========================================================================================== *)
(* Part (b'): the two callers of the loop                                                       *)
(* ========================================================================================== *)
Lemma explicit_document_start_spec : forall p T run sp rest,
  stream p = run ++ (sp, TDocumentStart) :: rest -> run_ok run -> agree (p_tags p) T ->
  match decls (dirs_of run) with
  | Declared d =>
      exists p', explicit_document_start p = Parser.Ok ((EDocumentStart true, sp), p')
                 /\ agree (p_tags p') (merge T d) /\ stream p' = rest /\ p_keep_tags p' = p_keep_tags p
                 /\ p_state p' = SDocumentContent
  | DuplicateHandle j => explicit_document_start p = Parser.Err (PErr 21 (mark_of run j))
  | DuplicateYaml j => explicit_document_start p = Parser.Err (PErr 2 (mark_of run j))
  end.
Proof.
  intros p T run sp rest HS HR HA.
  pose proof (process_directives_spec p T run _ HS HR ltac:(reflexivity) HA) as H.
  unfold directives_spec in H. unfold explicit_document_start.
  destruct (decls (dirs_of run)) as [d|j|j].
  - destruct H as [p' [Hr [HA' [Htk [Hts [_ [_ [_ [_ Hk]]]]]]]]]. rewrite Hr.
    destruct p' as [toks tk sts st an aid tg kp]. cbn in Htk, Hts, Hk, HA'. subst.
    eexists. split; [reflexivity|]. cbn. auto.
  - rewrite H. reflexivity.
  - rewrite H. reflexivity.
Qed.

(* ========================================================================================== *)
(* Part (c): the end of a document                                                              *)
(* ========================================================================================== *)
Lemma document_end_tags : forall p ev p',
  document_end p = Parser.Ok (ev, p') ->
  p_tags p' = carried (p_keep_tags p) (p_tags p) /\ p_keep_tags p' = p_keep_tags p /\ p_anchors p' = [].
Proof.
  intros p ev p' H. unfold document_end in H.
  destruct p as [toks tk sts st an aid tg kp].
  unfold Parser.peek in H. cbn in H.
  destruct tk as [[sp t]|]; [|destruct toks as [|[sp t] toks]; [discriminate|]];
    cbn in H; destruct kp; destruct t; cbn in H;
    repeat match type of H with
           | context [match ?x with _ => _ end] => destruct x; cbn in H
           end;
    try discriminate; inversion H; subst; cbn; auto.
Qed.

Lemma agree_carried : forall keep tags T, agree tags T -> agree (carried keep tags) (carried keep T).
Proof.
  intros keep tags T H. destruct keep; [exact H|]. split; [reflexivity|left; reflexivity].
Qed.

Lemma agree_nil : agree [] [].
Proof. split; [reflexivity|left; reflexivity]. Qed.

(* ========================================================================================== *)
(* Part (a'): the tag of a node is resolved against the table of the parser, which node            *)
(* properties do not change                                                                       *)
(* ========================================================================================== *)
Lemma resolve_tag_ext : forall p1 p2 m h s, p_tags p1 = p_tags p2 -> resolve_tag p1 m h s = resolve_tag p2 m h s.
Proof. intros p1 p2 m h s H. unfold resolve_tag. rewrite H. reflexivity. Qed.

(* the tag token of a node: the first token, or the one after the anchor *)
Definition tag_token_of (p : parser) (t : token) : option (str * str) :=
  match snd t with
  | TTag h s => Some (h, s)
  | TAnchor _ => match p_toks p with (_, TTag h s) :: _ => Some (h, s) | _ => None end
  | _ => None
  end.

Lemma node_props_tag : forall p t aid otg p',
  node_props p t = Parser.Ok (aid, otg, p') ->
  (p_tags p' = p_tags p) /\
  (match otg with
   | None => tag_token_of p t = None
   | Some tg => exists h s, tag_token_of p t = Some (h, s) /\ resolve_tag p (sp_start (fst t)) h s = Parser.Ok tg
   end).
Proof.
  intros p t aid otg p' H. destruct t as [sp t]. destruct p as [toks tk sts st an aid0 tg0 kp].
  unfold tag_token_of. cbn [snd fst p_toks].
  destruct t; cbn in H; try (inversion H; subst; split; reflexivity).
  - (* anchor first *)
    destruct toks as [|[sp2 t2] toks]; cbn in H; [discriminate|].
    destruct t2; cbn in H; try (inversion H; subst; split; reflexivity).
    match type of H with context [resolve_tag ?q ?m ?h ?s] => destruct (resolve_tag q m h s) eqn:ER end; try discriminate.
    inversion H; subst. split; [reflexivity|]. eexists _, _. split; [reflexivity|].
    erewrite resolve_tag_ext; [exact ER|reflexivity].
  - (* tag first *)
    match type of H with context [resolve_tag ?q ?m ?h ?s] => destruct (resolve_tag q m h s) eqn:ER end; try discriminate.
    cbn in H. destruct toks as [|[sp2 t2] toks]; cbn in H; [discriminate|].
    destruct t2; cbn in H; inversion H; subst; (split; [reflexivity|]);
      eexists _, _; (split; [reflexivity|]); (erewrite resolve_tag_ext; [exact ER|reflexivity]).
Qed.

(* ========================================================================================== *)
(* Part (f): nothing but the directive loop and the end of a document changes the table           *)
(* ========================================================================================== *)
Lemma peek_tags : forall p t p1, Parser.peek p = Parser.Ok (t, p1) -> p_tags p1 = p_tags p.
Proof.
  intros p t p1 H. unfold Parser.peek in H. destruct (p_token p).
  - inversion H; subst. reflexivity.
  - destruct (p_toks p); [discriminate|]. inversion H; subst. reflexivity.
Qed.
Lemma pop_state_tags : forall p p1, pop_state p = Parser.Ok p1 -> p_tags p1 = p_tags p.
Proof. intros p p1 H. unfold pop_state in H. destruct (p_states p); [discriminate|]. inversion H; subst. reflexivity. Qed.

Ltac tags_step H :=
  match type of H with
  | (match Parser.peek ?p with _ => _ end) = _ =>
      let E := fresh "E" in destruct (Parser.peek p) as [[? ?]| |] eqn:E; [apply peek_tags in E|discriminate|discriminate]
  | (match pop_state ?p with _ => _ end) = _ =>
      let E := fresh "E" in destruct (pop_state p) as [?| |] eqn:E; [apply pop_state_tags in E|discriminate|discriminate]
  | (match (match Parser.peek ?p with _ => _ end) with _ => _ end) = _ =>
      let E := fresh "E" in destruct (Parser.peek p) as [[? ?]| |] eqn:E; [apply peek_tags in E|discriminate|discriminate]
  | (match (if ?b then _ else _) with _ => _ end) = _ => destruct b
  | (match (match ?x with _ => _ end) with _ => _ end) = _ => destruct x
  | (match ?x with _ => _ end) = _ => destruct x
  | (if ?b then _ else _) = _ => destruct b
  | (let '(_, _) := ?x in _) = _ => destruct x
  end.
Ltac tags_fin H :=
  try discriminate;
  inversion H; subst; cbn [p_tags skip set_tok set_state set_states set_anchors push_state register_anchor fst snd] in *; congruence.
Ltac tags_tac H := repeat (cbv beta iota zeta in H; tags_step H); cbv beta iota zeta in H; tags_fin H.

Lemma empty_or_err_tags : forall p aid tg sp ev p', empty_or_err p aid tg sp = Parser.Ok (ev, p') -> p_tags p' = p_tags p.
Proof. intros p aid tg sp ev p' H. unfold empty_or_err in H. tags_tac H. Qed.

Lemma node_content_tags : forall p aid tg b i ev p',
  node_content p aid tg b i = Parser.Ok (ev, p') -> p_tags p' = p_tags p.
Proof.
  intros p aid tg b i ev p' H. unfold node_content in H.
  destruct (Parser.peek p) as [[[sp t] p1]| |] eqn:E; try discriminate. apply peek_tags in E.
  destruct t; cbv beta iota in H;
    try (apply empty_or_err_tags in H; congruence);
    try (destruct b); try (destruct i); try (apply empty_or_err_tags in H; congruence); tags_tac H.
Qed.

Lemma parse_node_tags : forall p b i ev p', parse_node p b i = Parser.Ok (ev, p') -> p_tags p' = p_tags p.
Proof.
  intros p b i ev p' H. unfold parse_node in H.
  destruct (Parser.peek p) as [[[sp t] p1]| |] eqn:E; try discriminate. apply peek_tags in E.
  destruct t; cbv beta iota in H;
    try (match type of H with context [node_props ?q ?t0] =>
           let EN := fresh "EN" in
           destruct (node_props q t0) as [[[aid tg] p2]| |] eqn:EN; try discriminate;
           apply node_props_tag in EN; destruct EN as [EN _]; apply node_content_tags in H; congruence end).
  tags_tac H.
Qed.

Ltac tags_node H :=
  match type of H with
  | parse_node _ _ _ = _ =>
      apply parse_node_tags in H;
      cbn [p_tags skip set_tok set_state set_states set_anchors push_state] in *; congruence
  end.
Ltac tags_all H :=
  repeat (cbv beta iota zeta in H; first [tags_node H | tags_step H]);
  cbv beta iota zeta in H; first [tags_node H | tags_fin H].

(* the states in which the table may change: the start of a document (directives) and its end *)
Definition table_state (s : pstate) : bool :=
  match s with SImplicitDocumentStart | SDocumentStart | SDocumentEnd => true | _ => false end.

Lemma state_machine_tags : forall p ev p',
  state_machine p = Parser.Ok (ev, p') -> table_state (p_state p) = false -> p_tags p' = p_tags p.
Proof.
  intros p ev p' H HS. unfold state_machine in H.
  destruct (p_state p); cbn [table_state] in HS; try discriminate.
  - unfold stream_start in H. tags_all H.
  - unfold document_content in H. tags_all H.
  - tags_all H.
  - unfold block_sequence_entry in H. tags_all H.
  - unfold block_sequence_entry in H. tags_all H.
  - unfold indentless_sequence_entry in H. tags_all H.
  - unfold block_mapping_key in H. tags_all H.
  - unfold block_mapping_key in H. tags_all H.
  - unfold block_mapping_value in H. tags_all H.
  - unfold flow_sequence_entry in H. tags_all H.
  - unfold flow_sequence_entry in H. tags_all H.
  - unfold flow_sequence_entry_mapping_key in H. tags_all H.
  - unfold flow_sequence_entry_mapping_value in H. tags_all H.
  - unfold flow_sequence_entry_mapping_end in H. tags_all H.
  - unfold flow_mapping_key in H. tags_all H.
  - unfold flow_mapping_key in H. tags_all H.
  - unfold flow_mapping_value in H. tags_all H.
  - unfold flow_mapping_value in H. tags_all H.
Qed.

(* (c) + (b): from the end of one document to the start of the next, in the words of the specification *)
Lemma next_document_spec : forall p T ev p1 run sp rest,
  agree (p_tags p) T -> document_end p = Parser.Ok (ev, p1) ->
  stream p1 = run ++ (sp, TDocumentStart) :: rest -> run_ok run ->
  match table_of (p_keep_tags p) T (dirs_of run) with
  | Some T' =>
      exists p2, explicit_document_start p1 = Parser.Ok ((EDocumentStart true, sp), p2)
                 /\ agree (p_tags p2) T' /\ stream p2 = rest /\ p_keep_tags p2 = p_keep_tags p
  | None =>
      exists site j, (site = 21 \/ site = 2)%N /\ explicit_document_start p1 = Parser.Err (PErr site (mark_of run j))
  end.
Proof.
  intros p T ev p1 run sp rest HA HD HS HR.
  destruct (document_end_tags _ _ _ HD) as [Ht [Hk _]].
  assert (HA1 : agree (p_tags p1) (carried (p_keep_tags p) T)) by (rewrite Ht; apply agree_carried; exact HA).
  pose proof (explicit_document_start_spec p1 _ run sp rest HS HR HA1) as H.
  unfold table_of, in_force. destruct (decls (dirs_of run)) as [d|j|j].
  - destruct H as [p2 [H1 [H2 [H3 [H4 _]]]]]. exists p2. split; [exact H1|]. split; [exact H2|]. split; [exact H3|]. congruence.
  - exists 21%N, j. split; [left; reflexivity|exact H].
  - exists 2%N, j. split; [right; reflexivity|exact H].
Qed.

(* Part (d), percent-decoding (scan_uri_escapes against RFC 3629), lives in Proofs/TagUtf8.v;
   the text-level scanner theorems in Proofs/TagScanText.v and the pipeline in Proofs/TagPipeline.v. *)
(* (from here on [Ok]/[Err]/[peek] are the scanner's; the parser's are written Parser.Ok ...)   *)
Require Import SBase SPrim SDir.
Open Scope mon_scope.

(* ========================================================================================== *)
(* Part (e): the hypotheses of parts (a) and (b) hold for what the scanner model produces         *)
(* ========================================================================================== *)
Section Shapes.
Context {I : Type} (ops : InputOps I).
Variable F : nat.

Lemma bind_ok : forall {A B} (m : @M I A) (f : A -> @M I B) s r,
  bind m f s = SBase.Ok r -> exists a s1, m s = SBase.Ok (a, s1) /\ f a s1 = SBase.Ok r.
Proof.
  intros A B m f s r H. unfold bind in H. destruct (m s) as [[a s1]| | |]; try discriminate.
  exists a, s1. split; [reflexivity|exact H].
Qed.

Ltac binv H := let a := fresh "a" in let s1 := fresh "s" in let E := fresh "E" in
  apply bind_ok in H; destruct H as [a [s1 [E H]]].
Ltac retinv H := unfold ret in H; inversion H; subst; clear H.

Lemma kind_of_named : forall h,
  ((2 <=? N.of_nat (length h)) && (hd 0 h =? 33) && (last h 0 =? 33)) = true -> kind_of h <> HMalformed.
Proof.
  intros h H. apply andb_true_iff in H. destruct H as [H H3]. apply andb_true_iff in H. destruct H as [H1 H2].
  destruct h as [|a [|b r]]; cbn [length] in H1; try (apply N.leb_le in H1; lia).
  cbn [hd] in H2. cbn [kind_of]. unfold bang.
  replace (last (a :: b :: r) 0) with (last (b :: r) 0) in H3 by reflexivity.
  rewrite H2, H3. cbn [andb]. destruct r; discriminate.
Qed.

Ltac casematch H :=
  match type of H with
  | (if ?c then _ else _) _ = _ => destruct c eqn:?
  | (match ?x with _ => _ end) _ = _ => destruct x eqn:?
  end.

Lemma scan_tag_shape : forall s sp t s',
  scan_tag ops F s = SBase.Ok ((sp, t), s') -> exists h sfx, t = TTag h sfx /\ kind_of h <> HMalformed.
Proof.
  intros s sp t s' H. unfold scan_tag in H.
  binv H. binv H. binv H. apply bind_ok in H. destruct H as [hs [sb [HB H]]]. binv H. binv H.
  casematch H; [|discriminate].
  binv H. retinv H. eexists _, _. split; [reflexivity|].
  casematch HB.
  - binv HB. retinv HB. cbn. discriminate.
  - binv HB. casematch HB.
    + binv HB. retinv HB. cbn [fst]. apply kind_of_named. assumption.
    + binv HB. casematch HB; retinv HB; cbn; discriminate.
Qed.

Lemma fetch_alpha_nonempty : forall acc s r s',
  in_fetch_while_alpha ops F acc s = SBase.Ok (r, s') -> acc <> [] -> fst r <> [].
Proof.
  unfold in_fetch_while_alpha. generalize 0. generalize F. intros f. induction f as [|f IH]; intros k acc s r s' H Hne.
  - discriminate.
  - binv H. casematch H.
    + binv H. apply IH in H; [exact H|discriminate].
    + retinv H. exact Hne.
Qed.

Lemma rev_nonempty : forall {A} (l : list A), l <> [] -> rev l <> [].
Proof. intros A l H E. apply H. rewrite <- (rev_involutive l), E. reflexivity. Qed.

Lemma scan_tag_handle_nonempty : forall d mk s h s', scan_tag_handle ops F d mk s = SBase.Ok (h, s') -> h <> [].
Proof.
  intros d mk s h s' H. unfold scan_tag_handle in H.
  binv H. casematch H; [discriminate|].
  binv H. apply bind_ok in H. destruct H as [r [sr [HR H]]]. binv H. binv H.
  casematch H.
  - binv H. retinv H. intros HE. apply app_eq_nil in HE. destruct HE as [_ HE]. discriminate.
  - casematch H; [discriminate|].
    retinv H. apply rev_nonempty. eapply fetch_alpha_nonempty; [exact HR|discriminate].
Qed.

Lemma scan_directive_shape : forall s sp t s',
  scan_directive ops F s = SBase.Ok ((sp, t), s') -> is_directive_tok t = true /\ dir_tok_ok t.
Proof.
  intros s sp t s' H. unfold scan_directive in H.
  binv H. binv H. binv H. apply bind_ok in H. destruct H as [tk [sb [HB H]]]. binv H. binv H.
  casematch H; [|discriminate]. binv H. binv H. retinv H.
  casematch HB.
  - unfold scan_version_directive_value in HB. binv HB. binv HB. binv HB. binv HB.
    casematch HB; [discriminate|]. binv HB. binv HB. binv HB. retinv HB. split; [reflexivity|exact Logic.I].
  - casematch HB.
    + unfold scan_tag_directive_value in HB. binv HB. binv HB.
      apply bind_ok in HB. destruct HB as [h [sh [HH HB]]].
      binv HB. binv HB. binv HB. binv HB. binv HB.
      casematch HB; [|discriminate]. binv HB. retinv HB.
      apply scan_tag_handle_nonempty in HH. destruct h; [contradiction|]. split; [reflexivity|exact Logic.I].
    + binv HB. binv HB. binv HB. retinv HB. split; reflexivity.
Qed.
End Shapes.
