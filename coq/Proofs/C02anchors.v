(* C02, anchor part: anchor ids are handed out as 1, 2, 3, ... (so positive and pairwise distinct over the whole
   stream, a fortiori within a document), and every alias carries an id handed out earlier. *)
From Coq Require Import List NArith Bool Lia.
Import ListNotations.
Require Import Parser Grammar C02base C02rest C02tail.
Open Scope N_scope.

Definition AInv (p : parser) (n : N) : Prop :=
  p_anchor_id p = n + 1 /\ forall name id, assoc name (p_anchors p) = Some id -> 1 <= id <= n.

Definition same_anchors (p q : parser) : Prop := p_anchors q = p_anchors p /\ p_anchor_id q = p_anchor_id p.

Lemma ainv_same p q n : same_anchors p q -> AInv p n -> AInv q n.
Proof. intros [A B] [C D]. split; [congruence|]. intros name id H. rewrite A in H. eauto. Qed.

Lemma same_refl p : same_anchors p p. Proof. split; reflexivity. Qed.
Lemma same_trans p q r : same_anchors p q -> same_anchors q r -> same_anchors p r.
Proof. intros [A B] [C D]. split; congruence. Qed.

Lemma peek_same p t q : peek p = Ok (t, q) -> same_anchors p q.
Proof.
  unfold peek. destruct (p_token p); [intros H; inversion H; apply same_refl|].
  destruct (p_toks p); [discriminate|]. intros H; inversion H; subst. split; reflexivity.
Qed.

Lemma pop_same p q : pop_state p = Ok q -> same_anchors p q.
Proof. unfold pop_state. destruct (p_states p); [discriminate|]. intros H; inversion H; subst. split; reflexivity. Qed.

Definition apost (n : N) (r : res ((event * span) * parser)) : Prop :=
  match r with
  | Ok ((e, _), p') => exists n', aev n e = Some n' /\ AInv p' n'
  | _ => True
  end.

Lemma assoc_set_lookup {B} (k k' : str) (v : B) l :
  assoc k' (assoc_set k v l) = if str_eqb k' k then Some v else assoc k' l.
Proof.
  induction l as [|[a b] l IH]; cbn [assoc_set assoc].
  - destruct (str_eqb k' k); reflexivity.
  - destruct (str_eqb k a) eqn:E.
    + cbn [assoc]. unfold str_eqb in *. destruct (list_eq_dec N.eq_dec k a); [|discriminate]. subst a.
      destruct (list_eq_dec N.eq_dec k' k); reflexivity.
    + cbn [assoc]. rewrite IH. unfold str_eqb in *.
      destruct (list_eq_dec N.eq_dec k' a); [|reflexivity]. subst a.
      destruct (list_eq_dec N.eq_dec k' k); [|reflexivity]. subst k'.
      destruct (list_eq_dec N.eq_dec k k); [discriminate|congruence].
Qed.

Lemma register_ainv p name n : AInv p n ->
  fst (register_anchor p name) = n + 1 /\ AInv (snd (register_anchor p name)) (n + 1).
Proof.
  intros [A B]. unfold register_anchor. cbn [fst snd]. split; [exact A|].
  split; [cbn; lia|]. intros nm id H. cbn in H. rewrite assoc_set_lookup in H.
  destruct (str_eqb nm name); [inversion H; lia|]. apply B in H. lia.
Qed.

(* node_props: returns either no anchor (table unchanged) or the fresh id n+1 *)
Lemma node_props_ainv p t n : AInv p n ->
  match node_props p t with
  | Ok (aid, _, q) => (aid = 0 /\ AInv q n) \/ (aid = n + 1 /\ AInv q (n + 1))
  | _ => True
  end.
Proof.
  intros HA. unfold node_props. destruct t as [sp tk]. destruct tk; try (left; split; [reflexivity|exact HA]).
  - (* anchor first *)
    match goal with |- context [register_anchor (skip p) ?nm] =>
      destruct (register_ainv (skip p) nm n (ainv_same _ _ _ (conj eq_refl eq_refl) HA)) as [Hid HA'];
      destruct (register_anchor (skip p) nm) as [id q0] end.
    cbn [fst snd] in Hid, HA'. subst id.
    destruct (peek q0) as [[[sp2 tk2] q1]| |] eqn:E; try exact I.
    pose proof (ainv_same _ _ _ (peek_same _ _ _ E) HA') as H1.
    destruct tk2; try (right; split; [reflexivity|exact H1]).
    destruct (resolve_tag _ _ _ _); try exact I. right. split; [reflexivity|].
    eapply ainv_same; [|exact H1]. split; reflexivity.
  - (* tag first *)
    destruct (resolve_tag _ _ _ _); try exact I.
    destruct (peek (skip p)) as [[[sp2 tk2] q1]| |] eqn:E; try exact I.
    assert (H1 : AInv q1 n).
    { eapply ainv_same; [exact (peek_same _ _ _ E)|]. eapply ainv_same; [|exact HA]. split; reflexivity. }
    destruct tk2; try (left; split; [reflexivity|exact H1]).
    match goal with |- context [register_anchor (skip q1) ?nm] =>
      destruct (register_ainv (skip q1) nm n (ainv_same _ _ _ (conj eq_refl eq_refl) H1)) as [Hid HA'];
      destruct (register_anchor (skip q1) nm) as [id q2] end.
    cbn [fst snd] in Hid, HA'. subst id.
    right. split; [reflexivity|exact HA'].
Qed.

Lemma aev_fresh n aid : (aid = 0 \/ aid = n + 1) ->
  forall mk, (forall a, mk a = EScalar [] Plain a None \/ True) -> True.
Proof. trivial. Qed.

Lemma fresh_ok n aid n' : (aid = 0 /\ n' = n) \/ (aid = n + 1 /\ n' = n + 1) ->
  (if aid =? 0 then Some n else if aid =? n + 1 then Some (n + 1) else None) = Some n'.
Proof.
  intros [[-> ->]|[-> ->]]; [reflexivity|].
  destruct (N.eqb_spec (n + 1) 0); [lia|]. rewrite N.eqb_refl. reflexivity.
Qed.

Lemma node_content_apost p aid tg b i n n' :
  (aid = 0 /\ n' = n) \/ (aid = n + 1 /\ n' = n + 1) -> AInv p n' -> apost n (node_content p aid tg b i).
Proof.
  intros Hf HA. unfold node_content.
  destruct (peek p) as [[[sp tk] q]| |] eqn:E; try exact I.
  pose proof (ainv_same _ _ _ (peek_same _ _ _ E) HA) as HQ.
  assert (Gev : forall e, (e = EScalar [] Plain aid tg \/ (exists v st, e = EScalar v st aid tg) \/ e = ESequenceStart aid tg \/ e = EMappingStart aid tg)
                          -> aev n e = Some n').
  { intros e [->|[[v [st ->]]|[->| ->]]]; cbn [aev]; apply fresh_ok; exact Hf. }
  assert (Gok : forall e sp0 q', (e = EScalar [] Plain aid tg \/ (exists v st, e = EScalar v st aid tg) \/ e = ESequenceStart aid tg \/ e = EMappingStart aid tg) ->
                  same_anchors q q' -> apost n (Ok ((e, sp0), q'))).
  { intros e sp0 q' He Hs. cbn. exists n'. split; [apply Gev; exact He|]. eapply ainv_same; eauto. }
  assert (Gpop : forall e sp0 (k : parser -> parser) q0,
             (e = EScalar [] Plain aid tg \/ (exists v st, e = EScalar v st aid tg) \/ e = ESequenceStart aid tg \/ e = EMappingStart aid tg) ->
             same_anchors q q0 -> (forall x, same_anchors x (k x)) ->
             apost n (do x <- pop_state q0; Ok ((e, sp0), k x))).
  { intros e sp0 k q0 He Hs Hk. destruct (pop_state q0) as [x| |] eqn:P; try exact I.
    apply Gok; [exact He|]. eapply same_trans; [exact Hs|]. eapply same_trans; [exact (pop_same _ _ P)|apply Hk]. }
  unfold empty_or_err, empty_scalar_with.
  destruct tk; try destruct i; try destruct b; try destruct (has_props aid tg); try exact I;
    first [ apply Gok; [auto 6 | split; reflexivity]
          | apply Gpop; [eauto 8 | apply same_refl | intros; split; reflexivity] ].
Qed.

Lemma parse_node_apost p b i n : AInv p n -> apost n (parse_node p b i).
Proof.
  intros HA. unfold parse_node.
  destruct (peek p) as [[[sp tk] q]| |] eqn:E; try exact I.
  pose proof (ainv_same _ _ _ (peek_same _ _ _ E) HA) as HQ.
  destruct tk;
    try (match goal with |- context [node_props q ?t] =>
           pose proof (node_props_ainv q t n HQ) as HP;
           destruct (node_props q t) as [[[aid tg] q2]| |] end; [|exact I|exact I];
         destruct HP as [[-> H2]|[-> H2]];
         [ apply (node_content_apost q2 0 tg b i n n); auto | apply (node_content_apost q2 (n + 1) tg b i n (n + 1)); auto ]).
  (* alias *)
  destruct (pop_state q) as [x| |] eqn:P; try exact I.
  cbn [p_anchors skip set_tok].
  match goal with |- context [assoc ?nm ?tbl] => change tbl with (p_anchors x); destruct (assoc nm (p_anchors x)) as [id|] eqn:A; [|exact I] end.
  pose proof (ainv_same _ _ _ (pop_same _ _ P) HQ) as HX.
  cbn. exists n. destruct HX as [X1 X2]. pose proof (X2 _ _ A) as R.
  split.
  - assert (T : (1 <=? id) && (id <=? n) = true) by (apply andb_true_iff; split; apply N.leb_le; lia). rewrite T. reflexivity.
  - split; [exact X1|exact X2].
Qed.

(* ---------------- every state function ---------------- *)
Lemma process_directives_same fuel : forall p vs tags q,
  process_directives fuel p vs tags = Ok q -> same_anchors p q.
Proof.
  induction fuel as [|fuel IH]; intros p vs tags q; cbn [process_directives]; [discriminate|].
  destruct (peek p) as [[[sp tk] p1]| |] eqn:E; try discriminate.
  pose proof (peek_same _ _ _ E) as S1.
  destruct tk; try (intros H; inversion H; subst; eapply same_trans; [exact S1|split; reflexivity]).
  - destruct vs; [discriminate|]. intros H. apply IH in H. eapply same_trans; [exact S1|].
    eapply same_trans; [|exact H]. split; reflexivity.
  - destruct (negb (is_empty_str h) && has_key h tags); [discriminate|]. intros H. apply IH in H.
    eapply same_trans; [exact S1|]. eapply same_trans; [|exact H]. split; reflexivity.
Qed.

Lemma skip_document_ends_same fuel : forall p q, skip_document_ends fuel p = Ok q -> same_anchors p q.
Proof.
  induction fuel as [|fuel IH]; intros p q; cbn [skip_document_ends]; [discriminate|].
  destruct (peek p) as [[[sp tk] p1]| |] eqn:E; try discriminate.
  pose proof (peek_same _ _ _ E) as S1.
  destruct tk; try (intros H; inversion H; subst; exact S1).
  intros H. apply IH in H. eapply same_trans; [exact S1|]. eapply same_trans; [|exact H]. split; reflexivity.
Qed.

(* AInv for a parser obtained from one that has it by operations that do not touch the anchor table *)
Ltac ainv_from H := eapply ainv_same; [|exact H]; split; reflexivity.

(* the events that never carry an anchor id *)
Lemma aev_plain n e : match e with EAlias _ | EScalar _ _ _ _ | ESequenceStart _ _ | EMappingStart _ _ => False | _ => True end ->
  aev n e = Some n.
Proof. destruct e; cbn; tauto. Qed.
Lemma aev_empty n : aev n empty_scalar = Some n.
Proof. reflexivity. Qed.
Lemma aev_map0 n : aev n (EMappingStart 0 None) = Some n.
Proof. reflexivity. Qed.

Ltac afin n :=
  first
    [ exact I
    | (* a node starts under a pushed continuation *)
      match goal with
      | HQ : AInv ?q n |- apost n (parse_node (push_state ?q _) _ _) => apply parse_node_apost; ainv_from HQ
      | HQ : AInv ?q n |- apost n (parse_node (push_state (set_state ?q _) _) _ _) => apply parse_node_apost; ainv_from HQ
      | HQ : AInv ?q n |- apost n (parse_node ?q _ _) => apply parse_node_apost; exact HQ
      end
    | (* an event without anchor id, state derived from a parser that satisfies AInv *)
      match goal with
      | HQ : AInv ?q n |- apost n (Ok ((?e, _), _)) =>
          cbn [apost]; exists n; split; [first [reflexivity | apply aev_plain; exact I] | ainv_from HQ]
      end
    | (* ... after popping the continuation *)
      match goal with
      | HQ : AInv ?q n |- apost n (do x <- pop_state ?q; _) =>
          let P := fresh "P" in let x := fresh "x" in
          destruct (pop_state q) as [x| |] eqn:P; [|exact I|exact I];
          let HX := fresh "HX" in pose proof (ainv_same _ _ _ (pop_same _ _ P) HQ) as HX;
          cbn [apost]; exists n; split; [first [reflexivity | apply aev_plain; exact I] | ainv_from HX]
      end ].

(* destruct the next peek, keeping AInv for the new parser *)
Ltac apeek n :=
  match goal with
  | HQ : AInv ?q n |- context [peek ?q] =>
      let E := fresh "E" in let sp := fresh "sp" in let tk := fresh "tk" in let q' := fresh "q" in
      destruct (peek q) as [[[sp tk] q']| |] eqn:E; [|exact I|exact I];
      let H := fresh "HQ" in pose proof (ainv_same _ _ _ (peek_same _ _ _ E) HQ) as H
  | HQ : AInv ?q n |- context [peek (skip ?q)] =>
      let H0 := fresh "HQ" in assert (H0 : AInv (skip q) n) by (ainv_from HQ); apeek n
  end.

Ltac acrunch n :=
  cbn beta iota;
  lazymatch goal with
  | |- apost n (match peek _ with _ => _ end) => apeek n; acrunch n
  | |- apost n (match (match peek _ with _ => _ end) with _ => _ end) => apeek n; acrunch n
  | |- apost n (match (match ?tk with _ => _ end) with _ => _ end) => is_var tk; destruct tk; acrunch n
  | |- apost n (match ?tk with _ => _ end) => first [ is_var tk; destruct tk; acrunch n | afin n ]
  | |- apost n (if ?b then _ else _) => is_var b; destruct b; acrunch n
  | |- _ => afin n
  end.

Section States.
Variable n : N.

Lemma a_block_mapping_key p first : AInv p n -> apost n (block_mapping_key p first).
Proof. intros HQ. unfold block_mapping_key. destruct first; acrunch n. Qed.
Lemma a_block_mapping_value p : AInv p n -> apost n (block_mapping_value p).
Proof. intros HQ. unfold block_mapping_value. acrunch n. Qed.
Lemma a_flow_mapping_key p first : AInv p n -> apost n (flow_mapping_key p first).
Proof. intros HQ. unfold flow_mapping_key. destruct first; acrunch n. Qed.
Lemma a_flow_mapping_value p empty : AInv p n -> apost n (flow_mapping_value p empty).
Proof. intros HQ. unfold flow_mapping_value. destruct empty; acrunch n. Qed.
Lemma a_flow_sequence_entry p first : AInv p n -> apost n (flow_sequence_entry p first).
Proof. intros HQ. unfold flow_sequence_entry. destruct first; acrunch n. Qed.
Lemma a_block_sequence_entry p first : AInv p n -> apost n (block_sequence_entry p first).
Proof. intros HQ. unfold block_sequence_entry. destruct first; acrunch n. Qed.
Lemma a_indentless_sequence_entry p : AInv p n -> apost n (indentless_sequence_entry p).
Proof. intros HQ. unfold indentless_sequence_entry. acrunch n. Qed.
Lemma a_fsem_key p : AInv p n -> apost n (flow_sequence_entry_mapping_key p).
Proof. intros HQ. unfold flow_sequence_entry_mapping_key. acrunch n. Qed.
Lemma a_fsem_value p : AInv p n -> apost n (flow_sequence_entry_mapping_value p).
Proof. intros HQ. unfold flow_sequence_entry_mapping_value. acrunch n. Qed.
Lemma a_fsem_end p m : AInv p n -> apost n (flow_sequence_entry_mapping_end p m).
Proof. intros HQ. unfold flow_sequence_entry_mapping_end. acrunch n. Qed.
Lemma a_stream_start p : AInv p n -> apost n (stream_start p).
Proof. intros HQ. unfold stream_start. acrunch n. Qed.
Lemma a_document_content p : AInv p n -> apost n (document_content p).
Proof. intros HQ. unfold document_content. acrunch n. Qed.

Lemma a_explicit_document_start p : AInv p n -> apost n (explicit_document_start p).
Proof.
  intros HQ. unfold explicit_document_start.
  destruct (process_directives _ p false []) as [q| |] eqn:D; try exact I.
  pose proof (ainv_same _ _ _ (process_directives_same _ _ _ _ _ D) HQ) as HQ1.
  acrunch n.
Qed.

Lemma a_document_start p implicit : AInv p n -> apost n (document_start p implicit).
Proof.
  intros HQ. unfold document_start.
  destruct (skip_document_ends _ p) as [q| |] eqn:D; try exact I.
  pose proof (ainv_same _ _ _ (skip_document_ends_same _ _ _ D) HQ) as HQ1.
  apeek n.
  destruct tk; try (apply a_explicit_document_start; assumption);
    try (destruct implicit; [|apply a_explicit_document_start; assumption];
         match goal with |- context [process_directives ?f ?q0 false []] =>
           destruct (process_directives f q0 false []) as [q1| |] eqn:D1; try exact I;
           match goal with H : AInv q0 n |- _ =>
             pose proof (ainv_same _ _ _ (process_directives_same _ _ _ _ _ D1) H) as HQ2 end end;
         afin n).
  afin n.
Qed.

Lemma a_document_end p : AInv p n -> apost n (document_end p).
Proof.
  intros HQ. unfold document_end. apeek n.
  (* after the anchors are cleared the invariant holds for the same counter *)
  assert (Hclr : forall q0, AInv q0 n -> AInv (set_anchors (if p_keep_tags q0 then q0 else set_tags q0 []) [] (p_anchor_id (if p_keep_tags q0 then q0 else set_tags q0 []))) n).
  { intros q0 [A B]. split; [destruct (p_keep_tags q0); exact A|]. intros nm id H. cbn in H. discriminate. }
  destruct tk; cbn beta iota;
    first [ (* explicit end *)
            match goal with HQ0 : AInv ?q0 n |- apost n (Ok ((EDocumentEnd, _), set_state (set_anchors _ _ _) _)) =>
              cbn [apost]; exists n; split; [reflexivity|]
            end; fail
          | idtac ].
  all: try (match goal with |- apost n (Ok _) => cbn [apost]; exists n; split; [reflexivity|] end).
  all: try (match goal with HQ0 : AInv ?q0 n |- AInv (set_state (set_anchors (if p_keep_tags (skip ?q0) then _ else _) _ _) _) n =>
              pose proof (Hclr (skip q0) ltac:(ainv_from HQ0)) as HC; ainv_from HC end).
  all: match goal with
       | HQ0 : AInv ?q0 n |- context [peek (set_anchors ?X [] ?Y)] =>
           pose proof (Hclr q0 HQ0) as HC;
           destruct (peek (set_anchors X [] Y)) as [[[sp2 tk2] q2]| |] eqn:E2; [|exact I|exact I];
           pose proof (ainv_same _ _ _ (peek_same _ _ _ E2) HC) as HQ2;
           destruct tk2; try exact I; cbn [apost]; exists n; (split; [reflexivity|ainv_from HQ2])
       end.
Qed.

Theorem state_machine_apost p : AInv p n -> p_state p <> SEnd -> apost n (state_machine p).
Proof.
  intros HA HE. unfold state_machine. destruct (p_state p);
    first [ congruence
          | apply a_stream_start; assumption | apply a_document_start; assumption | apply a_document_content; assumption
          | apply a_document_end; assumption | apply parse_node_apost; assumption
          | apply a_block_mapping_key; assumption | apply a_block_mapping_value; assumption
          | apply a_block_sequence_entry; assumption | apply a_flow_sequence_entry; assumption
          | apply a_flow_mapping_key; assumption | apply a_flow_mapping_value; assumption
          | apply a_indentless_sequence_entry; assumption | apply a_fsem_key; assumption
          | apply a_fsem_value; assumption | apply a_fsem_end; assumption ].
Qed.
End States.
