(* C12/C14: facts about the position recount [pos_go]. *)
From Coq Require Import List NArith Bool Arith Lia.
Import ListNotations.
Require Import Positions.
Open Scope N_scope.

(* the position after a CR-free prefix, computed by a plain left-to-right count *)
Fixpoint count_from (pre : list N) (line col : N) : N * N :=
  match pre with
  | [] => (line, col)
  | c :: r => if c =? 10 then count_from r (line + 1) 0 else count_from r line (col + 1)
  end.

Lemma pos_go_count s : Forall (fun c => c <> 13) s -> forall n line col,
  pos_go s n line col = count_from (firstn n s) line col.
Proof.
  induction 1 as [|c r Hc Hr IH]; intros n line col.
  - destruct n; reflexivity.
  - destruct n as [|n]; [reflexivity|]. cbn [pos_go firstn count_from].
    destruct (N.eqb_spec c 13) as [->|_]; [congruence|].
    destruct (c =? 10); apply IH.
Qed.

(* on one line, the column is the number of characters since its start *)
Lemma count_from_nobreak pre : Forall (fun c => c <> 10) pre -> forall line col,
  count_from pre line col = (line, col + N.of_nat (length pre)).
Proof.
  induction 1 as [|c r Hc Hr IH]; intros line col; cbn [count_from length].
  - f_equal. lia.
  - destruct (N.eqb_spec c 10) as [->|_]; [congruence|]. rewrite IH. f_equal. lia.
Qed.

Lemma count_from_app a b line col :
  count_from (a ++ b) line col = let '(l, c) := count_from a line col in count_from b l c.
Proof.
  revert line col; induction a as [|x a IH]; intros line col; cbn [app count_from]; [reflexivity|].
  destruct (x =? 10); apply IH.
Qed.

(* complete lines move the line counter by one each and reset the column *)
Definition is_line (l : list N) : Prop := exists body, l = body ++ [10] /\ Forall (fun c => c <> 10) body.
Lemma count_from_lines ls : Forall is_line ls -> forall line col,
  count_from (concat ls) line col = (if (length ls =? 0)%nat then (line, col) else (line + N.of_nat (length ls), 0)).
Proof.
  induction 1 as [|l ls [body [-> Hb]] Hls IH]; intros line col; [reflexivity|].
  cbn [concat length]. rewrite count_from_app, count_from_app, (count_from_nobreak body Hb).
  cbn [count_from]. change (10 =? 10) with true. cbv iota. rewrite IH.
  destruct ls as [|l2 ls]; cbn [length Nat.eqb]; f_equal; lia.
Qed.

Lemma in_firstn {A} (x : A) n l : In x (firstn n l) -> In x l.
Proof.
  revert l; induction n as [|n IH]; intros l H; [destruct H|]. destruct l as [|y l]; [destruct H|].
  cbn in H. destruct H as [->|H]; [left; reflexivity|right; apply IH; exact H].
Qed.

(* The statement in the property's words: in a CR-free input made of [ls] complete lines followed by a partial
   line [cur], the position of the j-th character of [cur] is line 1 + |ls|, column j. *)
Theorem pos_line_col ls cur rest j :
  Forall is_line ls -> Forall (fun c => c <> 13) (concat ls ++ cur ++ rest) ->
  Forall (fun c => c <> 10) cur -> (j <= length cur)%nat ->
  pos_at (concat ls ++ cur ++ rest) (N.of_nat (length (concat ls) + j)) = (1 + N.of_nat (length ls), N.of_nat j).
Proof.
  intros Hls Hcr Hcur Hj. unfold pos_at. rewrite Nat2N.id. rewrite (pos_go_count _ Hcr).
  rewrite firstn_app_2. rewrite count_from_app, (count_from_lines ls Hls).
  assert (Hf : firstn j (cur ++ rest) = firstn j cur).
  { rewrite firstn_app. replace (j - length cur)%nat with 0%nat by lia. cbn. apply app_nil_r. }
  rewrite Hf.
  assert (Hn : Forall (fun c => c <> 10) (firstn j cur)).
  { apply Forall_forall. intros x Hx. rewrite Forall_forall in Hcur. apply Hcur. eapply in_firstn; eauto. }
  destruct ls as [|l ls]; cbn [length Nat.eqb]; rewrite (count_from_nobreak _ Hn), firstn_length_le by lia; f_equal; lia.
Qed.

