(* C15 prefix stability of the scanner (see ScanPrefix.v): the family of PLAIN SCALARS (Model/SScalar.v) under the
   state relation [SH d] of ScanPrefix.v (side 1 reads a text that ends, side 2 the same text followed by "...\n" ++ d).

     scan_plain_scalar_ok : forall d, shf_scan_plain_scalar d

   Port of ScanShiftPlain.v.  The genuinely new case: a plain scalar that ends at the end of input on side 1 ends at
   the document marker "..." in column 0 on side 2, with the same text and the same end mark (the head of the word
   loop, case [rn u1 0 = 0]).  Inside a word side 1 is never at its end (only characters that are neither breaks nor
   NUL have been consumed since the last test); in plain_blanks the classes is_blank / is_break do not tell NUL
   from '.'.  TWO fuels everywhere. *)
From Coq Require Import List NArith ZArith Bool Arith Lia.
Import ListNotations.
Require Import Parser SBase SPrim SDir SScalar SFetch ScanPrefix ScanPrefixPrim.
Local Open Scope nat_scope.

(* ---------------- the main loop of scan_plain_scalar (a local [fix] in the model), restated, generic in ops ---- *)
Section Go.
Context {I : Type} (ops : InputOps I).
Variables (F : nat) (indent : Z) (start : marker).
Local Open Scope N_scope.
Local Open Scope mon_scope.
Fixpoint plain_go (f : nat) (acc : list chr) (lb : bool) (tb : N) (ws : list chr) (endm : marker) {struct f}
    : @M I (list chr * marker) :=
  match f with
  | O => oof
  | S f =>
    look ops 4 ;;;
    s <- get ;;
    di <- (if sc_lws s && (m_col (sc_mark s) =? 0) then next_is_document_indicator ops else ret false) ;;
    c <- peek ops ;;
    if di || (c =? 35) then ret (acc, endm) else
    nc <- peekn ops 1 ;;
    let fl := 0 <? sc_flow_level s in
    if (match acc with [] => true | _ => false end) && fl && (c =? 45) && is_flow nc then fail 76 (sc_mark s) else
    cb <- (if is_blank_or_breakz c then ret false else next_can_be_plain_scalar ops fl) ;;
    r <- (if cb then
            let '(acc, lb, tb, ws) :=
              if sc_lws s then
                (if negb lb then (nls tb acc, false, 0, ws)
                 else if tb =? 0 then (32 :: acc, false, 0, ws)
                 else (nls tb acc, false, 0, ws))
              else (ws ++ acc, lb, tb, []) in
            modify (set_lws false) ;;;
            skip_non_blank ops ;;;
            look ops (bufmaxlen ops) ;;;
            acc <- plain_chunk ops F 0 (c :: acc) ;;
            m <- mark ;; ret (acc, lb, tb, ws, m)
          else ret (acc, lb, tb, ws, endm)) ;;
    let '(acc, lb, tb, ws, endm) := r in
    c <- peek ops ;;
    if negb (is_blank c || is_break c) then ret (acc, endm) else
    look ops 2 ;;;
    r <- plain_blanks ops F F indent start lb tb ws ;;
    let '(lb, tb, ws) := r in
    s <- get ;;
    if (sc_flow_level s =? 0) && (Z.of_N (m_col (sc_mark s)) <? indent)%Z then ret (acc, endm)
    else plain_go f acc lb tb ws endm
  end.

End Go.

Local Open Scope mon_scope.

Lemma scan_plain_scalar_eq {I} (ops : InputOps I) F :
  scan_plain_scalar ops F =
  (unroll_non_block_indents ;;;
   s0 <- get ;;
   let indent := (sc_indent s0 + 1)%Z in
   let start := sc_mark s0 in
   if ((0 <? sc_flow_level s0)%N && (Z.of_N (m_col start) <? indent)%Z)%bool then fail 75%N start else
   r <- plain_go ops F indent start F [] false 0%N [] start ;;
   s <- get ;;
   (if sc_lws s then allow_simple_key else ret tt) ;;;
   match fst r with
   | [] => fail 78%N start
   | _ => ret ({| sp_start := start; sp_end := snd r |}, TScalar Plain (rev (fst r)))
   end).
Proof. reflexivity. Qed.

(* one round of the chunked loop *)
Lemma plain_chunk_S {I} (ops : InputOps I) fuel j acc :
  plain_chunk ops (S fuel) j acc =
  (if Nat.leb (bufmaxlen ops - 1) j then look ops (bufmaxlen ops) ;;; plain_chunk ops fuel 0 acc
   else
     b <- next_is ops is_blank_or_breakz ;; s <- get ;;
     cb <- (if b then ret false else next_can_be_plain_scalar ops (0 <? sc_flow_level s)%N) ;;
     if (b || negb cb)%bool then ret acc
     else c <- peek ops ;; skip_non_blank ops ;;; plain_chunk ops fuel (S j) (c :: acc)).
Proof. reflexivity. Qed.

Lemma docind_end (s : bst) : rm s = [] -> docind_val s = false.
Proof. intros E. unfold docind_val, n3are, rn. rewrite E. reflexivity. Qed.
Lemma atend_end (s : bst) : rm s = [] -> atend s = true.
Proof. intros E. unfold atend. rewrite E. reflexivity. Qed.
Lemma atend_ne (s : bst) : rm s <> [] -> atend s = false.
Proof. intros H. unfold atend. destruct (rm s); [exfalso; apply H; reflexivity|reflexivity]. Qed.
Lemma rn0_ne (s : bst) : rn s 0 <> 0%N -> rm s <> [].
Proof. intros H E. apply H. unfold rn. rewrite E. reflexivity. Qed.

Section BrkPlain.
Variable d : list chr.
Local Notation bwp := (swp d).

(* what the word loop returns: the same (reversed) text, the same end mark *)
Definition PR (r1 r2 : list chr * marker) : Prop := fst r1 = fst r2 /\ MS d (snd r1) (snd r2).

(* ---------------- plain_chunk: lockstep, the same chunk counter, two fuels; side 1 is not at its end ------------ *)
Lemma shf_plain_chunk : forall f1 f2 j acc s1 s2, SH d s1 s2 -> rm s1 <> [] ->
  bwp (plain_chunk sops f1 j acc) (plain_chunk sops f2 j acc) (bpost d eq) s1 s2.
Proof.
  induction f1 as [|f1 IH]; intros f2 j acc s1 s2 H HNE; [exact I|].
  destruct f2 as [|f2]; [apply bwp_oof_r|].
  rewrite (plain_chunk_S sops f1), (plain_chunk_S sops f2).
  destruct (Nat.leb (bufmaxlen sops - 1) j).
  { (* the refresh: the same [look 128] on both sides *)
    apply bwp_bind. apply (bwp_look d); [exact H|]. intros t1 t2 HT RT _ _ _ _. apply IH; [exact HT|].
    exact (SH_ne_eq s1 t1 HNE RT). }
  apply bwp_bind. apply (bwp_next_is_in d); [exact H|exact HNE|]. cbv beta.
  apply bwp_bind. apply bwp_get. cbv beta. sh_sync H.
  destruct (is_blank_or_breakz (rn s1 0)) eqn:Eb.
  - apply bwp_bind. apply bwp_ret. cbn [orb]. apply (bwp_ret_bpost d); [reflexivity|exact H].
  - assert (N0 : nbz (rn s1 0)) by nbz_by Eb.
    apply bwp_bind. apply (bwp_next_can_be_plain_scalar d); [exact H|exact N0|]. cbn [orb].
    destruct (plain_ok_val (0 <? sc_flow_level s1)%N s1); cbn [negb].
    + apply bwp_bind. apply (bwp_peek d); [exact H|]. cbv beta. rewrite (b1_nbz _ N0).
      apply bwp_bind. apply (bwp_skip_non_blank d); [exact H|exact N0|]. intros t1 t2 HT RT.
      apply IH; [exact HT|]. exact (SH_ne_tl d s1 s2 t1 H N0 RT).
    + apply (bwp_ret_bpost d); [reflexivity|exact H].
Qed.

(* ---------------- plain_blanks: blanks in lockstep, a line break is one step on both sides ----------------
   exit: the next character is neither a blank nor a break: possibly NUL (the end of side 1) against '.' *)
Lemma shf_plain_blanks F1 F2 indent : forall f1 f2 start1 start2 lb tb ws s1 s2, SH d s1 s2 -> MS d start1 start2 ->
  bwp (plain_blanks sops F1 f1 indent start1 lb tb ws) (plain_blanks sops F2 f2 indent start2 lb tb ws)
      (bpost d eq) s1 s2.
Proof.
  induction f1 as [|f1 IH]; intros f2 start1 start2 lb tb ws s1 s2 H HM; [exact I|].
  destruct f2 as [|f2]; [apply bwp_oof_r|]. cbn [plain_blanks].
  apply bwp_bind. apply (bwp_peek d); [exact H|]. cbv beta. b1_norm.
  destruct (is_blank (rn s1 0)) eqn:Ebl.
  - assert (N0 : nbz (rn s1 0)) by nbz_by Ebl.
    rewrite (b1_nbz _ N0).
    assert (Hblank : forall ws',
              bwp (skip_blank sops ;;; look sops 2 ;;; plain_blanks sops F1 f1 indent start1 lb tb ws')
                  (skip_blank sops ;;; look sops 2 ;;; plain_blanks sops F2 f2 indent start2 lb tb ws')
                  (bpost d eq) s1 s2).
    { intros ws'. apply bwp_bind. apply (bwp_skip_blank d); [exact H|exact N0|]. intros u1 u2 HU _.
      apply bwp_bind. apply (bwp_look d); [exact HU|]. intros v1 v2 HV _ _ _ _ _. apply IH; assumption. }
    apply bwp_bind. apply bwp_get. cbv beta. sh_sync H.
    destruct (negb (sc_lws s1)); [apply Hblank|].
    destruct ((Z.of_N (m_col (sc_mark s1)) <? indent)%Z && (rn s1 0 =? 9)%N); [|apply Hblank].
    (* a tab in the indentation: side 1 is not at its end behind the white space *)
    apply bwp_bind. eapply bwp_mono; [apply (skip_ws_to_eol_ok d); exact H|]. intros a1 u1 a2 u2 (<- & HU & HNE).
    assert (NEU : rm u1 <> []) by (apply HNE; apply nbz_ne; exact N0).
    apply bwp_bind. apply (bwp_next_is_in d); [exact HU|exact NEU|]. cbv beta.
    destruct (is_breakz (rn u1 0)); [|apply bwp_fail; exact HM].
    apply bwp_bind. apply (bwp_look d); [exact HU|]. intros v1 v2 HV _ _ _ _ _. apply IH; assumption.
  - destruct (is_break (rn s1 0)) eqn:Ek.
    2:{ apply (bwp_ret_bpost d); [reflexivity|exact H]. }
    apply bwp_bind. apply bwp_get. cbv beta. sh_sync H.
    destruct (sc_lws s1).
    + apply bwp_bind. apply (bwp_skip_break d); [exact H|]. intros u1 u2 HU _ _.
      apply bwp_bind. apply (bwp_look d); [exact HU|]. intros v1 v2 HV _ _ _ _ _. apply IH; assumption.
    + apply bwp_bind. apply (bwp_skip_break d); [exact H|]. intros u1 u2 HU _ _.
      apply bwp_bind. apply (bwp_modify_br d); [apply SH_set_lws; [exact HU|left; reflexivity]|reflexivity|].
      intros w1 w2 HW _.
      apply bwp_bind. apply (bwp_look d); [exact HW|]. intros v1 v2 HV _ _ _ _ _. apply IH; assumption.
Qed.

(* ---------------- the word loop ----------------
   At the head: either side 1 is at the end of its input (column 0, "leading white space" set; side 2 sees the
   document marker) and both sides return what they have, or both sides read the same character. *)
Lemma shf_plain_go F1 F2 indent start1 start2 : MS d start1 start2 ->
  forall f1 f2 acc lb tb ws endm1 endm2 s1 s2, SH d s1 s2 -> MS d endm1 endm2 ->
  bwp (plain_go sops F1 indent start1 f1 acc lb tb ws endm1) (plain_go sops F2 indent start2 f2 acc lb tb ws endm2)
      (bpost d PR) s1 s2.
Proof.
  intros HS. induction f1 as [|f1 IH]; intros f2 acc lb tb ws endm1 endm2 s1 s2 H HE; [exact I|].
  destruct f2 as [|f2]; [apply bwp_oof_r|]. cbn [plain_go].
  apply bwp_bind. apply (bwp_look d); [exact H|]. intros u1 u2 HU RU _ _ _ _.
  apply bwp_bind. apply bwp_get. cbv beta. sh_sync HU.
  destruct (N.eq_dec (rn u1 0) 0) as [E0|NE].
  { (* THE END OF INPUT on side 1: side 2 stops at the marker line, side 1 at NUL, with the same result *)
    pose proof (SH_at_end HU E0) as EM. destruct (SH_end_col HU E0) as [EC EL].
    rewrite EL, EC, N.eqb_refl. cbn [andb].
    apply bwp_bind. apply (bwp_next_is_document_indicator d); [exact HU|].
    rewrite (docind_end _ EM), (atend_end _ EM). cbn [orb].
    apply bwp_bind. apply (bwp_peek d); [exact HU|]. rewrite E0. cbv beta.
    replace (0 =? 35)%N with false by reflexivity. cbn [orb]. cbv iota.
    eapply bwp_step_l; [apply peekn_ok|]. cbv beta zeta.
    replace (0 =? 45)%N with false by reflexivity. rewrite andb_false_r. cbn [andb]. cbv iota.
    change (is_blank_or_breakz 0%N) with true. cbv iota.
    eapply bwp_step_l; [reflexivity|]. cbv beta iota.
    eapply bwp_step_l; [reflexivity|]. cbv beta iota.
    eapply bwp_step_l; [apply peek_ok|]. rewrite E0.
    change (negb (is_blank 0%N || is_break 0%N)) with true. cbv iota.
    apply (bwp_ret_bpost d); [split; [reflexivity|exact HE]|exact HU]. }
  pose proof (rn0_ne u1 NE) as HNE.
  apply bwp_bind.
  match goal with |- swp _ _ _ ?Q _ _ => assert (HQ : forall di, Q di u1 di u2) end.
  2:{ destruct (sc_lws u1 && (m_col (sc_mark u1) =? 0)%N);
      [apply (bwp_next_is_document_indicator d); [exact HU|rewrite (atend_ne _ HNE), orb_false_r; apply HQ]
      |apply bwp_ret; exact (HQ false)]. }
  intros di. cbv beta.
  apply bwp_bind. apply (bwp_peek d); [exact HU|]. cbv beta. rewrite (b1_other _ NE).
  destruct (di || (rn u1 0 =? 35)%N); [apply (bwp_ret_bpost d); [split; [reflexivity|exact HE]|exact HU]|].
  apply bwp_bind. apply (bwp_peekn_lt3 d); [exact HU|lia|]. cbv beta zeta. b1_norm.
  match goal with |- swp _ (if ?b then _ else _) _ _ _ _ => destruct b end; [apply bwp_err_l|].
  apply bwp_bind.
  match goal with |- swp _ _ _ ?Q _ _ => assert (HQ : forall cb, (cb = true -> nbz (rn u1 0)) -> Q cb u1 cb u2) end.
  2:{ destruct (is_blank_or_breakz (rn u1 0)) eqn:Ebz;
      [apply bwp_ret; apply (HQ false); discriminate|].
      assert (NU : nbz (rn u1 0)) by nbz_by Ebz.
      apply (bwp_next_can_be_plain_scalar d); [exact HU|exact NU|apply HQ; intros _; exact NU]. }
  intros cb Hcb. cbv beta.
  apply bwp_bind.
  (* what happens after the word has been consumed *)
  match goal with |- swp _ _ _ ?Q _ _ =>
    assert (HQ : forall r m1 m2 v1 v2, SH d v1 v2 -> MS d m1 m2 -> Q (r, m1) v1 (r, m2) v2) end.
  { intros [[[acc' lb'] tb'] ws'] m1 m2 v1 v2 HV HM. cbv beta iota.
    apply bwp_bind. apply (bwp_peek d); [exact HV|]. cbv beta. b1_norm.
    destruct (negb (is_blank (rn v1 0) || is_break (rn v1 0)));
      [apply (bwp_ret_bpost d); [split; [reflexivity|exact HM]|exact HV]|].
    apply bwp_bind. apply (bwp_look d); [exact HV|]. intros w1 w2 HW _ _ _ _ _.
    eapply (bwp_call_eq d); [apply shf_plain_blanks; [exact HW|exact HS]|]. intros [[lb2 tb2] ws2] x1 x2 HX.
    cbv beta iota.
    apply bwp_bind. apply bwp_get. cbv beta. sh_sync HX.
    match goal with |- swp _ (if ?b then _ else _) _ _ _ _ => destruct b end;
      [apply (bwp_ret_bpost d); [split; [reflexivity|exact HM]|exact HX]|].
    apply IH; assumption. }
  destruct cb; [|apply bwp_ret; exact (HQ (acc, lb, tb, ws) endm1 endm2 u1 u2 HU HE)].
  pose proof (Hcb eq_refl) as NU.
  match goal with |- swp _ _ _ ?Q' _ _ =>
    assert (HW : forall a1 l1 t1 w1,
      bwp (modify (set_lws false) ;;; skip_non_blank sops ;;; look sops (bufmaxlen sops) ;;;
           acc0 <- plain_chunk sops F1 0 (rn u1 0 :: a1) ;; m <- mark ;; ret (acc0, l1, t1, w1, m))
          (modify (set_lws false) ;;; skip_non_blank sops ;;; look sops (bufmaxlen sops) ;;;
           acc0 <- plain_chunk sops F2 0 (rn u1 0 :: a1) ;; m <- mark ;; ret (acc0, l1, t1, w1, m)) Q' u1 u2) end.
  { intros a1 l1 t1 w1.
    apply bwp_bind. apply (bwp_modify_br d); [apply SH_set_lws; [exact HU|right; exact HNE]|reflexivity|].
    intros v1 v2 HV RV.
    assert (NV : nbz (rn v1 0)) by (rewrite (rn_eq v1 u1 0 RV); exact NU).
    apply bwp_bind. apply (bwp_skip_non_blank d); [exact HV|exact NV|]. intros x1 x2 HX RX.
    pose proof (SH_ne_tl d v1 v2 x1 HV NV RX) as NEX.
    apply bwp_bind. apply (bwp_look d); [exact HX|]. intros y1 y2 HY RY _ _ _ _.
    eapply (bwp_call_eq d); [apply shf_plain_chunk; [exact HY|exact (SH_ne_eq x1 y1 NEX RY)]|]. intros acc1 z1 z2 HZ.
    apply bwp_bind. apply (bwp_mark d); [exact HZ|]. intros HM. apply bwp_ret.
    exact (HQ (acc1, l1, t1, w1) _ _ z1 z2 HZ HM). }
  destruct (sc_lws u1); [destruct (negb lb); [|destruct (tb =? 0)%N]|]; exact (HW _ _ _ _).
Qed.

(* ---------------- the contract ---------------- *)
Theorem scan_plain_scalar_ok : shf_scan_plain_scalar d.
Proof.
  unfold shf_scan_plain_scalar. intros F1 F2 s1 s2 H N0.
  rewrite (scan_plain_scalar_eq sops F1), (scan_plain_scalar_eq sops F2).
  apply bwp_bind. apply (bwp_unroll_non_block_indents d); [exact H|]. intros u1 u2 HU RU.
  apply bwp_bind. apply bwp_get. cbv beta zeta. sh_sync HU.
  match goal with |- swp _ (if ?b then _ else _) _ _ _ _ => destruct b end; [apply bwp_err_l|].
  eapply (bwp_call d); [apply shf_plain_go; [apply MS_refl|exact HU|apply MS_refl]|].
  intros r1 r2 v1 v2 [EF ME] HV.
  apply bwp_bind. apply bwp_get. cbv beta. sh_sync HV.
  apply bwp_bind.
  match goal with |- swp _ _ _ ?Q _ _ => assert (HQ : forall w1 w2, SH d w1 w2 -> Q tt w1 tt w2) end.
  { intros w1 w2 HW. cbv beta. rewrite <- EF. destruct (fst r1); [apply bwp_err_l|].
    apply (bwp_ret_bpost d); [|exact HW]. apply TS_mk. apply SPS_mk; [apply MS_refl|exact ME]. }
  destruct (sc_lws v1).
  - apply (bwp_allow_simple_key d); [exact HV|]. intros w1 w2 HW _. apply HQ. exact HW.
  - apply bwp_ret. apply HQ. exact HV.
Qed.

End BrkPlain.

Print Assumptions scan_plain_scalar_ok.
