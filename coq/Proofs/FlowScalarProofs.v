(* C04 — lemmas: the generated escape tables against the specification (Spec/FlowFold.v), hexadecimal escapes,
   and the character loop of the flow-scalar scanner (Model/SScalar.v) over the string input. *)
From Coq Require Import List NArith ZArith Bool Arith Lia.
Import ListNotations.
Require Import Parser SBase SPrim SDir SScalar FlowFold.
Open Scope N_scope.

Arguments N.add : simpl never.
Arguments N.sub : simpl never.
Arguments N.mul : simpl never.
Arguments N.eqb : simpl never.
Arguments N.ltb : simpl never.
Arguments N.leb : simpl never.

(* ================================================================================================= *)
(* T1 — the generated escape table is the table of section 5.7                                       *)
(* ================================================================================================= *)
Definition opt_eqb (a b : option N) : bool :=
  match a, b with Some x, Some y => x =? y | None, None => true | _, _ => false end.
Lemma opt_eqb_eq a b : opt_eqb a b = true -> a = b.
Proof. destruct a, b; cbn; intros H; try discriminate; try reflexivity. apply N.eqb_eq in H. subst. reflexivity. Qed.

(* the finite domain: every character that is a key of either table *)
Definition escape_domain : list N := map fst escape_table ++ map fst spec_named_escapes.

Lemma tables_agree_on_domain :
  forallb (fun c => opt_eqb (assocc c escape_table) (spec_escape c)) escape_domain = true.
Proof. vm_compute. reflexivity. Qed.

Lemma assocc_notin c l : ~ In c (map fst l) -> assocc c l = None.
Proof.
  induction l as [|[a b] r IH]; intros H; [reflexivity|]. cbn [assocc].
  destruct (N.eqb_spec a c) as [->|_]; [exfalso; apply H; left; reflexivity|].
  apply IH. intros H2. apply H. right. exact H2.
Qed.
Lemma lookup_notin c l : ~ In c (map fst l) -> lookup c l = None.
Proof.
  induction l as [|[a b] r IH]; intros H; [reflexivity|]. cbn [lookup].
  destruct (N.eqb_spec c a) as [->|_]; [exfalso; apply H; left; reflexivity|].
  apply IH. intros H2. apply H. right. exact H2.
Qed.

Lemma escape_table_is_spec : forall c, assocc c escape_table = spec_escape c.
Proof.
  intros c. destruct (in_dec N.eq_dec c escape_domain) as [Hin|Hout].
  - apply opt_eqb_eq. exact (proj1 (forallb_forall _ _) tables_agree_on_domain c Hin).
  - unfold spec_escape. rewrite assocc_notin, lookup_notin; [reflexivity| |];
      intros H; apply Hout; unfold escape_domain; apply in_or_app; [right|left]; exact H.
Qed.

(* both directions, pair by pair, over the two finite tables *)
Lemma every_generated_pair_is_in_spec :
  forall e v, In (e, v) escape_table -> spec_escape e = Some v.
Proof.
  assert (H : forallb (fun p => opt_eqb (spec_escape (fst p)) (Some (snd p))) escape_table = true) by (vm_compute; reflexivity).
  intros e v Hin. exact (opt_eqb_eq _ _ (proj1 (forallb_forall _ _) H (e, v) Hin)).
Qed.
Lemma every_spec_pair_is_generated :
  forall e v, In (e, v) spec_named_escapes -> assocc e escape_table = Some v.
Proof.
  assert (H : forallb (fun p => opt_eqb (assocc (fst p) escape_table) (Some (snd p))) spec_named_escapes = true) by (vm_compute; reflexivity).
  intros e v Hin. exact (opt_eqb_eq _ _ (proj1 (forallb_forall _ _) H (e, v) Hin)).
Qed.

Lemma code_length_table_is_spec : code_length_table = spec_numeric_escapes.
Proof. reflexivity. Qed.

(* a numeric introducer is never a named escape, a named escape never a numeric introducer *)
Lemma numeric_not_named : forall e n, In (e, n) spec_numeric_escapes -> assocc e escape_table = None.
Proof. intros e n [H|[H|[H|[]]]]; inversion H; subst; vm_compute; reflexivity. Qed.

(* ================================================================================================= *)
(* T2 — hexadecimal digits and numbers                                                               *)
(* ================================================================================================= *)
Lemma as_hex_correct c : is_hex c = true -> hex_digit_value c = Some (as_hex c).
Proof.
  unfold is_hex, hex_digit_value, as_hex. intros Hx.
  destruct (N.leb_spec 48 c), (N.leb_spec c 57), (N.leb_spec 65 c), (N.leb_spec c 70),
           (N.leb_spec 97 c), (N.leb_spec c 102); cbn [andb orb] in *; try discriminate; try lia; f_equal; lia.
Qed.
Lemma is_hex_complete c v : hex_digit_value c = Some v -> is_hex c = true.
Proof.
  unfold is_hex, hex_digit_value.
  destruct (N.leb_spec 48 c), (N.leb_spec c 57), (N.leb_spec 65 c), (N.leb_spec c 70),
           (N.leb_spec 97 c), (N.leb_spec c 102); cbn [andb orb]; intros Hv; try discriminate; try reflexivity; lia.
Qed.
Lemma hex_digits_table : forallb (fun p => is_hex (fst p) && (as_hex (fst p) =? snd p)) hex_digits = true.
Proof. vm_compute. reflexivity. Qed.
Lemma In_by_compute c l : existsb (N.eqb c) l = true -> In c l.
Proof. intros H. apply existsb_exists in H. destruct H as [x [Hin E]]. apply N.eqb_eq in E. subst. exact Hin. Qed.
Lemma is_hex_iff_listed c : is_hex c = true <-> In c (map fst hex_digits).
Proof.
  split.
  - unfold is_hex. intros Hx.
    assert (R : (48 <= c <= 57) \/ (97 <= c <= 102) \/ (65 <= c <= 70)).
    { destruct (N.leb_spec 48 c), (N.leb_spec c 57), (N.leb_spec 65 c), (N.leb_spec c 70),
               (N.leb_spec 97 c), (N.leb_spec c 102); cbn [andb orb] in Hx; try discriminate; lia. }
    assert (D : c = 48 \/ c = 49 \/ c = 50 \/ c = 51 \/ c = 52 \/ c = 53 \/ c = 54 \/ c = 55 \/ c = 56 \/ c = 57 \/
                c = 97 \/ c = 98 \/ c = 99 \/ c = 100 \/ c = 101 \/ c = 102 \/
                c = 65 \/ c = 66 \/ c = 67 \/ c = 68 \/ c = 69 \/ c = 70) by lia.
    repeat (destruct D as [->|D]; [apply In_by_compute; vm_compute; reflexivity|]).
    subst. apply In_by_compute; vm_compute; reflexivity.
  - intros H. cbn [map fst hex_digits] in H.
    repeat (destruct H as [<-|H]; [reflexivity|]). destruct H.
Qed.

(* the scanner's accumulation  (value << 4) + as_hex c  computes the number the digits denote *)
Lemma hex_fold_correct ds : Forall (fun d => is_hex d = true) ds -> forall acc,
  hex_value_from acc ds = Some (fold_left (fun a d => a * 16 + as_hex d) ds acc).
Proof.
  induction 1 as [|d r Hd Hr IH]; intros acc; [reflexivity|].
  cbn [hex_value_from fold_left]. rewrite (as_hex_correct d Hd). rewrite IH. f_equal. f_equal. lia.
Qed.
