(* C04 — lemmas: the generated escape tables against the specification (Spec/FlowFold.v), hexadecimal escapes,
   and the character loop of the flow-scalar scanner (Model/SScalar.v) over the string input. *)
From Coq Require Import List NArith ZArith Bool Arith Lia.
Import ListNotations.
Require Import Parser SBase SPrim SDir SScalar SFetch Pipe FlowFold.
Open Scope N_scope.

Arguments N.add : simpl never.
Arguments N.sub : simpl never.
Arguments N.mul : simpl never.
Arguments N.eqb : simpl never.
Arguments N.ltb : simpl never.
Arguments N.leb : simpl never.

(* ================================================================================================= *)
(* T1 — the generated escape table is the table of section 5.7                                       *)
(* ================================================================================================= *)
Definition opt_eqb (a b : option N) : bool :=
  match a, b with Some x, Some y => x =? y | None, None => true | _, _ => false end.
Lemma opt_eqb_eq a b : opt_eqb a b = true -> a = b.
Proof. destruct a, b; cbn; intros H; try discriminate; try reflexivity. apply N.eqb_eq in H. subst. reflexivity. Qed.

(* the finite domain: every character that is a key of either table *)
Definition escape_domain : list N := map fst escape_table ++ map fst spec_named_escapes.

Lemma tables_agree_on_domain :
  forallb (fun c => opt_eqb (assocc c escape_table) (spec_escape c)) escape_domain = true.
Proof. vm_compute. reflexivity. Qed.

Lemma assocc_notin c l : ~ In c (map fst l) -> assocc c l = None.
Proof.
  induction l as [|[a b] r IH]; intros H; [reflexivity|]. cbn [assocc].
  destruct (N.eqb_spec a c) as [->|_]; [exfalso; apply H; left; reflexivity|].
  apply IH. intros H2. apply H. right. exact H2.
Qed.
Lemma lookup_notin c l : ~ In c (map fst l) -> lookup c l = None.
Proof.
  induction l as [|[a b] r IH]; intros H; [reflexivity|]. cbn [lookup].
  destruct (N.eqb_spec c a) as [->|_]; [exfalso; apply H; left; reflexivity|].
  apply IH. intros H2. apply H. right. exact H2.
Qed.

Lemma escape_table_is_spec : forall c, assocc c escape_table = spec_escape c.
Proof.
  intros c. destruct (in_dec N.eq_dec c escape_domain) as [Hin|Hout].
  - apply opt_eqb_eq. exact (proj1 (forallb_forall _ _) tables_agree_on_domain c Hin).
  - unfold spec_escape. rewrite assocc_notin, lookup_notin; [reflexivity| |];
      intros H; apply Hout; unfold escape_domain; apply in_or_app; [right|left]; exact H.
Qed.

(* both directions, pair by pair, over the two finite tables *)
Lemma every_generated_pair_is_in_spec :
  forall e v, In (e, v) escape_table -> spec_escape e = Some v.
Proof.
  assert (H : forallb (fun p => opt_eqb (spec_escape (fst p)) (Some (snd p))) escape_table = true) by (vm_compute; reflexivity).
  intros e v Hin. exact (opt_eqb_eq _ _ (proj1 (forallb_forall _ _) H (e, v) Hin)).
Qed.
Lemma every_spec_pair_is_generated :
  forall e v, In (e, v) spec_named_escapes -> assocc e escape_table = Some v.
Proof.
  assert (H : forallb (fun p => opt_eqb (assocc (fst p) escape_table) (Some (snd p))) spec_named_escapes = true) by (vm_compute; reflexivity).
  intros e v Hin. exact (opt_eqb_eq _ _ (proj1 (forallb_forall _ _) H (e, v) Hin)).
Qed.

Lemma code_length_table_is_spec : code_length_table = spec_numeric_escapes.
Proof. reflexivity. Qed.

(* a numeric introducer is never a named escape, a named escape never a numeric introducer *)
Lemma numeric_not_named : forall e n, In (e, n) spec_numeric_escapes -> assocc e escape_table = None.
Proof. intros e n [H|[H|[H|[]]]]; inversion H; subst; vm_compute; reflexivity. Qed.

(* ================================================================================================= *)
(* T2 — hexadecimal digits and numbers                                                               *)
(* ================================================================================================= *)
Lemma as_hex_correct c : is_hex c = true -> hex_digit_value c = Some (as_hex c).
Proof.
  unfold is_hex, hex_digit_value, as_hex. intros Hx.
  destruct (N.leb_spec 48 c), (N.leb_spec c 57), (N.leb_spec 65 c), (N.leb_spec c 70),
           (N.leb_spec 97 c), (N.leb_spec c 102); cbn [andb orb] in *; try discriminate; try lia; f_equal; lia.
Qed.
Lemma is_hex_complete c v : hex_digit_value c = Some v -> is_hex c = true.
Proof.
  unfold is_hex, hex_digit_value.
  destruct (N.leb_spec 48 c), (N.leb_spec c 57), (N.leb_spec 65 c), (N.leb_spec c 70),
           (N.leb_spec 97 c), (N.leb_spec c 102); cbn [andb orb]; intros Hv; try discriminate; try reflexivity; lia.
Qed.
Lemma hex_digits_table : forallb (fun p => is_hex (fst p) && (as_hex (fst p) =? snd p)) hex_digits = true.
Proof. vm_compute. reflexivity. Qed.
Lemma In_by_compute c l : existsb (N.eqb c) l = true -> In c l.
Proof. intros H. apply existsb_exists in H. destruct H as [x [Hin E]]. apply N.eqb_eq in E. subst. exact Hin. Qed.
Lemma is_hex_iff_listed c : is_hex c = true <-> In c (map fst hex_digits).
Proof.
  split.
  - unfold is_hex. intros Hx.
    assert (R : (48 <= c <= 57) \/ (97 <= c <= 102) \/ (65 <= c <= 70)).
    { destruct (N.leb_spec 48 c), (N.leb_spec c 57), (N.leb_spec 65 c), (N.leb_spec c 70),
               (N.leb_spec 97 c), (N.leb_spec c 102); cbn [andb orb] in Hx; try discriminate; lia. }
    assert (D : c = 48 \/ c = 49 \/ c = 50 \/ c = 51 \/ c = 52 \/ c = 53 \/ c = 54 \/ c = 55 \/ c = 56 \/ c = 57 \/
                c = 97 \/ c = 98 \/ c = 99 \/ c = 100 \/ c = 101 \/ c = 102 \/
                c = 65 \/ c = 66 \/ c = 67 \/ c = 68 \/ c = 69 \/ c = 70) by lia.
    repeat (destruct D as [->|D]; [apply In_by_compute; vm_compute; reflexivity|]).
    subst. apply In_by_compute; vm_compute; reflexivity.
  - intros H. cbn [map fst hex_digits] in H.
    repeat (destruct H as [<-|H]; [reflexivity|]). destruct H.
Qed.

(* the scanner's accumulation  (value << 4) + as_hex c  computes the number the digits denote *)
Lemma hex_fold_correct ds : Forall (fun d => is_hex d = true) ds -> forall acc,
  hex_value_from acc ds = Some (fold_left (fun a d => a * 16 + as_hex d) ds acc).
Proof.
  induction 1 as [|d r Hd Hr IH]; intros acc; [reflexivity|].
  cbn [hex_value_from fold_left]. rewrite (as_hex_correct d Hd). rewrite IH. f_equal. f_equal. lia.
Qed.

Open Scope mon_scope.
Arguments Nat.max : simpl never.

(* ================================================================================================= *)
(* scanner states over the string input, in a normal form closed under the primitives                 *)
(* ================================================================================================= *)
Definition st_with (s0 : sc strin) (chars : list N) (lk : nat) (m : marker) (w : bool) : sc strin :=
  {| sc_in := {| si_chars := chars; si_look := lk |}; sc_mark := m; sc_tokens := sc_tokens s0;
     sc_stream_start := sc_stream_start s0; sc_stream_end := sc_stream_end s0; sc_adjacent := sc_adjacent s0;
     sc_ska := sc_ska s0; sc_sks := sc_sks s0; sc_indent := sc_indent s0; sc_indents := sc_indents s0;
     sc_flow_level := sc_flow_level s0; sc_tokens_parsed := sc_tokens_parsed s0;
     sc_token_available := sc_token_available s0; sc_lws := w; sc_ifms := sc_ifms s0 |}.

Lemma st_with_id s : s = st_with s (si_chars (sc_in s)) (si_look (sc_in s)) (sc_mark s) (sc_lws s).
Proof. destruct s as [[c l] m]; reflexivity. Qed.

Lemma look_st n s0 c l m w : look str_ops n (st_with s0 c l m w) = Ok (tt, st_with s0 c (Nat.max l n) m w).
Proof. reflexivity. Qed.
Lemma peekn_st n s0 c l m w : peekn str_ops n (st_with s0 c l m w) = Ok (nth n c 0, st_with s0 c l m w).
Proof. reflexivity. Qed.
Lemma skip_non_blank_st s0 c l m w : skip_non_blank str_ops (st_with s0 c l m w) = Ok (tt, st_with s0 (tl c) l (adv 1 m) false).
Proof. reflexivity. Qed.
Lemma skip_blank_st s0 c l m w : skip_blank str_ops (st_with s0 c l m w) = Ok (tt, st_with s0 (tl c) l (adv 1 m) w).
Proof. reflexivity. Qed.
Lemma skip_n_non_blank_st n s0 c l m w :
  skip_n_non_blank str_ops n (st_with s0 c l m w) = Ok (tt, st_with s0 (skipn n c) l (adv (N.of_nat n) m) false).
Proof. reflexivity. Qed.
Lemma get_st s0 c l m w : get (st_with s0 c l m w) = Ok (st_with s0 c l m w, st_with s0 c l m w).
Proof. reflexivity. Qed.

Lemma bind_Ok {I A B} (x : @M I A) (f : A -> @M I B) s a s' : x s = Ok (a, s') -> bind x f s = f a s'.
Proof. intros H. unfold bind. rewrite H. reflexivity. Qed.
Lemma bind_Err {I A B} (x : @M I A) (f : A -> @M I B) s e k : x s = Err e k -> bind x f s = Err e k.
Proof. intros H. unfold bind. rewrite H. reflexivity. Qed.
Lemma bind_assoc {I A B C} (x : @M I A) (f : A -> @M I B) (g : B -> @M I C) s :
  bind (bind x f) g s = bind x (fun a => bind (f a) g) s.
Proof. unfold bind. destruct (x s) as [[a s']| | |]; reflexivity. Qed.

Ltac mstep L := rewrite (bind_Ok _ _ _ _ _ L).

Lemma adv_0 m : adv 0 m = m.
Proof. destruct m as [i ln cl]; unfold adv; cbn [m_index m_line m_col]. rewrite !N.add_0_r. reflexivity. Qed.
Lemma adv_adv a b m : adv a (adv b m) = adv (b + a) m.
Proof. unfold adv; cbn [m_index m_line m_col]. rewrite !N.add_assoc. reflexivity. Qed.
Lemma adv_col a m : m_col (adv a m) = m_col m + a.
Proof. reflexivity. Qed.

(* ================================================================================================= *)
(* T2 — read_hex and resolve_escape                                                                  *)
(* ================================================================================================= *)
Lemma read_hex_ok start s0 l m w : forall ds pre rest acc,
  Forall (fun d => is_hex d = true) ds ->
  read_hex str_ops (length ds) (length pre) acc start (st_with s0 (pre ++ ds ++ rest) l m w)
  = Ok (fold_left (fun a d => a * 16 + as_hex d) ds acc, st_with s0 (pre ++ ds ++ rest) l m w).
Proof.
  induction ds as [|d r IH]; intros pre rest acc H; [reflexivity|].
  inversion H as [|? ? Hd Hr]; subst.
  cbn [length read_hex]. mstep (peekn_st (length pre) s0 (pre ++ (d :: r) ++ rest) l m w).
  rewrite app_nth2 by lia. rewrite Nat.sub_diag. cbn [app nth]. rewrite Hd.
  specialize (IH (pre ++ [d]) rest (acc * 16 + as_hex d) Hr).
  rewrite app_length in IH. cbn [length] in IH. rewrite Nat.add_1_r in IH.
  rewrite <- app_assoc in IH. cbn [app] in IH. exact IH.
Qed.

Lemma hex_value_digits ds v : hex_value ds = Some v -> Forall (fun d => is_hex d = true) ds.
Proof.
  unfold hex_value. generalize 0. revert v. induction ds as [|d r IH]; intros v a Hv; [constructor|].
  cbn [hex_value_from] in Hv. destruct (hex_digit_value d) as [x|] eqn:E; [|discriminate].
  constructor; [eapply is_hex_complete; exact E|eapply IH; exact Hv].
Qed.
Lemma hex_value_fold ds v : hex_value ds = Some v -> fold_left (fun a d => a * 16 + as_hex d) ds 0 = v.
Proof.
  intros Hv. pose proof (hex_fold_correct ds (hex_value_digits ds v Hv) 0) as H.
  unfold hex_value in Hv. rewrite Hv in H. inversion H. reflexivity.
Qed.
(* for every list of hexadecimal digits, read_hex returns the number they denote *)
Lemma read_hex_value start s0 l m w ds v rest :
  hex_value ds = Some v ->
  read_hex str_ops (length ds) 0 0 start (st_with s0 (ds ++ rest) l m w) = Ok (v, st_with s0 (ds ++ rest) l m w).
Proof.
  intros Hv. pose proof (read_hex_ok start s0 l m w ds [] rest 0 (hex_value_digits ds v Hv)) as R.
  cbn [app length] in R. rewrite R. rewrite (hex_value_fold ds v Hv). reflexivity.
Qed.

Lemma is_scalar_value_spec v : is_scalar_value v = spec_scalar_value v.
Proof.
  unfold is_scalar_value, spec_scalar_value.
  destruct (N.ltb_spec v 55296), (N.leb_spec v 55295), (N.ltb_spec 57343 v), (N.leb_spec 57344 v); try lia; reflexivity.
Qed.

(* a named escape: backslash, e, ...  ->  the code point of section 5.7 *)
Lemma resolve_escape_named start s0 e v rest l m w :
  spec_escape e = Some v ->
  resolve_escape str_ops start (st_with s0 (92 :: e :: rest) l m w) = Ok (v, st_with s0 rest l (adv 2 m) false).
Proof.
  intros H. unfold resolve_escape.
  mstep (peekn_st 1 s0 (92 :: e :: rest) l m w). cbn [nth].
  rewrite escape_table_is_spec, H.
  mstep (skip_n_non_blank_st 2 s0 (92 :: e :: rest) l m w). reflexivity.
Qed.

(* a numeric escape: backslash, x|u|U, exactly 2|4|8 hexadecimal digits *)
Lemma resolve_escape_numeric start s0 e n ds v rest l m w :
  In (e, n) spec_numeric_escapes -> length ds = n -> hex_value ds = Some v ->
  resolve_escape str_ops start (st_with s0 (92 :: e :: ds ++ rest) l m w)
  = if spec_scalar_value v then Ok (v, st_with s0 rest (Nat.max l n) (adv (N.of_nat n) (adv 2 m)) false)
    else Err 32 start.
Proof.
  intros Hin Hlen Hv.
  pose proof (hex_value_digits ds v Hv) as Hhex.
  pose proof (hex_value_fold ds v Hv) as Hval.
  unfold resolve_escape.
  mstep (peekn_st 1 s0 (92 :: e :: ds ++ rest) l m w). cbn [nth].
  rewrite (numeric_not_named e n Hin).
  assert (Hcl : code_length e = n).
  { destruct Hin as [H|[H|[H|[]]]]; inversion H; subst; reflexivity. }
  rewrite Hcl.
  assert (Hn0 : Nat.eqb n 0 = false).
  { destruct Hin as [H|[H|[H|[]]]]; inversion H; subst; reflexivity. }
  rewrite Hn0.
  mstep (skip_n_non_blank_st 2 s0 (92 :: e :: ds ++ rest) l m w). cbn [skipn].
  mstep (look_st n s0 (ds ++ rest) l (adv 2 m) false).
  pose proof (read_hex_ok start s0 (Nat.max l n) (adv 2 m) false ds [] rest 0 Hhex) as R.
  cbn [app length] in R. rewrite Hlen in R. mstep R. rewrite Hval.
  rewrite is_scalar_value_spec. destruct (spec_scalar_value v); [|reflexivity].
  mstep (skip_n_non_blank_st n s0 (ds ++ rest) (Nat.max l n) (adv 2 m) false).
  rewrite <- Hlen. rewrite skipn_app, skipn_all, Nat.sub_diag. reflexivity.
Qed.


(* ================================================================================================= *)
(* T3 — the character loop                                                                           *)
(* ================================================================================================= *)
(* the characters a quoted scalar passes through unchanged, outside blanks:
   double quotes: anything but blank, break, NUL, the quote and the backslash;
   single quotes: anything but blank, break, NUL (a quote is written twice) *)
Definition ordinary (single : bool) (c : N) : bool :=
  negb (is_blank_or_breakz c) && (single || (negb (c =? 34) && negb (c =? 92))).
Definition quote_of (single : bool) : N := if single then 39 else 34.
(* how a character of the text is written inside the quotes *)
Definition enc1 (single : bool) (c : N) : list N := if single && (c =? 39) then [39; 39] else [c].
Definition enc (single : bool) (t : list N) : list N := flat_map (enc1 single) t.

Lemma enc_single_is_sq_double t : enc true t = sq_double t.
Proof. reflexivity. Qed.
Lemma enc_double_is_id t : enc false t = t.
Proof. induction t as [|c t IH]; [reflexivity|]. cbn [enc flat_map enc1 andb app]. f_equal. exact IH. Qed.

(* one ordinary character *)
Lemma consume_nonws_step single c fuel acc start s0 tail l m w :
  ordinary single c = true ->
  consume_nonws str_ops (S fuel) single acc start (st_with s0 (enc1 single c ++ tail) l m w)
  = consume_nonws str_ops fuel single (c :: acc) start
      (st_with s0 tail (Nat.max l 2) (adv (N.of_nat (length (enc1 single c))) m) false).
Proof.
  unfold ordinary. intros H. apply andb_prop in H. destruct H as [Hb Ho].
  apply negb_true_iff in Hb.
  cbn [consume_nonws]. unfold enc1.
  destruct single; cbn [andb orb] in *.
  - destruct (N.eqb_spec c 39) as [->|Hne].
    + cbn [app]. mstep (look_st 2 s0 (39 :: 39 :: tail) l m w). unfold peek.
      mstep (peekn_st 0 s0 (39 :: 39 :: tail) (Nat.max l 2) m w). cbn [nth].
      change (is_blank_or_breakz 39) with false. cbv iota.
      mstep (peekn_st 1 s0 (39 :: 39 :: tail) (Nat.max l 2) m w). cbn [nth].
      change (39 =? 39) with true. cbn [andb]. cbv iota.
      mstep (skip_n_non_blank_st 2 s0 (39 :: 39 :: tail) (Nat.max l 2) m w). reflexivity.
    + cbn [app]. mstep (look_st 2 s0 (c :: tail) l m w). unfold peek.
      mstep (peekn_st 0 s0 (c :: tail) (Nat.max l 2) m w). cbn [nth]. rewrite Hb.
      mstep (peekn_st 1 s0 (c :: tail) (Nat.max l 2) m w).
      apply N.eqb_neq in Hne. rewrite Hne. cbn [andb negb]. rewrite !andb_false_r. cbn [andb]. cbv iota.
      mstep (skip_non_blank_st s0 (c :: tail) (Nat.max l 2) m w). reflexivity.
  - apply andb_prop in Ho. destruct Ho as [H34 H92]. apply negb_true_iff in H34, H92.
    cbn [app]. mstep (look_st 2 s0 (c :: tail) l m w). unfold peek.
    mstep (peekn_st 0 s0 (c :: tail) (Nat.max l 2) m w). cbn [nth]. rewrite Hb.
    mstep (peekn_st 1 s0 (c :: tail) (Nat.max l 2) m w).
    rewrite H34, H92. rewrite !andb_false_r. cbn [andb negb]. cbv iota.
    mstep (skip_non_blank_st s0 (c :: tail) (Nat.max l 2) m w). reflexivity.
Qed.

(* where the loop stops: at a blank, or at the closing quote (for single quotes: a quote not followed by a quote) *)
Definition stops (single : bool) (x : N) (rest : list N) : Prop :=
  is_blank x = true \/ (x = quote_of single /\ (single = true -> (nth 0 rest 0 =? 39) = false)).

Lemma consume_nonws_stop single x rest fuel acc start s0 l m w :
  stops single x rest ->
  consume_nonws str_ops (S fuel) single acc start (st_with s0 (x :: rest) l m w)
  = Ok ((acc, false), st_with s0 (x :: rest) (Nat.max l 2) m w).
Proof.
  intros Hs. cbn [consume_nonws].
  mstep (look_st 2 s0 (x :: rest) l m w). unfold peek.
  mstep (peekn_st 0 s0 (x :: rest) (Nat.max l 2) m w). cbn [nth].
  destruct Hs as [Hb|[-> Hq]].
  - unfold is_blank_or_breakz. rewrite Hb. reflexivity.
  - destruct single; cbn [quote_of].
    + change (is_blank_or_breakz 39) with false. cbv iota.
      mstep (peekn_st 1 s0 (39 :: rest) (Nat.max l 2) m w). cbn [nth]. rewrite (Hq eq_refl). reflexivity.
    + change (is_blank_or_breakz 34) with false. cbv iota.
      mstep (peekn_st 1 s0 (34 :: rest) (Nat.max l 2) m w). reflexivity.
Qed.

Lemma max_max l n : Nat.max (Nat.max l n) n = Nat.max l n.
Proof. lia. Qed.

(* a whole word, for ALL texts made of ordinary characters *)
Lemma consume_nonws_word single : forall t fuel acc start s0 x rest l m w,
  forallb (ordinary single) t = true -> stops single x rest -> (length t < fuel)%nat ->
  consume_nonws str_ops fuel single acc start (st_with s0 (enc single t ++ x :: rest) l m w)
  = Ok ((rev t ++ acc, false),
        st_with s0 (x :: rest) (Nat.max l 2) (adv (N.of_nat (length (enc single t))) m)
                (match t with [] => w | _ => false end)).
Proof.
  induction t as [|c t IH]; intros fuel acc start s0 x rest l m w Ht Hs Hf.
  - destruct fuel as [|fuel]; [cbn in Hf; lia|]. cbn [enc flat_map app length rev].
    rewrite consume_nonws_stop by exact Hs. change (N.of_nat 0) with 0. rewrite adv_0. reflexivity.
  - destruct fuel as [|fuel]; [cbn in Hf; lia|]. cbn [forallb] in Ht. apply andb_prop in Ht. destruct Ht as [Hc Ht].
    cbn [enc flat_map]. fold (enc single t). rewrite <- app_assoc.
    rewrite consume_nonws_step by exact Hc.
    rewrite IH; [|exact Ht|exact Hs|cbn in Hf; lia].
    rewrite max_max, adv_adv. cbn [rev]. rewrite <- app_assoc. cbn [app].
    rewrite app_length, Nat2N.inj_add.
    replace (match t with [] => false | _ :: _ => false end) with false by (destruct t; reflexivity).
    reflexivity.
Qed.


(* ================================================================================================= *)
(* the loop of scan_flow_scalar, cut into its phases (checked equal to the model by conversion)        *)
(* ================================================================================================= *)
Section Loop.
Variable F : nat.
Variable single : bool.
Variable start : marker.
Notation ops := str_ops.
Notation MS := (@M strin).

Definition after_blanks (go : list chr -> bool -> N -> list chr -> MS (list chr)) (acc : list chr)
           (r : bool * bool * N * list chr) : MS (list chr) :=
  let '(lbl, lb, tb, ws) := r in
  if lbl then
    if negb lb then go (nls tb acc) false 0 ws
    else if tb =? 0 then go (32 :: acc) false 0 ws
    else go (nls tb acc) false 0 ws
  else go (ws ++ acc) lb tb [].

Definition after_word (go : list chr -> bool -> N -> list chr -> MS (list chr)) (lb : bool) (tb : N) (ws : list chr)
           (r : list chr * bool) : MS (list chr) :=
  let '(acc, lbl) := r in
  c <- look_ch ops ;;
  if (single && (c =? 39)) || (negb single && (c =? 34)) then ret acc
  else
    r <- flow_blanks ops F lbl lb tb ws ;; after_blanks go acc r.

Definition loop_body (go : list chr -> bool -> N -> list chr -> MS (list chr)) (acc : list chr) (lb : bool) (tb : N)
           (ws : list chr) : MS (list chr) :=
  look ops 4 ;;;
  s <- get ;;
  di <- (if m_col (sc_mark s) =? 0 then next_is_document_indicator ops else ret false) ;;
  if di then fail 70 start else
  z <- next_is ops is_z ;;
  if z then fail 71 start else
  lt <- col_lt_indent ;;
  if lt then fail 72 start else
  r <- consume_nonws ops F single acc start ;; after_word go lb tb ws r.

Fixpoint loop (f : nat) (acc : list chr) (lb : bool) (tb : N) (ws : list chr) : MS (list chr) :=
  match f with O => oof | S f => loop_body (loop f) acc lb tb ws end.
End Loop.

Definition finish_flow_scalar (F : nat) (single : bool) (start : marker) (str : list chr) : @M strin token :=
  skip_non_blank str_ops ;;;
  skip_ws_to_eol str_ops F SkipYes ;;;
  c <- peek str_ops ;; s <- get ;;
  let fl := 0 <? sc_flow_level s in
  if (((c =? 44) || (c =? 125) || (c =? 93)) && fl) || is_breakz c
     || ((c =? 58) && negb fl && (m_line start =? m_line (sc_mark s))) || ((c =? 58) && fl)
  then ret ({| sp_start := start; sp_end := sc_mark s |},
            TScalar (if single then SingleQuoted else DoubleQuoted) (rev str))
  else fail 74 (sc_mark s).

(* the phases ARE the model's scan_flow_scalar (conversion: this breaks when the model is edited) *)
Lemma scan_flow_scalar_phases F single :
  scan_flow_scalar str_ops F single
  = (start <- mark ;; skip_non_blank str_ops ;;; str <- loop F single start F [] false 0 [] ;; finish_flow_scalar F single start str).
Proof. reflexivity. Qed.


Lemma bind_congr {I A B} (x y : @M I A) (K : A -> @M I B) s s' : x s = y s' -> bind x K s = bind y K s'.
Proof. intros H. unfold bind. rewrite H. reflexivity. Qed.

(* a character of a single-line text: ordinary or blank *)
Definition text_char (single : bool) (c : N) : bool := ordinary single c || is_blank c.

Lemma blank_cases c : is_blank c = true -> c = 32 \/ c = 9.
Proof. unfold is_blank. intros H. apply orb_prop in H. destruct H as [H|H]; apply N.eqb_eq in H; auto. Qed.
Lemma enc1_blank single b : is_blank b = true -> enc1 single b = [b].
Proof. intros H. destruct (blank_cases b H) as [->| ->]; destruct single; reflexivity. Qed.

Definition plain_head (x : N) : Prop := is_blank x = false /\ is_break x = false /\ is_z x = false.
Lemma quote_plain_head single : plain_head (quote_of single).
Proof. destruct single; repeat split. Qed.
Lemma ordinary_not_bbz single c : ordinary single c = true -> is_blank c = false /\ is_break c = false /\ is_z c = false.
Proof.
  unfold ordinary, is_blank_or_breakz, is_breakz. intros H. apply andb_prop in H. destruct H as [H _].
  apply negb_true_iff in H. apply orb_false_elim in H. destruct H as [H1 H2]. apply orb_false_elim in H2. tauto.
Qed.
Lemma enc1_head single c : ordinary single c = true -> exists x r, enc1 single c = x :: r /\ plain_head x.
Proof.
  intros H. unfold enc1. destruct (single && (c =? 39)) eqn:E.
  - exists 39, [39]. split; [reflexivity|]. repeat split.
  - exists c, []. split; [reflexivity|]. exact (ordinary_not_bbz single c H).
Qed.

Lemma adv_1_n n m : adv (N.of_nat n) (adv 1 m) = adv (N.of_nat (S n)) m.
Proof. rewrite adv_adv. f_equal. lia. Qed.

Section LoopProof.
Variable F : nat.
Variable single : bool.
Variable start : marker.
Variable s0 : sc strin.
Variable rest : list N.
Hypothesis Hclose : single = true -> (nth 0 rest 0 =? 39) = false.
Notation q := (quote_of single).
Notation ops := str_ops.

Definition mark_ok (m : marker) : Prop := m_col m <> 0 /\ (sc_indent s0 <= Z.of_N (m_col m))%Z.
Lemma mark_ok_adv k m : mark_ok m -> mark_ok (adv k m).
Proof. unfold mark_ok. rewrite adv_col. intros [H1 H2]. split; lia. Qed.

Lemma stops_quote : stops single q rest.
Proof. right. split; [reflexivity|exact Hclose]. Qed.

(* entering an iteration of the loop: the three guards pass *)
Lemma loop_body_entry go acc lb tb ws x tail l m :
  is_z x = false -> mark_ok m ->
  loop_body F single start go acc lb tb ws (st_with s0 (x :: tail) l m false)
  = bind (consume_nonws ops F single acc start) (after_word F single go lb tb ws) (st_with s0 (x :: tail) (Nat.max l 4) m false).
Proof.
  intros Hz [Hc Hi]. unfold loop_body.
  mstep (look_st 4 s0 (x :: tail) l m false).
  mstep (get_st s0 (x :: tail) (Nat.max l 4) m false).
  cbn [sc_mark st_with]. apply N.eqb_neq in Hc. rewrite Hc.
  rewrite (bind_Ok (ret false) _ _ false _ eq_refl). cbv iota.
  unfold next_is, peek. rewrite bind_assoc. mstep (peekn_st 0 s0 (x :: tail) (Nat.max l 4) m false).
  cbn [nth]. rewrite Hz. rewrite (bind_Ok (ret false) _ _ false _ eq_refl). cbv iota.
  assert (Hlt : col_lt_indent (st_with s0 (x :: tail) (Nat.max l 4) m false)
                = Ok ((Z.of_N (m_col m) <? sc_indent s0)%Z, st_with s0 (x :: tail) (Nat.max l 4) m false)) by reflexivity.
  mstep Hlt. replace (Z.of_N (m_col m) <? sc_indent s0)%Z with false by (symmetry; apply Z.ltb_ge; exact Hi).
  reflexivity.
Qed.

Lemma flow_blanks_exit fb lbl lb tb ws x tail l m :
  is_blank x = false -> is_break x = false ->
  flow_blanks ops (S fb) lbl lb tb ws (st_with s0 (x :: tail) l m false)
  = Ok ((lbl, lb, tb, ws), st_with s0 (x :: tail) l m false).
Proof.
  intros Hb Hk. cbn [flow_blanks]. unfold peek. mstep (peekn_st 0 s0 (x :: tail) l m false). cbn [nth].
  rewrite Hb, Hk. reflexivity.
Qed.

Definition PA (t : list N) : Prop := forall fc f acc l m,
  forallb (text_char single) t = true -> (4 <= l)%nat -> (length t < fc)%nat -> (length t <= f)%nat -> (length t < F)%nat ->
  mark_ok m ->
  bind (consume_nonws ops fc single acc start) (after_word F single (loop F single start f) false 0 [])
       (st_with s0 (enc single t ++ q :: rest) l m false)
  = Ok (rev t ++ acc, st_with s0 (q :: rest) l (adv (N.of_nat (length (enc single t))) m) false).

Definition PB (b : N) (t : list N) : Prop := forall fb f acc ws l m,
  is_blank b = true -> forallb (text_char single) t = true -> (4 <= l)%nat ->
  (length (b :: t) < fb)%nat -> (length (b :: t) <= f)%nat -> (length (b :: t) < F)%nat -> mark_ok m ->
  bind (flow_blanks ops fb false false 0 ws) (after_blanks (loop F single start f) acc)
       (st_with s0 (b :: enc single t ++ q :: rest) l m false)
  = Ok (rev t ++ b :: ws ++ acc, st_with s0 (q :: rest) l (adv (N.of_nat (S (length (enc single t)))) m) false).

(* one blank consumed by flow_blanks *)
Lemma flow_blanks_blank fb ws b tail l m (K : bool * bool * N * list chr -> @M strin (list chr)) :
  is_blank b = true -> (4 <= l)%nat ->
  bind (flow_blanks ops (S fb) false false 0 ws) K (st_with s0 (b :: tail) l m false)
  = bind (flow_blanks ops fb false false 0 (b :: ws)) K (st_with s0 tail l (adv 1 m) false).
Proof.
  intros Hb Hl. apply bind_congr. cbn [flow_blanks]. unfold peek.
  mstep (peekn_st 0 s0 (b :: tail) l m false). cbn [nth]. rewrite Hb.
  mstep (skip_blank_st s0 (b :: tail) l m false). cbn [tl].
  mstep (look_st 1 s0 tail l (adv 1 m) false). rewrite (Nat.max_l l 1) by lia. reflexivity.
Qed.

(* the blanks are over at a plain head: the next iteration starts *)
Lemma blanks_then_iterate fb f acc ws x tail l m :
  plain_head x -> (4 <= l)%nat -> mark_ok m ->
  bind (flow_blanks ops (S fb) false false 0 ws) (after_blanks (loop F single start (S f)) acc)
       (st_with s0 (x :: tail) l m false)
  = bind (consume_nonws ops F single (ws ++ acc) start) (after_word F single (loop F single start f) false 0 [])
         (st_with s0 (x :: tail) l m false).
Proof.
  intros [Hb [Hk Hz]] Hl Hm.
  mstep (flow_blanks_exit fb false false 0 ws x tail l m Hb Hk).
  cbn [after_blanks loop]. rewrite loop_body_entry by assumption. rewrite (Nat.max_l l 4) by lia. reflexivity.
Qed.

Lemma PA_nil : PA [].
Proof.
  intros fc f acc l m _ Hl Hfc _ _ Hm. destruct fc as [|fc]; [cbn in Hfc; lia|].
  cbn [enc flat_map app length rev].
  mstep (consume_nonws_stop single q rest fc acc start s0 l m false stops_quote).
  rewrite (Nat.max_l l 2) by lia. cbn [after_word]. unfold look_ch, peek. rewrite bind_assoc.
  mstep (look_st 1 s0 (q :: rest) l m false). rewrite (Nat.max_l l 1) by lia.
  mstep (peekn_st 0 s0 (q :: rest) l m false). cbn [nth].
  change (N.of_nat 0) with 0. rewrite adv_0.
  destruct single; reflexivity.
Qed.

Lemma PA_PB : forall t, PA t /\ (forall b, PB b t).
Proof.
  induction t as [|c t [IHA IHB]].
  - split; [exact PA_nil|].
    intros b fb f acc ws l m Hb _ Hl Hfb Hf HF Hm.
    destruct fb as [|fb]; [cbn in Hfb; lia|]. destruct fb as [|fb]; [cbn in Hfb; lia|].
    destruct f as [|f]; [cbn in Hf; lia|].
    cbn [enc flat_map app].
    rewrite flow_blanks_blank by assumption.
    rewrite blanks_then_iterate; [|exact (quote_plain_head single)|exact Hl|apply mark_ok_adv; exact Hm].
    match goal with |- context [consume_nonws _ _ _ ?a _] =>
      pose proof (PA_nil F f a l (adv 1 m) eq_refl Hl) as P end.
    cbn [enc flat_map length rev] in P. change ([] ++ ?z) with z in P.
    rewrite P; [|cbn in HF; lia|lia|cbn in HF; lia|apply mark_ok_adv; exact Hm].
    change (N.of_nat 0) with 0. rewrite adv_0. reflexivity.
  - assert (A : PA (c :: t)).
    { intros fc f acc l m Ht Hl Hfc Hf HF Hm.
      cbn [forallb] in Ht. apply andb_prop in Ht. destruct Ht as [Hc Ht].
      destruct fc as [|fc]; [cbn in Hfc; lia|].
      unfold text_char in Hc. destruct (ordinary single c) eqn:Ho.
      - (* an ordinary character *)
        cbn [enc flat_map]. fold (enc single t). rewrite <- app_assoc.
        rewrite (bind_congr _ _ _ _ _ (consume_nonws_step single c fc acc start s0 _ l m false Ho)).
        rewrite (Nat.max_l l 2) by lia.
        rewrite IHA; [|exact Ht|exact Hl|cbn in Hfc; lia|cbn in Hf; lia|cbn in HF; lia|apply mark_ok_adv; exact Hm].
        rewrite adv_adv, app_length, Nat2N.inj_add. cbn [rev]. rewrite <- app_assoc. reflexivity.
      - (* a blank: the word ends, the blank loop takes over *)
        cbn [orb] in Hc.
        cbn [enc flat_map]. fold (enc single t). rewrite (enc1_blank single c Hc). cbn [app].
        mstep (consume_nonws_stop single c (enc single t ++ q :: rest) fc acc start s0 l m false (or_introl Hc)).
        rewrite (Nat.max_l l 2) by lia. cbn [after_word]. unfold look_ch, peek. rewrite bind_assoc.
        mstep (look_st 1 s0 (c :: enc single t ++ q :: rest) l m false). rewrite (Nat.max_l l 1) by lia.
        mstep (peekn_st 0 s0 (c :: enc single t ++ q :: rest) l m false). cbn [nth].
        replace ((single && (c =? 39)) || (negb single && (c =? 34))) with false
          by (destruct (blank_cases c Hc) as [->| ->]; destruct single; reflexivity).
        etransitivity; [eapply (IHB c F f acc [] l m Hc Ht Hl); [cbn in HF |- *; lia|exact Hf|exact HF|exact Hm]|].
        cbn [rev app length]. rewrite <- app_assoc. reflexivity. }
    split; [exact A|].
    intros b fb f acc ws l m Hb Ht Hl Hfb Hf HF Hm.
    destruct fb as [|fb]; [cbn in Hfb; lia|]. destruct fb as [|fb]; [cbn in Hfb; lia|].
    rewrite flow_blanks_blank by assumption.
    pose proof Ht as Ht'. cbn [forallb] in Ht'. apply andb_prop in Ht'. destruct Ht' as [Hc Htt].
    unfold text_char in Hc. destruct (ordinary single c) eqn:Ho.
    + (* the blanks end at an ordinary character *)
      destruct f as [|f]; [cbn in Hf; lia|].
      destruct (enc1_head single c Ho) as [x [r [Ex Hx]]].
      assert (Ee : enc single (c :: t) ++ q :: rest = x :: (r ++ enc single t ++ q :: rest)).
      { cbn [enc flat_map]. fold (enc single t). rewrite Ex. cbn [app]. rewrite <- app_assoc. reflexivity. }
      rewrite Ee. rewrite blanks_then_iterate; [|exact Hx|exact Hl|apply mark_ok_adv; exact Hm].
      rewrite <- Ee.
      etransitivity; [eapply (A F f _ l (adv 1 m) Ht Hl); [cbn in HF |- *; lia|cbn in Hf |- *; lia|cbn in HF |- *; lia|apply mark_ok_adv; exact Hm]|].
      rewrite adv_1_n. cbn [app]. reflexivity.
    + (* another blank *)
      cbn [orb] in Hc.
      cbn [enc flat_map]. fold (enc single t). rewrite (enc1_blank single c Hc). cbn [app].
      etransitivity; [eapply (IHB c (S fb) f acc (b :: ws) l (adv 1 m) Hc Htt Hl); [cbn in Hfb |- *; lia|cbn in Hf |- *; lia|cbn in HF |- *; lia|apply mark_ok_adv; exact Hm]|].
      rewrite adv_1_n. cbn [rev length app]. rewrite <- !app_assoc. reflexivity.
Qed.
End LoopProof.


Lemma text_head_not_z single t rest :
  forallb (text_char single) t = true ->
  exists x tail, enc single t ++ quote_of single :: rest = x :: tail /\ is_z x = false.
Proof.
  destruct t as [|c t]; intros H.
  - exists (quote_of single), rest. split; [reflexivity|destruct single; reflexivity].
  - cbn [forallb] in H. apply andb_prop in H. destruct H as [Hc _]. unfold text_char in Hc.
    cbn [enc flat_map]. fold (enc single t).
    destruct (ordinary single c) eqn:Ho.
    + destruct (enc1_head single c Ho) as [x [r [Ex [_ [_ Hz]]]]]. rewrite Ex. cbn [app]. eauto.
    + cbn [orb] in Hc. rewrite (enc1_blank single c Hc). cbn [app]. exists c. eexists. split; [reflexivity|].
      destruct (blank_cases c Hc) as [->| ->]; reflexivity.
Qed.

Lemma breakz_cases c : is_breakz c = true -> c = 10 \/ c = 13 \/ c = 0.
Proof.
  unfold is_breakz, is_break, is_z. intros H. apply orb_prop in H. destruct H as [H|H].
  - apply orb_prop in H. destruct H as [H|H]; apply N.eqb_eq in H; auto.
  - apply N.eqb_eq in H. auto.
Qed.

Definition style_of (single : bool) : style := if single then SingleQuoted else DoubleQuoted.

(* the closing quote, then end of line / end of input *)
Lemma finish_at_eol F single start s0 rest l m str :
  (0 < F)%nat -> is_breakz (nth 0 rest 0) = true ->
  finish_flow_scalar F single start str (st_with s0 (quote_of single :: rest) l m false)
  = Ok (({| sp_start := start; sp_end := adv 1 m |}, TScalar (style_of single) (rev str)),
        st_with s0 rest (Nat.max l 1) (adv 1 m) false).
Proof.
  intros HF Hz. destruct F as [|F']; [lia|].
  unfold finish_flow_scalar.
  mstep (skip_non_blank_st s0 (quote_of single :: rest) l m false). cbn [tl].
  unfold skip_ws_to_eol. rewrite bind_assoc.
  assert (E : in_skip_ws_to_eol str_ops (S F') SkipYes false false 0 (st_with s0 rest l (adv 1 m) false)
              = Ok ((0, Some (false, false)), st_with s0 rest (Nat.max l 1) (adv 1 m) false)).
  { cbn [in_skip_ws_to_eol]. unfold look_ch, peek. rewrite bind_assoc.
    mstep (look_st 1 s0 rest l (adv 1 m) false).
    mstep (peekn_st 0 s0 rest (Nat.max l 1) (adv 1 m) false).
    destruct (breakz_cases _ Hz) as [E|[E|E]]; rewrite E; reflexivity. }
  mstep E. cbn [fst snd]. rewrite bind_assoc.
  assert (E2 : adv_mark 0 (st_with s0 rest (Nat.max l 1) (adv 1 m) false)
               = Ok (tt, st_with s0 rest (Nat.max l 1) (adv 1 m) false)).
  { unfold adv_mark, modify. cbn [sc_mark st_with]. rewrite adv_0. reflexivity. }
  mstep E2. rewrite (bind_Ok (ret (false, false)) _ _ (false, false) _ eq_refl).
  unfold peek. mstep (peekn_st 0 s0 rest (Nat.max l 1) (adv 1 m) false).
  mstep (get_st s0 rest (Nat.max l 1) (adv 1 m) false).
  cbn [sc_flow_level sc_mark st_with].
  destruct (breakz_cases _ Hz) as [E3|[E3|E3]]; rewrite E3; destruct single; reflexivity.
Qed.

(* THE SINGLE-LINE THEOREM (states in normal form) *)
Lemma scan_flow_scalar_single_line_st F single s0 t rest l m w :
  forallb (text_char single) t = true -> (length t < F)%nat ->
  (single = true -> (nth 0 rest 0 =? 39) = false) ->
  is_breakz (nth 0 rest 0) = true ->
  (sc_indent s0 <= Z.of_N (m_col m) + 1)%Z ->
  scan_flow_scalar str_ops F single (st_with s0 (quote_of single :: enc single t ++ quote_of single :: rest) l m w)
  = Ok (({| sp_start := m; sp_end := adv (N.of_nat (length (enc single t)) + 2) m |}, TScalar (style_of single) t),
        st_with s0 rest (Nat.max l 4) (adv (N.of_nat (length (enc single t)) + 2) m) false).
Proof.
  intros Ht HF Hclose Hz Hind.
  rewrite scan_flow_scalar_phases.
  assert (Em : mark (st_with s0 (quote_of single :: enc single t ++ quote_of single :: rest) l m w)
               = Ok (m, st_with s0 (quote_of single :: enc single t ++ quote_of single :: rest) l m w)) by reflexivity.
  mstep Em.
  mstep (skip_non_blank_st s0 (quote_of single :: enc single t ++ quote_of single :: rest) l m w). cbn [tl].
  destruct F as [|F']; [lia|].
  assert (Hm : mark_ok s0 (adv 1 m)).
  { unfold mark_ok. rewrite adv_col. split; lia. }
  destruct (text_head_not_z single t rest Ht) as [x [tail [Ex Hx]]].
  assert (EL : loop (S F') single m (S F') [] false 0 [] (st_with s0 (enc single t ++ quote_of single :: rest) l (adv 1 m) false)
               = Ok (rev t ++ [], st_with s0 (quote_of single :: rest) (Nat.max l 4)
                                          (adv (N.of_nat (length (enc single t))) (adv 1 m)) false)).
  { cbn [loop]. rewrite Ex. rewrite loop_body_entry by assumption. rewrite <- Ex.
    destruct (PA_PB (S F') single m s0 rest Hclose t) as [A _].
    eapply A; [exact Ht|lia|exact HF|lia|exact HF|exact Hm]. }
  mstep EL.
  rewrite finish_at_eol by (lia || exact Hz).
  rewrite app_nil_r, rev_involutive.
  replace (Nat.max (Nat.max l 4) 1) with (Nat.max l 4) by lia.
  replace (adv 1 (adv (N.of_nat (length (enc single t))) (adv 1 m))) with (adv (N.of_nat (length (enc single t)) + 2) m)
    by (rewrite !adv_adv; f_equal; lia).
  reflexivity.
Qed.

(* ... and for an arbitrary scanner state *)
Theorem scan_flow_scalar_single_line F single (s : sc strin) t rest :
  forallb (text_char single) t = true -> (length t < F)%nat ->
  si_chars (sc_in s) = quote_of single :: enc single t ++ quote_of single :: rest ->
  (single = true -> (nth 0 rest 0 =? 39) = false) ->
  is_breakz (nth 0 rest 0) = true ->
  (sc_indent s <= Z.of_N (m_col (sc_mark s)) + 1)%Z ->
  exists s',
    scan_flow_scalar str_ops F single s
    = Ok (({| sp_start := sc_mark s; sp_end := adv (N.of_nat (length (enc single t)) + 2) (sc_mark s) |},
           TScalar (style_of single) t), s')
    /\ si_chars (sc_in s') = rest.
Proof.
  intros Ht HF Hc Hclose Hz Hind.
  pose proof (scan_flow_scalar_single_line_st F single s t rest (si_look (sc_in s)) (sc_mark s) (sc_lws s)
                Ht HF Hclose Hz Hind) as H.
  rewrite <- Hc in H. rewrite <- (st_with_id s) in H. rewrite H.
  eexists. split; reflexivity.
Qed.


(* ================================================================================================= *)
(* a double-quoted word with escapes: literal characters, named escapes, numeric escapes             *)
(* ================================================================================================= *)
Definition item_ok (i : dq_item) : Prop :=
  match i with
  | ILit c => ordinary false c = true
  | INamed e v => spec_escape e = Some v
  | IHex e ds v => In (e, length ds) spec_numeric_escapes /\ hex_value ds = Some v /\ spec_scalar_value v = true
  end.
Lemma named_not_break e v : spec_escape e = Some v -> is_break e = false.
Proof.
  intros H. destruct (is_break e) eqn:E; [|reflexivity]. exfalso.
  unfold is_break in E. apply orb_prop in E. destruct E as [E|E]; apply N.eqb_eq in E; subst; vm_compute in H; discriminate.
Qed.
Lemma numeric_not_break e n : In (e, n) spec_numeric_escapes -> is_break e = false.
Proof. intros [H|[H|[H|[]]]]; inversion H; reflexivity. Qed.

(* the backslash case of consume_nonws, when what follows is not a break *)
Lemma consume_nonws_escape fuel acc start s0 e tail l m w :
  is_break e = false ->
  consume_nonws str_ops (S fuel) false acc start (st_with s0 (92 :: e :: tail) l m w)
  = bind (resolve_escape str_ops start) (fun r => consume_nonws str_ops fuel false (r :: acc) start)
         (st_with s0 (92 :: e :: tail) (Nat.max l 2) m w).
Proof.
  intros He. cbn [consume_nonws].
  mstep (look_st 2 s0 (92 :: e :: tail) l m w). unfold peek.
  mstep (peekn_st 0 s0 (92 :: e :: tail) (Nat.max l 2) m w). cbn [nth].
  change (is_blank_or_breakz 92) with false. cbv iota.
  mstep (peekn_st 1 s0 (92 :: e :: tail) (Nat.max l 2) m w). cbn [nth].
  rewrite He. reflexivity.
Qed.

Lemma consume_nonws_items : forall items fuel acc start s0 x rest l m w,
  Forall item_ok items -> stops false x rest -> (length items < fuel)%nat ->
  exists l' w',
    consume_nonws str_ops fuel false acc start (st_with s0 (flat_map item_src items ++ x :: rest) l m w)
    = Ok ((rev (map item_val items) ++ acc, false),
          st_with s0 (x :: rest) l' (adv (N.of_nat (length (flat_map item_src items))) m) w').
Proof.
  induction items as [|i items IH]; intros fuel acc start s0 x rest l m w Hok Hs Hf.
  - destruct fuel as [|fuel]; [cbn in Hf; lia|]. cbn [flat_map app length map rev].
    rewrite consume_nonws_stop by exact Hs. change (N.of_nat 0) with 0. rewrite adv_0. eauto.
  - destruct fuel as [|fuel]; [cbn in Hf; lia|]. inversion Hok as [|? ? Hi Hr]; subst.
    cbn [flat_map map rev]. rewrite <- app_assoc.
    assert (Hf' : (length items < fuel)%nat) by (cbn in Hf; lia).
    destruct i as [c|e v|e ds v]; cbn [item_ok item_src item_val] in *.
    + pose proof (consume_nonws_step false c fuel acc start s0 (flat_map item_src items ++ x :: rest) l m w Hi) as S1.
      change (enc1 false c) with [c] in S1. rewrite S1.
      destruct (IH fuel (c :: acc) start s0 x rest (Nat.max l 2) (adv (N.of_nat (length [c])) m) false Hr Hs Hf') as [l' [w' E]].
      exists l', w'. etransitivity; [exact E|]. rewrite adv_adv, app_length, Nat2N.inj_add. rewrite <- app_assoc. reflexivity.
    + cbn [app]. rewrite consume_nonws_escape by (eapply named_not_break; exact Hi).
      mstep (resolve_escape_named start s0 e v (flat_map item_src items ++ x :: rest) (Nat.max l 2) m w Hi). cbv beta.
      destruct (IH fuel (v :: acc) start s0 x rest (Nat.max l 2) (adv 2 m) false Hr Hs Hf') as [l' [w' E]].
      exists l', w'. etransitivity; [exact E|]. rewrite adv_adv. rewrite <- app_assoc.
      replace (N.of_nat (length (92 :: e :: flat_map item_src items))) with (2 + N.of_nat (length (flat_map item_src items)))
        by (cbn [length]; lia).
      reflexivity.
    + destruct Hi as [Hin [Hv Hsv]].
      cbn [app]. rewrite consume_nonws_escape by (eapply numeric_not_break; exact Hin).
      rewrite <- app_assoc.
      pose proof (resolve_escape_numeric start s0 e (length ds) ds v (flat_map item_src items ++ x :: rest)
                    (Nat.max l 2) m w Hin eq_refl Hv) as R.
      rewrite Hsv in R. mstep R. cbv beta.
      destruct (IH fuel (v :: acc) start s0 x rest (Nat.max (Nat.max l 2) (length ds)) (adv (N.of_nat (length ds)) (adv 2 m)) false Hr Hs Hf')
        as [l' [w' E]].
      exists l', w'. etransitivity; [exact E|]. rewrite !adv_adv.
      replace (N.of_nat (length (92 :: e :: ds ++ flat_map item_src items)))
        with (2 + N.of_nat (length ds) + N.of_nat (length (flat_map item_src items)))
        by (cbn [length]; rewrite app_length; lia).
      rewrite N.add_assoc. reflexivity.
Qed.

(* scalar events of a pipeline run (for the examples) *)
Definition scalars_of (r : list (event * span) * pend) : list (style * list N) * bool :=
  (flat_map (fun e => match fst e with EScalar v st _ _ => [(st, v)] | _ => [] end) (fst r),
   match snd r with PDone => true | _ => false end).
