(* Joint proof "the scanner never exhausts its (linear) fuel" (see SCANFUEL.md): the family of directives, tags and
   anchors (Model/SDir.v).

   Every helper lemma has the continuation form
       rl s < F -> (forall r s', rl s' <= rl s -> lk s <= lk s' -> Q r s') -> fwp (f ...) Q s
   (or [rl s' < rl s] when the function certainly consumes a character).  Every fuelled loop of the family consumes
   one character per iteration, and the character has just been peeked and belongs to a class that excludes NUL
   (so it is really there and [rl] drops); the loop is started with [F > rl s], so it ends before the fuel does.
   [scan_uri_escapes] runs on a constant fuel 5: the first iteration fixes a width <= 4 and each later iteration
   decreases it, so at most 4 iterations are made. *)
From Coq Require Import List NArith ZArith Bool Arith Lia.
Import ListNotations.
Require Import Parser SBase SPrim SDir SScalar SFetch ScanFuel.
Local Open Scope nat_scope.

Arguments Nat.ltb : simpl never.
Arguments Nat.leb : simpl never.
Arguments Nat.eqb : simpl never.
Arguments Nat.sub : simpl never.

Ltac dif := match goal with |- fwp (if ?b then _ else _) _ _ => destruct b end.
Ltac difE E := match goal with |- fwp (if ?b then _ else _) _ _ => destruct b eqn:E end.

(* ---------------- the measure ---------------- *)
Lemma rl_eq s s' : frem s' = frem s -> rl s' = rl s.
Proof. unfold rl. intros ->. reflexivity. Qed.
Lemma fnth_eq s s' i : frem s' = frem s -> fnth s' i = fnth s i.
Proof. unfold fnth. intros ->. reflexivity. Qed.
(* consuming a character that was seen (after a [look]) not to be NUL *)
Lemma tl_lt s s1 s2 : fnth s 0 <> 0%N -> frem s1 = frem s -> frem s2 = tl (frem s1) -> rl s2 < rl s.
Proof.
  unfold fnth, rl. intros H R1 R2. rewrite R2, R1. destruct (frem s); cbn [nth tl length] in *; [congruence|lia].
Qed.
Lemma tl_le s s1 s2 : frem s1 = frem s -> frem s2 = tl (frem s1) -> rl s2 <= rl s.
Proof. unfold rl. intros R1 R2. rewrite R2, R1. destruct (frem s); cbn [tl length]; lia. Qed.
Lemma skipn_lt n s s1 s2 : fnth s 0 <> 0%N -> frem s1 = frem s -> frem s2 = skipn (S n) (frem s1) -> rl s2 < rl s.
Proof.
  unfold fnth, rl. intros H R1 R2. rewrite R2, R1, skipn_length.
  destruct (frem s); cbn [nth length] in *; [congruence|lia].
Qed.
Lemma class_nz (p : chr -> bool) c : p 0%N = false -> p c = true -> c <> 0%N.
Proof. intros H0 H E. subst c. congruence. Qed.
Lemma eqb_nz c k : (c =? k)%N = true -> k <> 0%N -> c <> 0%N.
Proof. intros H Hk. apply N.eqb_eq in H. subst c. exact Hk. Qed.

(* ---------------- primitives in continuation form ---------------- *)
Lemma c_look n (Q : unit -> fst_ -> Prop) s :
  (forall s', frem s' = frem s -> lk s <= lk s' -> Q tt s') -> fwp (look str_ops n) Q s.
Proof. intros HQ. apply fwp_look. intros s' R L _. apply HQ; [exact R|lia]. Qed.
Lemma c_look_ch (Q : chr -> fst_ -> Prop) s :
  (forall s', frem s' = frem s -> lk s <= lk s' -> Q (fnth s 0) s') -> fwp (look_ch str_ops) Q s.
Proof.
  intros HQ. apply fwp_look_ch. intros s' R L _. rewrite (fnth_eq s s' 0 R). apply HQ; [exact R|lia].
Qed.
Lemma c_adv_mark n (Q : unit -> fst_ -> Prop) s :
  (forall s', frem s' = frem s -> lk s' = lk s -> Q tt s') -> fwp (adv_mark n) Q s.
Proof. intros HQ. unfold adv_mark. apply fwp_modify. apply HQ; reflexivity. Qed.
Lemma c_in_skip (Q : unit -> fst_ -> Prop) s :
  (forall s', frem s' = tl (frem s) -> lk s' = lk s -> Q tt s') -> fwp (in_skip str_ops) Q s.
Proof. intros HQ. apply fwp_in_skip. intros s' R L _. apply HQ; assumption. Qed.
Lemma c_skip_nb (Q : unit -> fst_ -> Prop) s :
  (forall s', frem s' = tl (frem s) -> lk s' = lk s -> Q tt s') -> fwp (skip_non_blank str_ops) Q s.
Proof.
  intros HQ. unfold skip_non_blank. apply fwp_bind. apply fwp_in_skip. intros s1 R1 L1 _.
  apply fwp_bind. apply c_adv_mark. intros s2 R2 L2. apply fwp_modify.
  apply HQ; [change (frem s2 = tl (frem s)); congruence|change (lk s2 = lk s); congruence].
Qed.
Lemma c_skip_blank (Q : unit -> fst_ -> Prop) s :
  (forall s', frem s' = tl (frem s) -> lk s' = lk s -> Q tt s') -> fwp (skip_blank str_ops) Q s.
Proof.
  intros HQ. unfold skip_blank. apply fwp_bind. apply fwp_in_skip. intros s1 R1 L1 _.
  apply c_adv_mark. intros s2 R2 L2. apply HQ; congruence.
Qed.
Lemma c_skip_nl (Q : unit -> fst_ -> Prop) s :
  (forall s', frem s' = tl (frem s) -> lk s' = lk s -> Q tt s') -> fwp (skip_nl str_ops) Q s.
Proof.
  intros HQ. unfold skip_nl. apply fwp_bind. apply fwp_in_skip. intros s1 R1 L1 _.
  apply fwp_modify. apply HQ; [change (frem s1 = tl (frem s)); exact R1|change (lk s1 = lk s); exact L1].
Qed.
Lemma c_skip_n_nb n (Q : unit -> fst_ -> Prop) s :
  (forall s', frem s' = skipn n (frem s) -> lk s' = lk s -> Q tt s') -> fwp (skip_n_non_blank str_ops n) Q s.
Proof.
  intros HQ. unfold skip_n_non_blank. apply fwp_bind. apply fwp_in_skip_n. intros s1 R1 L1 _.
  apply fwp_bind. apply c_adv_mark. intros s2 R2 L2. apply fwp_modify.
  apply HQ; [change (frem s2 = skipn n (frem s)); congruence|change (lk s2 = lk s); congruence].
Qed.

(* skip_linebreak consumes at most two characters *)
Lemma c_skip_linebreak (Q : unit -> fst_ -> Prop) s :
  (forall s', rl s' <= rl s -> lk s <= lk s' -> Q tt s') -> fwp (skip_linebreak str_ops) Q s.
Proof.
  intros HQ. unfold skip_linebreak, next_2_are.
  apply fwp_bind. apply fwp_bind. apply fwp_assert_buflen.
  apply fwp_bind. apply fwp_peek. apply fwp_bind. apply fwp_peekn. apply fwp_ret. cbv beta.
  dif.
  - apply fwp_bind. apply c_skip_blank. intros s1 R1 L1. apply c_skip_nl. intros s2 R2 L2.
    pose proof (tl_le s s s1 eq_refl R1). pose proof (tl_le s1 s1 s2 eq_refl R2). apply HQ; lia.
  - apply fwp_bind. apply fwp_peek. cbv beta. dif.
    + apply c_skip_nl. intros s2 R2 L2. pose proof (tl_le s s s2 eq_refl R2). apply HQ; lia.
    + apply fwp_ret. apply HQ; lia.
Qed.

(* ---------------- the primitive loops of SPrim.v used by this family ---------------- *)
Lemma c_skip_while p (Q : N -> fst_ -> Prop) : p 0%N = false -> forall f s, rl s < f ->
  (forall r s', rl s' <= rl s -> lk s <= lk s' -> Q r s') -> fwp (in_skip_while str_ops f p) Q s.
Proof.
  intros Hp f s Hf HQ. unfold in_skip_while.
  match goal with |- fwp (?g f 0%N) _ _ =>
    cut (forall f k s, rl s < f -> (forall r s', rl s' <= rl s -> lk s <= lk s' -> Q r s') -> fwp (g f k) Q s);
    [intros H; apply H; assumption|] end.
  clear f s Hf HQ. induction f as [|f IH]; intros k s Hf HQ; [exfalso; lia|].
  cbv beta iota zeta.
  apply fwp_bind. apply c_look_ch. intros s1 R1 L1. cbv beta.
  difE Ep; [|apply fwp_ret; apply HQ; [rewrite (rl_eq _ _ R1); lia|lia]].
  apply fwp_bind. apply c_in_skip. intros s2 R2 L2.
  pose proof (tl_lt s s1 s2 (class_nz p _ Hp Ep) R1 R2).
  apply IH; [lia|]. intros r s' A B. apply HQ; lia.
Qed.

Lemma c_fetch_alpha (Q : list chr * N -> fst_ -> Prop) : forall f acc s, rl s < f ->
  (forall r s', rl s' <= rl s -> lk s <= lk s' -> Q r s') -> fwp (in_fetch_while_alpha str_ops f acc) Q s.
Proof.
  intros f acc s Hf HQ. unfold in_fetch_while_alpha.
  match goal with |- fwp (?g f acc 0%N) _ _ =>
    cut (forall f a k s, rl s < f -> (forall r s', rl s' <= rl s -> lk s <= lk s' -> Q r s') -> fwp (g f a k) Q s);
    [intros H; apply H; assumption|] end.
  clear f acc s Hf HQ. induction f as [|f IH]; intros a k s Hf HQ; [exfalso; lia|].
  cbv beta iota zeta.
  apply fwp_bind. apply c_look_ch. intros s1 R1 L1. cbv beta.
  difE Ep; [|apply fwp_ret; apply HQ; [rewrite (rl_eq _ _ R1); lia|lia]].
  apply fwp_bind. apply c_in_skip. intros s2 R2 L2.
  pose proof (tl_lt s s1 s2 (class_nz is_alpha _ eq_refl Ep) R1 R2).
  apply IH; [lia|]. intros r s' A B. apply HQ; lia.
Qed.

(* the bulk loops followed by the [adv_mark] of their count *)
Lemma c_skip_blanks {B} F (k : FM B) (Q : B -> fst_ -> Prop) s : rl s < F ->
  (forall s', rl s' <= rl s -> lk s <= lk s' -> fwp k Q s') ->
  fwp (bind (in_skip_while_blank str_ops F) (fun n => bind (adv_mark n) (fun _ => k))) Q s.
Proof.
  intros Hf HQ. apply fwp_bind. unfold in_skip_while_blank. apply c_skip_while; [reflexivity|exact Hf|].
  intros n s1 A1 B1. apply fwp_bind. apply c_adv_mark. intros s2 R2 L2. apply HQ; [rewrite (rl_eq _ _ R2)|]; lia.
Qed.
Lemma c_skip_non_breakz {B} F (k : FM B) (Q : B -> fst_ -> Prop) s : rl s < F ->
  (forall s', rl s' <= rl s -> lk s <= lk s' -> fwp k Q s') ->
  fwp (bind (in_skip_while_non_breakz str_ops F) (fun n => bind (adv_mark n) (fun _ => k))) Q s.
Proof.
  intros Hf HQ. apply fwp_bind. unfold in_skip_while_non_breakz. apply c_skip_while; [reflexivity|exact Hf|].
  intros n s1 A1 B1. apply fwp_bind. apply c_adv_mark. intros s2 R2 L2. apply HQ; [rewrite (rl_eq _ _ R2)|]; lia.
Qed.
Lemma c_fetch_alpha_adv {B} F acc (k : list chr * N -> FM B) (Q : B -> fst_ -> Prop) s : rl s < F ->
  (forall r s', rl s' <= rl s -> lk s <= lk s' -> fwp (k r) Q s') ->
  fwp (bind (in_fetch_while_alpha str_ops F acc) (fun r => bind (adv_mark (snd r)) (fun _ => k r))) Q s.
Proof.
  intros Hf HQ. apply fwp_bind. apply c_fetch_alpha; [exact Hf|].
  intros r s1 A1 B1. apply fwp_bind. apply c_adv_mark. intros s2 R2 L2. apply HQ; [rewrite (rl_eq _ _ R2)|]; lia.
Qed.

(* ---------------- scan_uri_escapes: constant fuel 5, at most 4 iterations; consumes '%' each time ---------------- *)
Lemma c_uri_escapes mk (Q : chr -> fst_ -> Prop) s :
  (forall c s', rl s' < rl s -> lk s <= lk s' -> Q c s') -> fwp (scan_uri_escapes str_ops mk) Q s.
Proof.
  intros HQ. cbv beta delta [scan_uri_escapes].
  match goal with |- fwp (?g 5 0%N 0%N 0%N true) _ _ =>
    cut (forall n w ln cd fs s, (fs = true -> 5 <= n) -> (fs = false -> N.to_nat w < n) ->
           (forall c s', rl s' < rl s -> lk s <= lk s' -> Q c s') -> fwp (g n w ln cd fs) Q s);
    [intros H; apply H; [lia|discriminate|exact HQ]|] end.
  clear s HQ. induction n as [|n IH]; intros w ln cd fs s Ht Hf HQ; [exfalso; destruct fs; [specialize (Ht eq_refl)|specialize (Hf eq_refl)]; lia|].
  cbv beta iota zeta.
  apply fwp_bind. apply c_look. intros s1 R1 L1.
  apply fwp_bind. apply fwp_peek. apply fwp_bind. apply fwp_peekn. apply fwp_bind. apply fwp_peekn. cbv beta.
  difE Ec; [apply fwp_fail|].
  apply negb_false_iff in Ec. apply andb_true_iff in Ec as [Ec H2]. apply andb_true_iff in Ec as [H0 H1].
  assert (Hnz : fnth s 0 <> 0%N).
  { rewrite <- (fnth_eq s s1 0 R1). apply (eqb_nz _ 37%N); [exact H0|discriminate]. }
  apply fwp_bind.
  match goal with |- fwp _ ?QQ _ =>
    assert (HC : forall r, (if fs then N.to_nat (fst r) <= 4 else fst r = w) -> QQ r s1) end.
  { intros [w' cd'] Hw. cbn [fst] in Hw. cbv beta iota zeta.
    apply fwp_bind. apply c_skip_n_nb. intros s2 R2 L2.
    pose proof (skipn_lt 2 s s1 s2 Hnz R1 R2) as Hlt.
    difE Ew.
    - dif; [apply fwp_ret; apply HQ; lia|apply fwp_fail].
    - apply N.eqb_neq in Ew. apply IH; [discriminate| |intros c s' A B; apply HQ; lia].
      intros _. destruct fs; [specialize (Ht eq_refl); lia|specialize (Hf eq_refl); subst w'; lia]. }
  destruct fs; repeat dif; try apply fwp_fail;
    match goal with |- fwp (ret ?x) _ _ => apply (HC x) end; cbn [fst]; try reflexivity; lia.
Qed.

(* ---------------- tags ---------------- *)
Lemma c_tag_handle F d mk (Q : list chr -> fst_ -> Prop) s : rl s < F ->
  (forall r s', rl s' < rl s -> lk s <= lk s' -> Q r s') -> fwp (scan_tag_handle str_ops F d mk) Q s.
Proof.
  intros Hf HQ. unfold scan_tag_handle.
  apply fwp_bind. apply c_look_ch. intros s1 R1 L1. cbv beta.
  difE E33; [apply fwp_fail|]. apply negb_false_iff in E33.
  apply fwp_bind. apply c_skip_nb. intros s2 R2 L2.
  assert (Hlt : rl s2 < rl s) by (apply (tl_lt s s1 s2); [apply (eqb_nz _ 33%N); [exact E33|discriminate]|exact R1|exact R2]).
  apply c_fetch_alpha_adv; [lia|]. intros r s3 A3 B3.
  apply fwp_bind. apply fwp_peek. cbv beta.
  dif.
  - apply fwp_bind. apply c_skip_nb. intros s4 R4 L4. pose proof (tl_le s3 s3 s4 eq_refl R4).
    apply fwp_ret. apply HQ; lia.
  - dif; [apply fwp_fail|apply fwp_ret; apply HQ; lia].
Qed.

Lemma c_uri_loop F p mk acc (Q : list chr * N -> fst_ -> Prop) s : p 0%N = false -> rl s < F ->
  (forall r s', rl s' <= rl s -> lk s <= lk s' -> Q r s') -> fwp (uri_loop str_ops F p mk acc) Q s.
Proof.
  intros Hp Hf HQ. unfold uri_loop.
  match goal with |- fwp (?g F acc 0%N) _ _ =>
    cut (forall f a n s, rl s < f -> (forall r s', rl s' <= rl s -> lk s <= lk s' -> Q r s') -> fwp (g f a n) Q s);
    [intros H; apply H; assumption|] end.
  clear s Hf HQ. induction f as [|f IH]; intros a n s Hf HQ; [exfalso; lia|].
  cbv beta iota zeta.
  apply fwp_bind. apply c_look_ch. intros s1 R1 L1. cbv beta.
  difE Ep; [|apply fwp_ret; apply HQ; [rewrite (rl_eq _ _ R1); lia|lia]].
  pose proof (rl_eq _ _ R1) as E1.
  dif.
  - apply fwp_bind. apply c_uri_escapes. intros e s2 A2 B2.
    apply IH; [lia|]. intros r s' A B. apply HQ; lia.
  - apply fwp_bind. apply c_skip_nb. intros s2 R2 L2.
    pose proof (tl_lt s s1 s2 (class_nz p _ Hp Ep) R1 R2).
    apply IH; [lia|]. intros r s' A B. apply HQ; lia.
Qed.

Lemma c_tag_prefix F mk (Q : list chr -> fst_ -> Prop) s : rl s < F ->
  (forall r s', rl s' <= rl s -> lk s <= lk s' -> Q r s') -> fwp (scan_tag_prefix str_ops F mk) Q s.
Proof.
  intros Hf HQ. unfold scan_tag_prefix.
  apply fwp_bind. apply c_look_ch. intros s1 R1 L1. cbv beta.
  pose proof (rl_eq _ _ R1) as E1.
  apply fwp_bind.
  match goal with |- fwp _ ?QQ _ => assert (HC : forall acc s', rl s' <= rl s -> lk s <= lk s' -> QQ acc s') end.
  { intros acc s' A' B'. cbv beta.
    apply fwp_bind. apply c_uri_loop; [reflexivity|lia|]. intros r s2 A2 B2.
    apply fwp_ret. apply HQ; lia. }
  dif.
  - apply fwp_bind. apply c_skip_nb. intros s2 R2 L2. pose proof (tl_le s s1 s2 R1 R2).
    apply fwp_ret. apply HC; lia.
  - dif; [apply fwp_fail|]. dif.
    + apply fwp_bind. apply c_uri_escapes. intros e s2 A2 B2. apply fwp_ret. apply HC; lia.
    + apply fwp_bind. apply c_skip_nb. intros s2 R2 L2. pose proof (tl_le s s1 s2 R1 R2).
      apply fwp_ret. apply HC; lia.
Qed.

(* the first character (seen by the caller, not NUL) is consumed *)
Lemma c_verbatim_tag F mk (Q : list chr -> fst_ -> Prop) s : rl s < F -> fnth s 0 <> 0%N ->
  (forall r s', rl s' < rl s -> lk s <= lk s' -> Q r s') -> fwp (scan_verbatim_tag str_ops F mk) Q s.
Proof.
  intros Hf Hnz HQ. unfold scan_verbatim_tag.
  apply fwp_bind. apply c_skip_nb. intros s1 R1 L1. pose proof (tl_lt s s s1 Hnz eq_refl R1).
  apply fwp_bind. apply c_skip_nb. intros s2 R2 L2. pose proof (tl_le s1 s1 s2 eq_refl R2).
  apply fwp_bind. apply c_uri_loop; [reflexivity|lia|]. intros r s3 A3 B3.
  apply fwp_bind. apply fwp_peek. cbv beta.
  dif; [apply fwp_fail|].
  apply fwp_bind. apply c_skip_nb. intros s4 R4 L4. pose proof (tl_le s3 s3 s4 eq_refl R4).
  apply fwp_ret. apply HQ; lia.
Qed.

Lemma c_tag_shorthand_suffix F head mk (Q : list chr -> fst_ -> Prop) s : rl s < F ->
  (forall r s', rl s' <= rl s -> lk s <= lk s' -> Q r s') -> fwp (scan_tag_shorthand_suffix str_ops F head mk) Q s.
Proof.
  intros Hf HQ. unfold scan_tag_shorthand_suffix. cbv beta zeta.
  apply fwp_bind. apply c_uri_loop; [reflexivity|exact Hf|]. intros r s1 A1 B1.
  dif; [apply fwp_fail|apply fwp_ret; apply HQ; lia].
Qed.

Theorem scan_tag_ok : fuel_scan_tag.
Proof.
  intros F s HF Hnz. unfold fuel_ok in HF.
  unfold scan_tag, mark.
  apply fwp_bind. apply fwp_gets.
  apply fwp_bind. apply c_look. intros s1 R1 L1. pose proof (rl_eq _ _ R1) as E1.
  apply fwp_bind. unfold nth_char_is. apply fwp_bind. apply fwp_peekn. apply fwp_ret. cbv beta.
  apply fwp_bind.
  match goal with |- fwp _ ?QQ _ => assert (HC : forall hs s', rl s' < rl s -> lk s <= lk s' -> QQ hs s') end.
  { intros hs s' A' B'. cbv beta.
    apply fwp_bind. apply c_look_ch. intros s2 R2 L2.
    apply fwp_bind. unfold flow_level. apply fwp_gets. cbv beta.
    dif; [|apply fwp_fail].
    apply fwp_bind. apply fwp_gets. apply fwp_ret. unfold lt_post. rewrite (rl_eq _ _ R2). split; lia. }
  dif.
  - apply fwp_bind. apply c_verbatim_tag; [lia|rewrite (fnth_eq s s1 0 R1); exact Hnz|].
    intros sfx s2 A2 B2. apply fwp_ret. apply HC; lia.
  - apply fwp_bind. apply c_tag_handle; [lia|]. intros h s2 A2 B2.
    dif.
    + apply fwp_bind. apply c_tag_shorthand_suffix; [lia|]. intros sfx s3 A3 B3.
      apply fwp_ret. apply HC; lia.
    + apply fwp_bind. apply c_tag_shorthand_suffix; [lia|]. intros sfx s3 A3 B3.
      destruct sfx; apply fwp_ret; apply HC; lia.
Qed.

(* ---------------- anchors and aliases ---------------- *)
Theorem scan_anchor_ok : fuel_scan_anchor.
Proof.
  intros F alias s HF Hnz. unfold fuel_ok in HF.
  unfold scan_anchor, mark.
  apply fwp_bind. apply fwp_gets.
  apply fwp_bind. apply c_skip_nb. intros s1 R1 L1. pose proof (tl_lt s s s1 Hnz eq_refl R1) as Hlt.
  apply fwp_bind.
  match goal with |- fwp (?g F []) ?QQ _ =>
    set (Q' := QQ);
    assert (HC : forall r s', rl s' < rl s -> lk s <= lk s' -> Q' r s');
    [|cut (forall f acc s', rl s' < f -> rl s' < rl s -> lk s <= lk s' -> fwp (g f acc) Q' s');
      [intros H; apply H; lia|]] end.
  { intros r s' A' B'. unfold Q'. destruct r; [apply fwp_fail|].
    apply fwp_bind. apply fwp_gets. apply fwp_ret. unfold lt_post. split; lia. }
  induction f as [|f IH]; intros acc s' Hf A' B'; [exfalso; lia|].
  cbv beta iota zeta.
  apply fwp_bind. apply c_look_ch. intros s2 R2 L2. cbv beta. pose proof (rl_eq _ _ R2) as E2.
  difE Ea.
  - apply fwp_bind. apply c_skip_nb. intros s3 R3 L3.
    pose proof (tl_lt s' s2 s3 (class_nz is_anchor_char _ eq_refl Ea) R2 R3).
    apply IH; lia.
  - apply fwp_ret. apply HC; lia.
Qed.

(* ---------------- directives ---------------- *)
Lemma c_version_number F mk (Q : N -> fst_ -> Prop) s : rl s < F ->
  (forall r s', rl s' <= rl s -> lk s <= lk s' -> Q r s') -> fwp (scan_version_directive_number str_ops F mk) Q s.
Proof.
  intros Hf HQ. unfold scan_version_directive_number.
  match goal with |- fwp (?g F 0%N 0%N) _ _ =>
    cut (forall f val len s, rl s < f -> (forall r s', rl s' <= rl s -> lk s <= lk s' -> Q r s') -> fwp (g f val len) Q s);
    [intros H; apply H; assumption|] end.
  clear s Hf HQ. induction f as [|f IH]; intros val len s Hf HQ; [exfalso; lia|].
  cbv beta iota zeta.
  apply fwp_bind. apply c_look_ch. intros s1 R1 L1. cbv beta. pose proof (rl_eq _ _ R1) as E1.
  difE Ed.
  - dif; [apply fwp_fail|].
    apply fwp_bind. dif; [apply fwp_panic|]. apply fwp_ret.
    apply fwp_bind. apply c_skip_nb. intros s2 R2 L2.
    pose proof (tl_lt s s1 s2 (class_nz is_digit _ eq_refl Ed) R1 R2).
    apply IH; [lia|]. intros r s' A B. apply HQ; lia.
  - dif; [apply fwp_fail|apply fwp_ret; apply HQ; lia].
Qed.

Lemma c_version_value F mk (Q : token -> fst_ -> Prop) s : rl s < F ->
  (forall t s', rl s' <= rl s -> lk s <= lk s' -> Q t s') -> fwp (scan_version_directive_value str_ops F mk) Q s.
Proof.
  intros Hf HQ. unfold scan_version_directive_value, mark.
  apply c_skip_blanks; [exact Hf|]. intros s1 A1 B1.
  apply fwp_bind. apply c_version_number; [lia|]. intros major s2 A2 B2.
  apply fwp_bind. apply fwp_peek. cbv beta.
  dif; [apply fwp_fail|].
  apply fwp_bind. apply c_skip_nb. intros s3 R3 L3. pose proof (tl_le s2 s2 s3 eq_refl R3).
  apply fwp_bind. apply c_version_number; [lia|]. intros minor s4 A4 B4.
  apply fwp_bind. apply fwp_gets. apply fwp_ret. apply HQ; lia.
Qed.

Lemma c_tag_directive_value F mk (Q : token -> fst_ -> Prop) s : rl s < F ->
  (forall t s', rl s' <= rl s -> lk s <= lk s' -> Q t s') -> fwp (scan_tag_directive_value str_ops F mk) Q s.
Proof.
  intros Hf HQ. unfold scan_tag_directive_value, mark.
  apply c_skip_blanks; [exact Hf|]. intros s1 A1 B1.
  apply fwp_bind. apply c_tag_handle; [lia|]. intros h s2 A2 B2.
  apply c_skip_blanks; [lia|]. intros s3 A3 B3.
  apply fwp_bind. apply c_tag_prefix; [lia|]. intros p s4 A4 B4.
  apply fwp_bind. apply c_look. intros s5 R5 L5. pose proof (rl_eq _ _ R5) as E5.
  apply fwp_bind. apply fwp_peek. cbv beta.
  dif; [|apply fwp_fail].
  apply fwp_bind. apply fwp_gets. apply fwp_ret. apply HQ; lia.
Qed.

Lemma c_directive_name F (Q : list chr -> fst_ -> Prop) s : rl s < F ->
  (forall r s', rl s' <= rl s -> lk s <= lk s' -> Q r s') -> fwp (scan_directive_name str_ops F) Q s.
Proof.
  intros Hf HQ. unfold scan_directive_name, mark.
  apply fwp_bind. apply fwp_gets.
  apply c_fetch_alpha_adv; [exact Hf|]. intros r s1 A1 B1.
  destruct (fst r) as [|x l]; [apply fwp_fail|].
  apply fwp_bind. apply fwp_peek. cbv beta.
  dif; [apply fwp_ret; apply HQ; lia|apply fwp_fail].
Qed.

Section FuelDir.
Hypothesis H_skip_ws_to_eol : fuel_skip_ws_to_eol.

Theorem scan_directive_ok : fuel_scan_directive.
Proof using H_skip_ws_to_eol.
  intros F s HF Hnz. pose proof HF as HF'. unfold fuel_ok in HF'.
  unfold scan_directive, mark.
  apply fwp_bind. apply fwp_gets.
  apply fwp_bind. apply c_skip_nb. intros s1 R1 L1. pose proof (tl_lt s s s1 Hnz eq_refl R1) as Hlt.
  apply fwp_bind. apply c_directive_name; [lia|]. intros name s2 A2 B2.
  apply fwp_bind.
  match goal with |- fwp _ ?QQ _ => assert (HC : forall tk s', rl s' < rl s -> lk s <= lk s' -> QQ tk s') end.
  { intros tk s' A' B'. cbv beta.
    apply fwp_bind. eapply fwp_mono; [apply H_skip_ws_to_eol; apply (fuel_ok_le F s); [exact HF|lia]|].
    intros tw s3 [A3 B3].
    apply fwp_bind. unfold next_is. apply fwp_bind. apply fwp_peek. apply fwp_ret. cbv beta.
    dif; [|apply fwp_fail].
    apply fwp_bind. apply c_look. intros s4 R4 L4. pose proof (rl_eq _ _ R4) as E4.
    apply fwp_bind. apply c_skip_linebreak. intros s5 A5 B5.
    apply fwp_ret. unfold lt_post. split; lia. }
  dif.
  - apply c_version_value; [lia|]. intros tk s3 A3 B3. apply HC; lia.
  - dif.
    + apply c_tag_directive_value; [lia|]. intros tk s3 A3 B3. apply HC; lia.
    + apply c_skip_non_breakz; [lia|]. intros s3 A3 B3.
      apply fwp_bind. apply fwp_gets. apply fwp_ret. apply HC; lia.
Qed.

End FuelDir.

Print Assumptions scan_directive_ok.
Print Assumptions scan_tag_ok.
Print Assumptions scan_anchor_ok.
Check scan_directive_ok.
Check scan_tag_ok.
Check scan_anchor_ok.
