(* C09 — the literal-block style of the emitter (Model/Emitter.v: is_literal_block, emit_literal_block) against the
   block-scalar specification of C05 (Spec/BlockScalar.v, written from YAML 1.2.2 chapter 8.1 and independent of the
   scanner model): for every string that passes the guard of `YamlEmitter::is_literal_block`, the text written by
   `emit_literal_block` is the rendering of a block scalar whose value — [block_value] — is the string, and the
   side conditions of the specification ([case_ok]) hold. *)
From Coq Require Import List NArith ZArith Bool Arith Lia.
Import ListNotations.
Require Import Parser Resolver Emitter EmitterProofs BlockScalar.
Open Scope N_scope.
Arguments N.eqb : simpl never.
Arguments N.leb : simpl never.
Arguments N.ltb : simpl never.

(* ---- the guards that the source must contain (Gen/EmitterTables.v is re-translated from emitter.rs on every run:
        removing a guard from `is_literal_block` breaks here) ---- *)
Lemma tbl_lit_guard_content : lit_guard_content = true.  Proof. reflexivity. Qed.
Lemma tbl_lit_guard_tail : lit_guard_tail = true.        Proof. reflexivity. Qed.
Lemma tbl_lit_guard_root : lit_guard_root = true.        Proof. reflexivity. Qed.
Lemma tbl_lit_root_tab : In 9 lit_root_bad_start.        Proof. cbn. tauto. Qed.
Lemma tbl_lit_root_markers : In [45; 45; 45] lit_root_bad_prefixes /\ In [46; 46; 46] lit_root_bad_prefixes.
Proof. cbn. tauto. Qed.

(* the model writes [chr] / [str] for N / list N: make the implicit type arguments syntactically equal before rewriting *)
Ltac nn := change Resolver.chr with N in *; change Resolver.str with (list N) in *; change Parser.str with (list N) in *.

(* ---------------- small list facts ---------------- *)
Lemma last_In {A} (l : list A) d : l <> [] -> In (last l d) l.
Proof.
  induction l as [|x r IH]; [congruence|]. intros _. destruct r as [|y r']; [left; reflexivity|].
  right. apply IH. discriminate.
Qed.

Lemma ends_with_ch_In (s : list N) (c : N) : ends_with_ch s c = true -> In c s.
Proof.
  unfold ends_with_ch. destruct s as [|x r]; [discriminate|]. intros H. apply N.eqb_eq in H. rewrite <- H.
  apply last_In. discriminate.
Qed.

Lemma ends_with_ch_cons (c x : N) (r : list N) : r <> [] -> ends_with_ch (x :: r) c = ends_with_ch r c.
Proof. destruct r; [congruence|]. reflexivity. Qed.

Lemma ends_with_ch_app (s : list N) (x c : N) : ends_with_ch (s ++ [x]) c = N.eqb x c.
Proof.
  unfold ends_with_ch. destruct (s ++ [x]) eqn:E; [destruct s; discriminate|]. rewrite <- E, last_last. reflexivity.
Qed.

Lemma strip_cr_id (l : list N) : ~ In 13 l -> strip_cr l = l.
Proof.
  intros H. unfold strip_cr. destruct (ends_with_ch l 13) eqn:E; [|reflexivity].
  exfalso. apply H. apply ends_with_ch_In. exact E.
Qed.

Lemma strip_cr_In (l : list N) (c : N) : In c (strip_cr l) -> In c l.
Proof.
  unfold strip_cr. destruct (ends_with_ch l 13); [|auto]. intros H.
  destruct l as [|a b]; [destruct H|].
  destruct (exists_last (l := a :: b)) as (l' & z & E); [discriminate|].
  rewrite E in H |- *. rewrite removelast_last in H. apply in_or_app. left. exact H.
Qed.

(* ---------------- str::lines(), for strings without CR ---------------- *)
(* the lines joined by line feeds *)
Fixpoint join_lf (ls : list (list N)) : list N :=
  match ls with
  | [] => []
  | x :: r => match r with [] => x | _ => x ++ 10 :: join_lf r end
  end.

Lemma join_lf_cons (x : list N) (r : list (list N)) : r <> [] -> join_lf (x :: r) = x ++ 10 :: join_lf r.
Proof. destruct r; [congruence|]. reflexivity. Qed.

Lemma lines_aux_nil (s cur : list N) : lines_aux s cur = [] -> s = [] /\ cur = [].
Proof.
  revert cur. induction s as [|c r IH]; intros cur; cbn [lines_aux].
  - destruct cur; [auto|discriminate].
  - destruct (N.eqb c 10); [discriminate|]. intros H. apply IH in H. destruct H as [_ H]. discriminate H.
Qed.

(* the string is its lines joined by line feeds, plus the final line feed if it has one *)
Lemma lines_aux_text (s : list N) : forall cur : list N, ~ In 13 s -> ~ In 13 cur ->
  rev cur ++ s = join_lf (lines_aux s cur) ++ (if ends_with_ch s 10 then [10] else []).
Proof.
  induction s as [|c r IH]; intros cur Hs Hc; cbn [lines_aux].
  - destruct cur as [|x cur']; [reflexivity|]. cbn [join_lf ends_with_ch]. rewrite !app_nil_r. reflexivity.
  - assert (Hr : ~ In 13 r) by (intros X; apply Hs; right; exact X).
    destruct (N.eqb_spec c 10) as [->|Hne].
    + rewrite strip_cr_id by (rewrite <- in_rev; exact Hc).
      destruct r as [|d r'].
      * reflexivity.
      * assert (Hl : lines_aux (d :: r') [] <> []) by (intros X; apply lines_aux_nil in X; destruct X; discriminate).
        rewrite join_lf_cons by exact Hl. rewrite ends_with_ch_cons by discriminate.
        specialize (IH [] Hr (fun X => X)). cbn [rev app] in IH.
        rewrite <- app_assoc. cbn [app].
        f_equal. f_equal. exact IH.
    + assert (Hc' : ~ In 13 (c :: cur)).
      { intros [X|X]; [|exact (Hc X)]. subst c. apply Hs. left. reflexivity. }
      specialize (IH (c :: cur) Hr Hc'). cbn [rev] in IH. rewrite <- app_assoc in IH. cbn [app] in IH. rewrite IH.
      destruct r as [|d r']; [|rewrite (ends_with_ch_cons 10 c (d :: r')) by discriminate; reflexivity].
      cbn [ends_with_ch last]. destruct (N.eqb_spec c 10); [congruence|]. reflexivity.
Qed.

Lemma rust_lines_text (v : list N) : ~ In 13 v -> v = join_lf (rust_lines v) ++ (if ends_with_ch v 10 then [10] else []).
Proof. intros H. exact (lines_aux_text v [] H (fun X => X)). Qed.

(* the characters of the lines are characters of the string, and none is a line feed *)
Lemma lines_aux_chars (s : list N) : forall (cur l : list N) (c : N), In l (lines_aux s cur) -> In c l -> ~ In 10 cur ->
  (In c s \/ In c cur) /\ c <> 10.
Proof.
  induction s as [|x r IH]; intros cur l c Hl Hcl Hcur; cbn [lines_aux] in Hl.
  - destruct cur as [|y cur']; [destruct Hl|]. destruct Hl as [<-|[]]. apply in_rev in Hcl.
    split; [right; exact Hcl|]. intros ->. exact (Hcur Hcl).
  - destruct (N.eqb_spec x 10) as [->|Hne].
    + destruct Hl as [<-|Hl].
      * assert (Hin : In c (rev cur)) by (apply strip_cr_In; exact Hcl).
        apply in_rev in Hin. split; [right; exact Hin|]. intros ->. exact (Hcur Hin).
      * destruct (IH [] l c Hl Hcl (fun X => X)) as [[A|[]] B]. split; [left; right; exact A|exact B].
    + assert (Hcur' : ~ In 10 (x :: cur)) by (intros [X|X]; [congruence|exact (Hcur X)]).
      destruct (IH (x :: cur) l c Hl Hcl Hcur') as [[A|[A|A]] B]; (split; [|exact B]).
      * left. right. exact A.
      * left. left. exact A.
      * right. exact A.
Qed.

Lemma rust_lines_chars (v l : list N) (c : N) : In l (rust_lines v) -> In c l -> In c v /\ c <> 10.
Proof.
  intros Hl Hc. destruct (lines_aux_chars v [] l c Hl Hc (fun X => X)) as [[A|[]] B]. split; assumption.
Qed.

(* the first line of a string that starts with a character other than a line feed starts with that character *)
Lemma lines_aux_head (s : list N) : forall cur : list N, cur <> [] -> ~ In 13 cur -> ~ In 13 s ->
  exists x rest, lines_aux s cur = (rev cur ++ x) :: rest.
Proof.
  induction s as [|c r IH]; intros cur Hne Hc Hs; cbn [lines_aux].
  - destruct cur; [congruence|]. exists [], []. rewrite app_nil_r. reflexivity.
  - assert (Hr : ~ In 13 r) by (intros X; apply Hs; right; exact X).
    destruct (N.eqb_spec c 10) as [->|Hn10].
    + rewrite strip_cr_id by (rewrite <- in_rev; exact Hc). exists [], (lines_aux r []). rewrite app_nil_r. reflexivity.
    + destruct (IH (c :: cur)) as (x & rest & E); [discriminate| |exact Hr|].
      { intros [X|X]; [|exact (Hc X)]. subst c. apply Hs. left. reflexivity. }
      exists (c :: x), rest. eapply eq_trans; [exact E|]. cbn [rev]. rewrite <- app_assoc. reflexivity.
Qed.

(* ---------------- what the guard of is_literal_block gives ---------------- *)
Lemma rust_lines_lf (r : list N) : rust_lines (10 :: r) = [] :: rust_lines r.
Proof. reflexivity. Qed.

(* the lines before the first non-empty one are empty, and that one does not start with a space *)
Lemma guard_leading (v : list N) : ~ In 13 v -> trim_start_lf v <> [] -> starts_with_ch (trim_start_lf v) 32 = false ->
  exists j first rest, rust_lines v = repeat [] j ++ first :: rest /\ first <> [] /\ starts_with_ch first 32 = false.
Proof.
  induction v as [|c r IH]; intros Hcr Hne Hsp; [cbn in Hne; congruence|].
  assert (Hr : ~ In 13 r) by (intros X; apply Hcr; right; exact X).
  cbn [trim_start_lf] in Hne, Hsp. destruct (N.eqb_spec c 10) as [->|Hn].
  - destruct (IH Hr Hne Hsp) as (j & f & rest & E & A & B). exists (S j), f, rest.
    rewrite rust_lines_lf, E. split; [reflexivity|]. split; assumption.
  - assert (Hc : ~ In 13 [c]) by (intros [X|[]]; subst c; apply Hcr; left; reflexivity).
    destruct (lines_aux_head r [c]) as (x & rest & E); [discriminate|exact Hc|exact Hr|].
    exists O, (c :: x), rest. split; [|split; [discriminate|exact Hsp]].
    unfold rust_lines. cbn [lines_aux]. destruct (N.eqb_spec c 10); [congruence|]. exact E.
Qed.

Lemma last_cons_ne {A} (x : A) l d : l <> [] -> last (x :: l) d = last l d.
Proof. destruct l; [congruence|]. reflexivity. Qed.

(* an empty last line: the string ends with two line feeds, or is a single line feed *)
Lemma lines_aux_last_empty (s : list N) : forall cur : list N, ~ In 13 s -> ~ In 13 cur ->
  lines_aux s cur <> [] -> last (lines_aux s cur) [] = [] ->
  (exists p, rev cur ++ s = p ++ [10; 10]) \/ rev cur ++ s = [10].
Proof.
  induction s as [|c r IH]; intros cur Hs Hc Hne Hl; cbn [lines_aux] in Hne, Hl; nn.
  - destruct cur as [|x cur']; [congruence|]. cbn [last] in Hl. exfalso.
    apply (f_equal (@length N)) in Hl. rewrite rev_length in Hl. discriminate Hl.
  - assert (Hr : ~ In 13 r) by (intros X; apply Hs; right; exact X).
    destruct (N.eqb_spec c 10) as [->|Hn].
    + rewrite strip_cr_id in Hl by (rewrite <- in_rev; exact Hc).
      destruct (lines_aux r []) as [|y ys] eqn:E; nn.
      * apply lines_aux_nil in E. destruct E as [-> _]. cbn [last] in Hl. right. exact (f_equal (fun l : list N => l ++ [10]) Hl).
      * rewrite last_cons_ne in Hl by (rewrite E; discriminate).
        destruct (IH [] Hr (fun X => X)) as [(p & Ep)|Ep]; [rewrite E; discriminate|exact Hl| |]; cbn [rev app] in Ep.
        -- left. exists (rev cur ++ 10 :: p). rewrite Ep, <- app_assoc. reflexivity.
        -- left. exists (rev cur). rewrite Ep. reflexivity.
    + assert (Hc' : ~ In 13 (c :: cur)).
      { intros [X|X]; [|exact (Hc X)]. subst c. apply Hs. left. reflexivity. }
      destruct (IH (c :: cur) Hr Hc' Hne Hl) as [(p & Ep)|Ep]; cbn [rev] in Ep; rewrite <- app_assoc in Ep; cbn [app] in Ep.
      * left. exists p. exact Ep.
      * right. exact Ep.
Qed.

Lemma ends_with_2lf_app (p : list N) : ends_with_2lf (p ++ [10; 10]) = true.
Proof. unfold ends_with_2lf. rewrite rev_app_distr. reflexivity. Qed.

Lemma guard_last (v : list N) : ~ In 13 v -> trim_start_lf v <> [] -> ends_with_2lf v = false ->
  rust_lines v <> [] /\ last (rust_lines v) [] <> [].
Proof.
  intros Hcr Hne H2. assert (Hl : rust_lines v <> []).
  { intros X. apply lines_aux_nil in X. destruct X as [-> _]. apply Hne. reflexivity. }
  split; [exact Hl|]. intros X.
  destruct (lines_aux_last_empty v [] Hcr (fun X => X) Hl X) as [(p & Ep)|Ep]; cbn [rev app] in Ep.
  - rewrite Ep, ends_with_2lf_app in H2. discriminate H2.
  - rewrite Ep in Hne. apply Hne. reflexivity.
Qed.

(* characters of a literal block: no CR, no NUL (the generated class of is_valid_literal_block_scalar) *)
Lemma lit_char_facts (c : N) : in_ranges c literal_block_chars = true -> c <> 13 /\ c <> 0.
Proof.
  unfold in_ranges, literal_block_chars. cbn [existsb fst snd].
  rewrite !orb_true_iff, !andb_true_iff, !N.leb_le. lia.
Qed.

Lemma lit_chars_no_cr (v : list N) : is_valid_literal_block_scalar v = true -> ~ In 13 v /\ ~ In 0 v.
Proof.
  unfold is_valid_literal_block_scalar. intros H. rewrite forallb_forall in H.
  split; intros X; apply H in X; apply lit_char_facts in X; destruct X; congruence.
Qed.

Lemma is_literal_block_true m level v : is_literal_block m level v = true ->
  m = true /\ contains_ch v 10 = true /\ is_valid_literal_block_scalar v = true
  /\ trim_start_lf v <> [] /\ starts_with_ch (trim_start_lf v) 32 = false
  /\ ends_with_2lf v = false
  /\ ((level < 0)%Z -> starts_with_ch v 9 = false
                       /\ forall l, In l (rust_lines v) -> has_prefix [45; 45; 45] l = false /\ has_prefix [46; 46; 46] l = false).
Proof.
  unfold is_literal_block. rewrite tbl_lit_guard_content, tbl_lit_guard_tail, tbl_lit_guard_root. cbn [andb].
  destruct (m && contains_ch v 10 && is_valid_literal_block_scalar v) eqn:B; cbn [negb]; [|discriminate].
  apply andb_true_iff in B as [B Hv]. apply andb_true_iff in B as [-> Hlf].
  destruct (is_nil (trim_start_lf v)) eqn:En; cbn [orb]; [discriminate|].
  destruct (starts_with_ch (trim_start_lf v) 32) eqn:Es; [discriminate|].
  destruct (ends_with_2lf v) eqn:E2; [discriminate|].
  intros H. repeat split; try assumption.
  - intros X. rewrite X in En. discriminate En.
  - destruct (Z.ltb_spec level 0) as [_|Hge]; [|lia]. apply andb_true_iff in H as [H _].
    pose proof (forallb_In _ _ _ H tbl_lit_root_tab) as T. cbv beta in T. apply negb_true_iff in T. exact T.
  - destruct (Z.ltb_spec level 0) as [_|Hge]; [|lia]. apply andb_true_iff in H as [_ H]. apply negb_true_iff in H.
    destruct (has_prefix [45; 45; 45] l) eqn:E; [|reflexivity]. exfalso.
    assert (X : existsb marker_like (rust_lines v) = true).
    { apply existsb_exists. exists l. split; [assumption|]. unfold marker_like. apply existsb_exists.
      exists [45; 45; 45]. split; [apply tbl_lit_root_markers|exact E]. }
    congruence.
  - destruct (Z.ltb_spec level 0) as [_|Hge]; [|lia]. apply andb_true_iff in H as [_ H]. apply negb_true_iff in H.
    destruct (has_prefix [46; 46; 46] l) eqn:E; [|reflexivity]. exfalso.
    assert (X : existsb marker_like (rust_lines v) = true).
    { apply existsb_exists. exists l. split; [assumption|]. unfold marker_like. apply existsb_exists.
      exists [46; 46; 46]. split; [apply tbl_lit_root_markers|exact E]. }
    congruence.
Qed.

(* ---------------- the emitted lines as lines of the specification ---------------- *)
(* the indentation emit_literal_block writes in front of every line *)
Definition ind_n (level : Z) : nat := length (indent (level + 1)).
Lemma indent_spaces level : indent (level + 1) = spaces (ind_n level).
Proof.
  unfold ind_n, indent, spaces, SP. destruct (level + 1 <=? 0)%Z; [reflexivity|]. rewrite repeat_length. reflexivity.
Qed.
Lemma ind_n_root level : (level < 0)%Z -> ind_n level = O.
Proof. intros H. unfold ind_n, indent. destruct (Z.leb_spec (level + 1) 0); [reflexivity|lia]. Qed.
Lemma ind_n_inner level : (0 <= level)%Z -> ind_n level = Z.to_nat (2 * (level + 1)).
Proof.
  intros H. unfold ind_n, indent. destruct (Z.leb_spec (level + 1) 0); [lia|]. rewrite repeat_length. unfold best_indent. f_equal. lia.
Qed.

Definition raw_of (l : list N) : rline := strip_spaces O l.

Lemma strip_spaces_spec (s : list N) : forall k, exists e t,
  strip_spaces k s = ((k + e)%nat, t) /\ s = spaces e ++ t /\ match t with c :: _ => (c =? 32) = false | [] => True end.
Proof.
  induction s as [|c r IH]; intros k.
  - exists O, []. cbn. rewrite Nat.add_0_r. auto.
  - cbn [strip_spaces]. destruct (c =? 32) eqn:E.
    + destruct (IH (S k)) as (e & t & A & B & C). exists (S e), t. rewrite A. split; [f_equal; lia|]. split; [|exact C].
      apply N.eqb_eq in E. subst c. cbn. f_equal. exact B.
    + exists O, (c :: r). rewrite Nat.add_0_r. auto.
Qed.

Lemma strip_spaces_app (n : nat) (s : list N) : forall k, strip_spaces k (spaces n ++ s) = strip_spaces (k + n) s.
Proof.
  induction n as [|n IH]; intros k; [rewrite Nat.add_0_r; reflexivity|].
  cbn [spaces repeat app strip_spaces]. change (SP =? 32) with true. cbv iota. fold (spaces n). rewrite IH. f_equal. lia.
Qed.

(* a line [l] written after [n] spaces, as a line of the specification relative to the content indentation [n] *)
Definition cls (n : nat) (l : list N) : bline := classify n (raw_of (spaces n ++ l)).

Lemma raw_of_blank n : raw_of (spaces n ++ []) = (n, []).
Proof. unfold raw_of. rewrite strip_spaces_app. reflexivity. Qed.

Lemma cls_nil n : cls n [] = Blank n.
Proof. unfold cls. rewrite raw_of_blank. unfold classify. cbn [fst snd]. rewrite Nat.leb_refl. reflexivity. Qed.

Lemma cls_text n (l : list N) : l <> [] -> exists e s, cls n l = Text e s /\ line_text e s = l /\ raw_of (spaces n ++ l) = ((n + e)%nat, s).
Proof.
  intros Hne. unfold cls, raw_of. rewrite strip_spaces_app. cbn [Nat.add].
  destruct (strip_spaces_spec l n) as (e & t & A & B & C). rewrite A. unfold classify. cbn [fst snd].
  exists e, t. replace (n + e - n)%nat with e by lia. split; [|split; [symmetry; exact B|reflexivity]].
  destruct t as [|c t']; [|reflexivity].
  destruct e as [|e']; [rewrite app_nil_r in B; cbn in B; congruence|].
  destruct (Nat.leb_spec (n + S e') n); [lia|reflexivity].
Qed.

Lemma render_cls n (l : list N) : render_line n (cls n l) = spaces n ++ l.
Proof.
  destruct l as [|c r].
  - rewrite cls_nil, app_nil_r. reflexivity.
  - destruct (cls_text n (c :: r)) as (e & s & A & B & _); [discriminate|]. rewrite A. cbn [render_line].
    unfold line_text in B. rewrite <- B. unfold spaces. rewrite repeat_app, <- app_assoc. reflexivity.
Qed.

Lemma lfs_snoc k : lfs k ++ [10] = lfs (S k).
Proof. unfold lfs, LF. induction k as [|k IH]; [reflexivity|]. cbn [repeat app]. rewrite IH. reflexivity. Qed.

Lemma body_blank lit prev k j r : body lit prev k (Blank j :: r) = body lit prev (S k) r.
Proof. reflexivity. Qed.
Lemma body_text lit prev k e s r :
  body lit prev k (Text e s :: r) = sep lit prev k (spaced e s) ++ line_text e s ++ body lit (Some (spaced e s)) 0 r.
Proof. reflexivity. Qed.
Lemma sep_literal prev k sp : sep true prev k sp = match prev with None => lfs k | Some _ => lfs (S k) end.
Proof. destruct prev; reflexivity. Qed.

(* the literal-style text of a list of lines whose last line is not empty: the lines joined by line feeds *)
Lemma body_join n (ls : list (list N)) : forall prev k, ls <> [] -> last ls [] <> [] ->
  body true prev k (map (cls n) ls) = (match prev with None => lfs k | Some _ => lfs (S k) end) ++ join_lf ls.
Proof.
  induction ls as [|l r IH]; intros prev k Hne Hlast; [congruence|].
  destruct r as [|l2 r'].
  - cbn [last] in Hlast. destruct (cls_text n l Hlast) as (e & s & A & B & _).
    change (map (cls n) [l]) with [cls n l]. rewrite A, body_text, sep_literal, B. cbn [body join_lf]. rewrite app_nil_r. reflexivity.
  - rewrite join_lf_cons by discriminate. rewrite last_cons_ne in Hlast by discriminate.
    assert (Hne2 : l2 :: r' <> []) by discriminate.
    pose proof (fun prev k => IH prev k Hne2 Hlast) as IH'. clear IH.
    rewrite map_cons. destruct l as [|c l'].
    + rewrite cls_nil, body_blank, (IH' prev (S k)). cbn [app].
      destruct prev; rewrite <- lfs_snoc, <- app_assoc; reflexivity.
    + destruct (cls_text n (c :: l')) as (e & s & A & B & _); [discriminate|].
      rewrite A, body_text, sep_literal, (IH' (Some (spaced e s)) O), B. reflexivity.
Qed.

Lemma has_text_cons x r : has_text (x :: r) = is_text x || has_text r.
Proof. reflexivity. Qed.
Lemma has_text_cls n (ls : list (list N)) : ls <> [] -> last ls [] <> [] -> has_text (map (cls n) ls) = true.
Proof.
  induction ls as [|l r IH]; intros Hne Hlast; [congruence|]. rewrite map_cons, has_text_cons. destruct r as [|l2 r'].
  - cbn [last] in Hlast. destruct (cls_text n l Hlast) as (e & s & A & _). rewrite A. reflexivity.
  - rewrite last_cons_ne in Hlast by discriminate. rewrite IH; [apply orb_true_r|discriminate|exact Hlast].
Qed.

(* without an indentation indicator the content indentation is that of the first non-empty line *)
Lemma first_text_indent_guard n j (first : list N) rest : first <> [] -> starts_with_ch first 32 = false ->
  first_text_indent (map (fun l => raw_of (spaces n ++ l)) (repeat [] j ++ first :: rest)) = Some n.
Proof.
  intros Hne Hsp. induction j as [|j IH].
  - cbn [repeat app map first_text_indent]. unfold raw_of. rewrite strip_spaces_app. cbn [Nat.add].
    destruct first as [|c f]; [congruence|]. cbn [strip_spaces]. cbn in Hsp. change (N.eqb c 32) with (c =? 32) in Hsp. rewrite Hsp. reflexivity.
  - cbn [repeat app]. rewrite map_cons, raw_of_blank. exact IH.
Qed.

(* ---------------- the emitted literal block as a case of the specification ---------------- *)
Definition lit_chomp (v : list N) : chomp := if ends_with_ch v 10 then CClip else CStrip.
Definition lit_raw (level : Z) (v : list N) : list rline :=
  map (fun l => raw_of (indent (level + 1) ++ l)) (rust_lines v).
(* [prefix]: the text in front of the indicator; [parent]: the indentation of the enclosing collection (None at the
   root); [eof]: how the text goes on after the last line *)
Definition lit_case (prefix : list N) (parent : option nat) (level : Z) (v : list N) (eof : eof_shape) : bcase :=
  {| bc_literal := true; bc_chomp := lit_chomp v; bc_explicit := None; bc_digit_first := false;
     bc_parent := parent; bc_prefix := prefix; bc_hc := []; bc_raw := lit_raw level v; bc_eof := eof; bc_brk := 0 |}.
Definition eof_text (eof : eof_shape) : list N :=
  match eof with EofNewline => [10] | EofNone => [] | EofRest r => 10 :: r end.

Lemma with_breaks_lf (t : list N) : with_breaks 0 t = t.
Proof.
  unfold with_breaks. induction t as [|c r IH]; [reflexivity|]. cbn [flat_map]. rewrite IH.
  destruct (N.eqb_spec c 10) as [->|]; reflexivity.
Qed.

Section Guarded.
Variables (m : bool) (level : Z) (v : list N).
Hypothesis guard : is_literal_block m level v = true.

Let Hcr : ~ In 13 v.
Proof. destruct (is_literal_block_true _ _ _ guard) as (_ & _ & Hv & _). apply lit_chars_no_cr. exact Hv. Qed.

Lemma lit_raw_eq : lit_raw level v = map (fun l => raw_of (spaces (ind_n level) ++ l)) (rust_lines v).
Proof. unfold lit_raw. rewrite indent_spaces. reflexivity. Qed.

Lemma lit_content_indent parent : content_indent parent None (lit_raw level v) = ind_n level.
Proof.
  destruct (is_literal_block_true _ _ _ guard) as (_ & _ & _ & Hne & Hsp & _).
  destruct (guard_leading v Hcr Hne Hsp) as (j & f & rest & E & A & B).
  unfold content_indent. rewrite lit_raw_eq, E, (first_text_indent_guard _ _ _ _ A B). reflexivity.
Qed.

Lemma lit_case_lines prefix parent eof :
  case_lines (lit_case prefix parent level v eof) = map (cls (ind_n level)) (rust_lines v).
Proof.
  unfold case_lines, case_indent. cbn [bc_parent bc_explicit bc_raw lit_case]. rewrite lit_content_indent, lit_raw_eq, map_map. reflexivity.
Qed.

Lemma lit_last : rust_lines v <> [] /\ last (rust_lines v) [] <> [].
Proof.
  destruct (is_literal_block_true _ _ _ guard) as (_ & _ & _ & Hne & _ & H2 & _). apply guard_last; assumption.
Qed.

(* B1. the value the specification assigns to the block is the string *)
Theorem literal_block_value prefix parent eof : case_value (lit_case prefix parent level v eof) = v.
Proof.
  destruct lit_last as [Hl Hlast].
  unfold case_value. rewrite lit_case_lines. cbn [bc_literal bc_chomp lit_case]. unfold block_value.
  rewrite (has_text_cls _ _ Hl Hlast), (body_join _ _ None O Hl Hlast). cbn [lfs repeat app].
  etransitivity; [|symmetry; exact (rust_lines_text v Hcr)].
  unfold lit_chomp. destruct (ends_with_ch v 10); reflexivity.
Qed.

(* B2. the text of the case is what emit_literal_block writes *)
Theorem literal_block_text prefix parent eof :
  case_text (lit_case prefix parent level v eof) = prefix ++ emit_literal_block level v ++ eof_text eof.
Proof.
  unfold case_text. cbn [bc_brk bc_prefix bc_literal bc_chomp bc_explicit bc_digit_first bc_hc bc_eof lit_case].
  rewrite with_breaks_lf, lit_case_lines. f_equal. unfold render_block, emit_literal_block. cbn [app].
  assert (H : header true (lit_chomp v) None false = if ends_with_ch v 10 then [124] else [124; 45]).
  { unfold header, lit_chomp. destruct (ends_with_ch v 10); reflexivity. }
  assert (CI : case_indent (lit_case prefix parent level v eof) = ind_n level).
  { unfold case_indent. cbn [bc_parent bc_explicit bc_raw lit_case]. apply lit_content_indent. }
  rewrite H, CI, <- app_assoc. clear H CI.
  f_equal. replace (eof_text eof) with (match eof with EofNewline => [LF] | EofNone => [] | EofRest r => LF :: r end)
    by (destruct eof; reflexivity).
  f_equal.
  induction (rust_lines v) as [|l r IH]; [reflexivity|]. cbn [map flat_map]. rewrite IH, render_cls, indent_spaces. reflexivity.
Qed.

(* B3. the side conditions of the specification.  The string must not contain U+FEFF (YAML excludes the byte order
   mark from block scalar content; `is_valid_literal_block_scalar` lets it through), the content must be indented
   more than the parent, and what follows must be the end of the input or a less indented line. *)
Definition eof_fits (parent : option nat) (eof : eof_shape) : bool :=
  match eof with EofRest r => rest_ok parent (ind_n level) true r | _ => true end.

Lemma raw_line (l : list N) : exists e t, raw_of (spaces (ind_n level) ++ l) = ((ind_n level + e)%nat, t) /\ l = spaces e ++ t
  /\ match t with c :: _ => (c =? 32) = false | [] => True end.
Proof. unfold raw_of. rewrite strip_spaces_app. cbn [Nat.add]. apply strip_spaces_spec. Qed.

Lemma marker_line_prefix (s : list N) : marker_line s = true ->
  has_prefix [45; 45; 45] s = true \/ has_prefix [46; 46; 46] s = true.
Proof.
  destruct s as [|a [|b [|c r]]]; try discriminate. unfold marker_line. intros H. apply andb_true_iff in H as [H _].
  apply orb_true_iff in H as [H|H]; [left|right]; apply andb_true_iff in H as [H C]; apply andb_true_iff in H as [A B];
    apply N.eqb_eq in A, B, C; subst; reflexivity.
Qed.

Theorem literal_block_case_ok prefix parent eof :
  ~ In 65279 v -> Nat.leb (parent_min parent) (ind_n level) = true -> eof_fits parent eof = true ->
  case_ok (lit_case prefix parent level v eof) = true.
Proof.
  intros Hbom Hpar Heof.
  destruct (is_literal_block_true _ _ _ guard) as (_ & _ & Hv & Hne & Hsp & H2 & Hroot).
  destruct (lit_chars_no_cr v Hv) as [_ Hnul]. destruct lit_last as [Hl Hlast].
  assert (CI : case_indent (lit_case prefix parent level v eof) = ind_n level).
  { unfold case_indent. cbn [bc_parent bc_explicit bc_raw lit_case]. apply lit_content_indent. }
  unfold case_ok. rewrite CI. cbn [bc_raw bc_parent bc_explicit bc_hc bc_eof lit_case]. rewrite lit_raw_eq.
  repeat (apply andb_true_iff; split).
  - (* the texts of the lines *)
    apply forallb_forall. intros x Hx. apply in_map_iff in Hx. destruct Hx as (l & <- & Hin).
    destruct (raw_line l) as (e & t & -> & El & Ht). cbn [snd]. unfold rest_text_ok. apply andb_true_iff. split.
    + apply forallb_forall. intros c Hc.
      assert (Hcl : In c l) by (rewrite El; apply in_or_app; right; exact Hc).
      destruct (rust_lines_chars v l c Hin Hcl) as [Hcv Hn10].
      unfold nb_char. apply negb_true_iff. repeat (apply orb_false_iff; split); apply N.eqb_neq; try congruence.
    + destruct t as [|c t']; [reflexivity|]. rewrite Ht. reflexivity.
  - (* content lines are indented by at least the content indentation *)
    apply forallb_forall. intros x Hx. apply in_map_iff in Hx. destruct Hx as (l & <- & Hin).
    destruct (raw_line l) as (e & t & -> & _). cbn [fst snd]. destruct t; [reflexivity|]. apply Nat.leb_le. lia.
  - exact Hpar.
  - (* leading empty lines are not longer than the first content line *)
    destruct (guard_leading v Hcr Hne Hsp) as (j & f & rest & -> & A & B). clear - A B. induction j as [|j IH].
    + cbn [repeat app map]. destruct (raw_line f) as (e & t & -> & El & _). cbn [leading_raw_blanks_le].
      destruct t as [|c t']; [|reflexivity]. exfalso.
      rewrite app_nil_r in El. subst f. destruct e as [|e]; [apply A; reflexivity|]. cbn in B. discriminate B.
    + cbn [repeat app]. rewrite map_cons, raw_of_blank. cbn [leading_raw_blanks_le]. rewrite Nat.leb_refl. exact IH.
  - (* at column 0 no line looks like a document marker *)
    destruct (ind_n level) as [|n'] eqn:En; [|reflexivity]. cbn [Nat.eqb negb orb].
    assert (Hlev : (level < 0)%Z).
    { destruct (Z.ltb_spec level 0) as [|Hge]; [assumption|]. rewrite ind_n_inner in En by exact Hge. lia. }
    destruct (Hroot Hlev) as [_ Hmark].
    apply forallb_forall. intros x Hx. apply in_map_iff in Hx. destruct Hx as (l & <- & Hin).
    cbn [spaces repeat app]. unfold raw_of.
    destruct (strip_spaces_spec l O) as (e & t & -> & El & _). cbn [fst snd Nat.add].
    destruct e as [|e]; [|reflexivity]. cbn [Nat.eqb andb]. cbn [spaces repeat app] in El. subst t.
    destruct (marker_line l) eqn:M; [|reflexivity]. exfalso.
    destruct (Hmark l Hin) as [P1 P2]. destruct (marker_line_prefix l M); congruence.
  - reflexivity.
  - (* the end *)
    destruct eof as [| |r].
    + reflexivity.
    + destruct (exists_last Hl) as (ls & l & El). rewrite El in Hlast |- *. rewrite last_last in Hlast.
      rewrite map_app, rev_app_distr. cbn [map rev app].
      destruct (raw_line l) as (e & t & -> & E2 & _). destruct t as [|c t']; [|apply orb_true_r].
      destruct e as [|e]; [exfalso; apply Hlast; rewrite E2; reflexivity|].
      replace (ind_n level + S e)%nat with (S (ind_n level + e)) by lia. reflexivity.
    + unfold eof_fits in Heof.
      rewrite lit_case_lines, (has_text_cls _ _ Hl Hlast). exact Heof.
Qed.
End Guarded.
