(* The parser model emits at most 4*T+1 events on T tokens: a potential [pmu] strictly decreases at
   every successful [state_machine] step, so [parse_all]/[parse_load] never end in [PFuel] when
   [pmu p < fuel] (unless the scanner itself ran out of fuel). *)
From Coq Require Import List NArith ZArith Bool Arith Lia.
Import ListNotations.
Require Import Parser SBase SPrim SDir SScalar SFetch Pipe PipeL.
Local Open Scope nat_scope.

(* ---------- the potential ---------- *)

Definition ntoks (p : parser) : nat :=
  length (p_toks p) + match p_token p with Some _ => 1 | None => 0 end.

Definition nxt (p : parser) : option token :=
  match p_token p with
  | Some t => Some t
  | None => match p_toks p with [] => None | t :: _ => Some t end
  end.

Definition is_value (o : option token) : bool :=
  match o with Some (_, TValue) => true | _ => false end.

Definition nxt_is_value (p : parser) : bool := is_value (nxt p).

Definition w (s : pstate) (v : bool) : nat :=
  match s with
  | SStreamStart => 1
  | SImplicitDocumentStart => 4
  | SDocumentStart => 0
  | SDocumentContent => 1
  | SDocumentEnd => 1
  | SBlockNode => 1
  | SBlockSequenceFirstEntry => 0
  | SBlockSequenceEntry => 0
  | SIndentlessSequenceEntry => 0
  | SBlockMappingFirstKey => 0
  | SBlockMappingKey => if v then 1 else 0
  | SBlockMappingValue => if v then 0 else 1
  | SFlowSequenceFirstEntry => 0
  | SFlowSequenceEntry => 0
  | SFlowSequenceEntryMappingKey => 4
  | SFlowSequenceEntryMappingValue => if v then 0 else 2
  | SFlowSequenceEntryMappingEnd _ => 1
  | SFlowMappingFirstKey => 0
  | SFlowMappingKey => 0
  | SFlowMappingValue => 1
  | SFlowMappingEmptyValue => 1
  | SEnd => 0
  end.

(* weight of a state sitting on the stack: 1 + max over v of w x v *)
Definition vst (s : pstate) : nat :=
  match s with
  | SStreamStart => 2
  | SImplicitDocumentStart => 5
  | SDocumentStart => 1
  | SDocumentContent => 2
  | SDocumentEnd => 2
  | SBlockNode => 2
  | SBlockSequenceFirstEntry => 1
  | SBlockSequenceEntry => 1
  | SIndentlessSequenceEntry => 1
  | SBlockMappingFirstKey => 1
  | SBlockMappingKey => 2
  | SBlockMappingValue => 2
  | SFlowSequenceFirstEntry => 1
  | SFlowSequenceEntry => 1
  | SFlowSequenceEntryMappingKey => 5
  | SFlowSequenceEntryMappingValue => 3
  | SFlowSequenceEntryMappingEnd _ => 2
  | SFlowMappingFirstKey => 1
  | SFlowMappingKey => 1
  | SFlowMappingValue => 2
  | SFlowMappingEmptyValue => 2
  | SEnd => 1
  end.

Fixpoint sumv (l : list pstate) : nat :=
  match l with [] => 0 | x :: r => vst x + sumv r end.

Definition base (p : parser) : nat := 4 * ntoks p + sumv (p_states p).

Definition pmu (p : parser) : nat :=
  4 * ntoks p + w (p_state p) (nxt_is_value p) + sumv (p_states p).

Lemma w_lt_vst : forall x v, w x v < vst x.
Proof. destruct x, v; cbn [w vst]; lia. Qed.

Lemma pmu_init : forall toks anchors aid tags keep,
  pmu {| p_toks := toks; p_token := None; p_states := []; p_state := SStreamStart;
         p_anchors := anchors; p_anchor_id := aid; p_tags := tags; p_keep_tags := keep |} = 4 * length toks + 1.
Proof.
  intros. unfold pmu, ntoks.
  cbn [p_toks p_token p_states p_state w sumv]. lia.
Qed.

(* [p'] has no more tokens than [p], same stack, same state *)
Definition le_p (p' p : parser) : Prop :=
  ntoks p' <= ntoks p /\ p_states p' = p_states p /\ p_state p' = p_state p.

(* ---------- tactics ---------- *)

Lemma ok_inj : forall (A B : Type) (a c : A) (b d : B), Parser.Ok (a, b) = Parser.Ok (c, d) -> b = d.
Proof. intros. inversion H. reflexivity. Qed.

Ltac red_in H :=
  cbv delta [Parser.peek Parser.pop_state] in H;
  cbn [Parser.skip Parser.push_state Parser.set_state Parser.set_states Parser.set_tok Parser.set_anchors
       Parser.set_tags Parser.register_anchor
       p_toks p_token p_states p_state p_anchors p_anchor_id p_tags p_keep_tags fst snd] in H.

Ltac red_all :=
  cbv delta [pmu base le_p ntoks nxt_is_value nxt is_value
       Parser.set_state Parser.set_states Parser.set_tok Parser.set_anchors Parser.set_tags
       Parser.push_state Parser.skip clear_anchors] in *;
  cbn beta iota zeta delta [w vst sumv length
       p_toks p_token p_states p_state p_anchors p_anchor_id p_tags p_keep_tags] in *.

Ltac wfacts :=
  repeat match goal with
  | |- context [w ?x ?v] =>
      is_var x;
      lazymatch goal with
      | _ : w x v < vst x |- _ => fail
      | _ => pose proof (w_lt_vst x v)
      end
  | _ : context [w ?x ?v] |- _ =>
      is_var x;
      lazymatch goal with
      | _ : w x v < vst x |- _ => fail
      | _ => pose proof (w_lt_vst x v)
      end
  end.

Ltac use_le E p1 :=
  destruct p1 as [? ? ? ? ? ? ? ?]; red_all;
  let a := fresh "Hn" in let b := fresh "Hs" in let c := fresh "Ht" in
  destruct E as (a & b & c); subst.

Ltac fin H := apply ok_inj in H; subst; red_all; wfacts; lia.

Ltac hook H := fail.

Ltac brk H :=
  red_in H;
  lazymatch type of H with
  | Parser.Ok _ = Parser.Ok _ =>
      repeat match type of H with
             | context [match ?x with _ => _ end] => is_var x; destruct x; red_in H
             end
  | Parser.Err _ = _ => discriminate H
  | Parser.Panic _ = _ => discriminate H
  | _ =>
    first
    [ match type of H with
      | context [match ?x with _ => _ end] => is_var x; destruct x
      end; brk H
    | hook H; brk H
    | match type of H with
      | context [match ?x with _ => _ end] =>
          lazymatch x with
          | context [match _ with _ => _ end] => fail
          | _ => destruct x
          end
      end; brk H
    | idtac ]
  end.

(* ---------- fuelled helpers ---------- *)

Lemma process_directives_le : forall f p vs tags p',
  process_directives f p vs tags = Parser.Ok p' -> le_p p' p.
Proof.
  induction f; intros p vs tags p' H; [discriminate H|].
  cbn [process_directives] in H. destruct p as [xtoks xtk xsts xst xanc xaid xtgs xkeep].
  brk H.
  all: try (apply IHf in H; revert H; unfold le_p; red_all; intuition lia).
  all: inversion H; subst; unfold le_p; red_all; intuition lia.
Qed.

Lemma skip_document_ends_le : forall f p p',
  skip_document_ends f p = Parser.Ok p' -> le_p p' p.
Proof.
  induction f; intros p p' H; [discriminate H|].
  cbn [skip_document_ends] in H. destruct p as [xtoks xtk xsts xst xanc xaid xtgs xkeep].
  brk H.
  all: try (apply IHf in H; revert H; unfold le_p; red_all; intuition lia).
  all: inversion H; subst; unfold le_p; red_all; intuition lia.
Qed.

(* ---------- parse_node ---------- *)

Lemma node_props_le : forall p t aid tg p',
  node_props p t = Parser.Ok (aid, tg, p') -> le_p p' p.
Proof.
  intros p t aid tg p' H. unfold node_props in H. destruct p as [xtoks xtk xsts xst xanc xaid xtgs xkeep].
  brk H.
  all: inversion H; subst; unfold le_p; red_all; intuition lia.
Qed.

Lemma empty_or_err_le : forall p aid tg sp ev p',
  empty_or_err p aid tg sp = Parser.Ok (ev, p') -> pmu p' <= base p.
Proof.
  intros p aid tg sp ev p' H. unfold empty_or_err in H. destruct p as [xtoks xtk xsts xst xanc xaid xtgs xkeep].
  brk H. fin H.
Qed.

Ltac hook H ::=
  match type of H with
  | context [match process_directives ?f ?P ?v ?t with _ => _ end] =>
      let E := fresh "E" in let p1 := fresh "p" in
      destruct (process_directives f P v t) as [p1|?|?] eqn:E;
      [apply process_directives_le in E; use_le E p1| |]
  | context [match skip_document_ends ?f ?P with _ => _ end] =>
      let E := fresh "E" in let p1 := fresh "p" in
      destruct (skip_document_ends f P) as [p1|?|?] eqn:E;
      [apply skip_document_ends_le in E; use_le E p1| |]
  | context [match node_props ?P ?t with _ => _ end] =>
      let E := fresh "E" in let p1 := fresh "p" in
      destruct (node_props P t) as [[[? ?] p1]|?|?] eqn:E;
      [apply node_props_le in E; use_le E p1| |]
  end.

Lemma node_content_le : forall p aid tg b i ev p',
  node_content p aid tg b i = Parser.Ok (ev, p') -> pmu p' <= base p.
Proof.
  intros p aid tg b i ev p' H. unfold node_content in H. destruct p as [xtoks xtk xsts xst xanc xaid xtgs xkeep].
  brk H.
  all: try (apply empty_or_err_le in H; red_all; lia).
  all: fin H.
Qed.

Lemma parse_node_le : forall p b i ev p',
  parse_node p b i = Parser.Ok (ev, p') -> pmu p' <= base p.
Proof.
  intros p b i ev p' H. unfold parse_node in H. destruct p as [xtoks xtk xsts xst xanc xaid xtgs xkeep].
  brk H.
  all: try (apply node_content_le in H; red_all; lia).
  all: fin H.
Qed.

(* ---------- the state functions ---------- *)

Lemma explicit_document_start_lt : forall p ev p',
  explicit_document_start p = Parser.Ok (ev, p') -> pmu p' < base p.
Proof.
  intros p ev p' H. unfold explicit_document_start in H. destruct p as [xtoks xtk xsts xst xanc xaid xtgs xkeep].
  brk H; fin H.
Qed.

Ltac term H :=
  lazymatch type of H with
  | parse_node _ _ _ = _ => apply parse_node_le in H; red_all; wfacts; lia
  | explicit_document_start _ = _ => apply explicit_document_start_lt in H; red_all; wfacts; lia
  | _ => fin H
  end.

Ltac go f :=
  let H := fresh "H" in let Hs := fresh "Hs" in let p := fresh "p" in
  intros p ? ? Hs H; unfold f in H;
  destruct p as [xtoks xtk xsts xst xanc xaid xtgs xkeep];
  cbn [p_state] in Hs; subst;
  brk H; term H.

Lemma stream_start_dec : forall p ev p',
  p_state p = SStreamStart -> stream_start p = Parser.Ok (ev, p') -> pmu p' < pmu p.
Proof. go stream_start. Qed.

Lemma document_start_impl_dec : forall p ev p',
  p_state p = SImplicitDocumentStart -> document_start p true = Parser.Ok (ev, p') -> pmu p' < pmu p.
Proof. go document_start. Qed.

Lemma document_start_expl_dec : forall p ev p',
  p_state p = SDocumentStart -> document_start p false = Parser.Ok (ev, p') -> pmu p' < pmu p.
Proof. go document_start. Qed.

Lemma document_content_dec : forall p ev p',
  p_state p = SDocumentContent -> document_content p = Parser.Ok (ev, p') -> pmu p' < pmu p.
Proof. go document_content. Qed.

Lemma document_end_dec : forall p ev p',
  p_state p = SDocumentEnd -> document_end p = Parser.Ok (ev, p') -> pmu p' < pmu p.
Proof. go document_end. Qed.

Lemma block_node_dec : forall p ev p',
  p_state p = SBlockNode -> parse_node p true false = Parser.Ok (ev, p') -> pmu p' < pmu p.
Proof.
  intros p ev p' Hs H. apply parse_node_le in H. destruct p as [xtoks xtk xsts xst xanc xaid xtgs xkeep]. cbn [p_state] in Hs; subst.
  red_all. lia.
Qed.

Lemma block_mapping_first_key_dec : forall p ev p',
  p_state p = SBlockMappingFirstKey -> block_mapping_key p true = Parser.Ok (ev, p') -> pmu p' < pmu p.
Proof. go block_mapping_key. Qed.

Lemma block_mapping_key_dec : forall p ev p',
  p_state p = SBlockMappingKey -> block_mapping_key p false = Parser.Ok (ev, p') -> pmu p' < pmu p.
Proof. go block_mapping_key. Qed.

Lemma block_mapping_value_dec : forall p ev p',
  p_state p = SBlockMappingValue -> block_mapping_value p = Parser.Ok (ev, p') -> pmu p' < pmu p.
Proof. go block_mapping_value. Qed.

Lemma block_sequence_first_entry_dec : forall p ev p',
  p_state p = SBlockSequenceFirstEntry -> block_sequence_entry p true = Parser.Ok (ev, p') -> pmu p' < pmu p.
Proof. go block_sequence_entry. Qed.

Lemma block_sequence_entry_dec : forall p ev p',
  p_state p = SBlockSequenceEntry -> block_sequence_entry p false = Parser.Ok (ev, p') -> pmu p' < pmu p.
Proof. go block_sequence_entry. Qed.

Lemma indentless_sequence_entry_dec : forall p ev p',
  p_state p = SIndentlessSequenceEntry -> indentless_sequence_entry p = Parser.Ok (ev, p') -> pmu p' < pmu p.
Proof. go indentless_sequence_entry. Qed.

Lemma flow_sequence_first_entry_dec : forall p ev p',
  p_state p = SFlowSequenceFirstEntry -> flow_sequence_entry p true = Parser.Ok (ev, p') -> pmu p' < pmu p.
Proof. go flow_sequence_entry. Qed.

Lemma flow_sequence_entry_dec : forall p ev p',
  p_state p = SFlowSequenceEntry -> flow_sequence_entry p false = Parser.Ok (ev, p') -> pmu p' < pmu p.
Proof. go flow_sequence_entry. Qed.

Lemma flow_mapping_first_key_dec : forall p ev p',
  p_state p = SFlowMappingFirstKey -> flow_mapping_key p true = Parser.Ok (ev, p') -> pmu p' < pmu p.
Proof. go flow_mapping_key. Qed.

Lemma flow_mapping_key_dec : forall p ev p',
  p_state p = SFlowMappingKey -> flow_mapping_key p false = Parser.Ok (ev, p') -> pmu p' < pmu p.
Proof. go flow_mapping_key. Qed.

Lemma flow_mapping_value_dec : forall p ev p',
  p_state p = SFlowMappingValue -> flow_mapping_value p false = Parser.Ok (ev, p') -> pmu p' < pmu p.
Proof. go flow_mapping_value. Qed.

Lemma flow_mapping_empty_value_dec : forall p ev p',
  p_state p = SFlowMappingEmptyValue -> flow_mapping_value p true = Parser.Ok (ev, p') -> pmu p' < pmu p.
Proof. go flow_mapping_value. Qed.

Lemma flow_sequence_entry_mapping_key_dec : forall p ev p',
  p_state p = SFlowSequenceEntryMappingKey -> flow_sequence_entry_mapping_key p = Parser.Ok (ev, p') -> pmu p' < pmu p.
Proof. go flow_sequence_entry_mapping_key. Qed.

Lemma flow_sequence_entry_mapping_value_dec : forall p ev p',
  p_state p = SFlowSequenceEntryMappingValue -> flow_sequence_entry_mapping_value p = Parser.Ok (ev, p') -> pmu p' < pmu p.
Proof. go flow_sequence_entry_mapping_value. Qed.

Lemma flow_sequence_entry_mapping_end_dec : forall p m ev p',
  p_state p = SFlowSequenceEntryMappingEnd m -> flow_sequence_entry_mapping_end p m = Parser.Ok (ev, p') -> pmu p' < pmu p.
Proof.
  intros p m ev p' Hs H. unfold flow_sequence_entry_mapping_end in H. destruct p as [xtoks xtk xsts xst xanc xaid xtgs xkeep].
  cbn [p_state] in Hs; subst. fin H.
Qed.

(* ---------- every successful step strictly decreases the potential ---------- *)

Theorem state_machine_decreases : forall p ev p',
  state_machine p = Parser.Ok (ev, p') -> pmu p' < pmu p.
Proof.
  intros p ev p' H. unfold state_machine in H.
  destruct (p_state p) eqn:Hs.
  - eapply stream_start_dec; eassumption.
  - eapply document_start_impl_dec; eassumption.
  - eapply document_start_expl_dec; eassumption.
  - eapply document_content_dec; eassumption.
  - eapply document_end_dec; eassumption.
  - eapply block_node_dec; eassumption.
  - eapply block_sequence_first_entry_dec; eassumption.
  - eapply block_sequence_entry_dec; eassumption.
  - eapply indentless_sequence_entry_dec; eassumption.
  - eapply block_mapping_first_key_dec; eassumption.
  - eapply block_mapping_key_dec; eassumption.
  - eapply block_mapping_value_dec; eassumption.
  - eapply flow_sequence_first_entry_dec; eassumption.
  - eapply flow_sequence_entry_dec; eassumption.
  - eapply flow_sequence_entry_mapping_key_dec; eassumption.
  - eapply flow_sequence_entry_mapping_value_dec; eassumption.
  - eapply flow_sequence_entry_mapping_end_dec; eassumption.
  - eapply flow_mapping_first_key_dec; eassumption.
  - eapply flow_mapping_key_dec; eassumption.
  - eapply flow_mapping_value_dec; eassumption.
  - eapply flow_mapping_empty_value_dec; eassumption.
  - discriminate H.
Qed.

Lemma pmu_clear_anchors : forall p, pmu (clear_anchors p) = pmu p.
Proof. intros p. reflexivity. Qed.

(* ---------- the drivers ---------- *)

Theorem parse_all_no_fuel : forall fuel p se acc,
  pmu p < fuel -> se <> SFuel -> snd (parse_all fuel p se acc) <> PFuel.
Proof.
  induction fuel as [|fuel IH]; intros p se acc Hlt Hse; [lia|].
  cbn [parse_all].
  assert (Hstep : snd (match state_machine p with
      | Parser.Ok (ev, p') => parse_all fuel p' se (ev :: acc)
      | Parser.Err PErrScan =>
          (rev acc, match se with
                    | SError s m => PScanErr s m
                    | SPanic n => PPanic n
                    | SFuel => PFuel
                    | SEnded => PScanErr 0 {| m_index := 0; m_line := 0; m_col := 0 |}
                    end)
      | Parser.Err (PErr s m) => (rev acc, PParseErr s m)
      | Parser.Panic n => (rev acc, PPanic n)
      end) <> PFuel).
  { destruct (state_machine p) as [[ev p']|[|s m]|n] eqn:E.
    - apply IH; [|assumption]. apply state_machine_decreases in E. lia.
    - destruct se; cbn [snd]; congruence.
    - cbn [snd]. discriminate.
    - cbn [snd]. discriminate. }
  destruct (p_state p); try exact Hstep. cbn [snd]. discriminate.
Qed.

Theorem parse_load_no_fuel : forall fuel p se acc,
  pmu p < fuel -> se <> SFuel -> snd (parse_load fuel p se acc) <> PFuel.
Proof.
  induction fuel as [|fuel IH]; intros p se acc Hlt Hse; [lia|].
  cbn [parse_load].
  assert (Hstep : snd (match state_machine p with
      | Parser.Ok ((ev, _), p') =>
          let p' := match ev with EDocumentStart _ => clear_anchors p' | _ => p' end in
          parse_load fuel p' se (ev :: acc)
      | Parser.Err PErrScan =>
          (rev acc, match se with
                    | SError s m => PScanErr s m | SPanic n => PPanic n | SFuel => PFuel
                    | SEnded => PScanErr 0 {| m_index := 0; m_line := 0; m_col := 0 |} end)
      | Parser.Err (PErr s m) => (rev acc, PParseErr s m)
      | Parser.Panic n => (rev acc, PPanic n)
      end) <> PFuel).
  { destruct (state_machine p) as [[[ev sp] p']|[|s m]|n] eqn:E.
    - cbv zeta. apply IH; [|assumption]. apply state_machine_decreases in E.
      destruct ev; rewrite ?pmu_clear_anchors; lia.
    - destruct se; cbn [snd]; congruence.
    - cbn [snd]. discriminate.
    - cbn [snd]. discriminate. }
  destruct (p_state p); try exact Hstep. cbn [snd]. discriminate.
Qed.

Print Assumptions parse_all_no_fuel.
Print Assumptions parse_load_no_fuel.
