
val negb : bool -> bool

type nat =
| O
| S of nat

val fst : ('a1 * 'a2) -> 'a1

val snd : ('a1 * 'a2) -> 'a2

val length : 'a1 list -> nat

val app : 'a1 list -> 'a1 list -> 'a1 list

type comparison =
| Eq
| Lt
| Gt

val compOpp : comparison -> comparison

val add : nat -> nat -> nat

val mul : nat -> nat -> nat

val sub : nat -> nat -> nat

module Nat :
 sig
  val eqb : nat -> nat -> bool

  val leb : nat -> nat -> bool

  val ltb : nat -> nat -> bool

  val max : nat -> nat -> nat
 end

val hd : 'a1 -> 'a1 list -> 'a1

val tl : 'a1 list -> 'a1 list

val nth : nat -> 'a1 list -> 'a1 -> 'a1

val last : 'a1 list -> 'a1 -> 'a1

val rev : 'a1 list -> 'a1 list

val list_eq_dec : ('a1 -> 'a1 -> bool) -> 'a1 list -> 'a1 list -> bool

val map : ('a1 -> 'a2) -> 'a1 list -> 'a2 list

val existsb : ('a1 -> bool) -> 'a1 list -> bool

val skipn : nat -> 'a1 list -> 'a1 list

type positive =
| XI of positive
| XO of positive
| XH

type n =
| N0
| Npos of positive

type z =
| Z0
| Zpos of positive
| Zneg of positive

module Pos :
 sig
  type mask =
  | IsNul
  | IsPos of positive
  | IsNeg
 end

module Coq_Pos :
 sig
  val succ : positive -> positive

  val add : positive -> positive -> positive

  val add_carry : positive -> positive -> positive

  val pred_double : positive -> positive

  type mask = Pos.mask =
  | IsNul
  | IsPos of positive
  | IsNeg

  val succ_double_mask : mask -> mask

  val double_mask : mask -> mask

  val double_pred_mask : positive -> mask

  val sub_mask : positive -> positive -> mask

  val sub_mask_carry : positive -> positive -> mask

  val mul : positive -> positive -> positive

  val iter : ('a1 -> 'a1) -> 'a1 -> positive -> 'a1

  val compare_cont : comparison -> positive -> positive -> comparison

  val compare : positive -> positive -> comparison

  val eqb : positive -> positive -> bool

  val coq_Nsucc_double : n -> n

  val coq_Ndouble : n -> n

  val coq_lor : positive -> positive -> positive

  val coq_land : positive -> positive -> n

  val iter_op : ('a1 -> 'a1 -> 'a1) -> positive -> 'a1 -> 'a1

  val to_nat : positive -> nat

  val of_succ_nat : nat -> positive

  val eq_dec : positive -> positive -> bool
 end

module N :
 sig
  val add : n -> n -> n

  val sub : n -> n -> n

  val mul : n -> n -> n

  val compare : n -> n -> comparison

  val eqb : n -> n -> bool

  val leb : n -> n -> bool

  val ltb : n -> n -> bool

  val max : n -> n -> n

  val coq_lor : n -> n -> n

  val coq_land : n -> n -> n

  val to_nat : n -> nat

  val of_nat : nat -> n

  val iter : n -> ('a1 -> 'a1) -> 'a1 -> 'a1

  val eq_dec : n -> n -> bool
 end

module Z :
 sig
  val double : z -> z

  val succ_double : z -> z

  val pred_double : z -> z

  val pos_sub : positive -> positive -> z

  val add : z -> z -> z

  val compare : z -> z -> comparison

  val leb : z -> z -> bool

  val ltb : z -> z -> bool

  val eqb : z -> z -> bool

  val to_N : z -> n

  val of_N : n -> z
 end

type str = n list

val str_eqb : str -> str -> bool

type marker = { m_index : n; m_line : n; m_col : n }

type span = { sp_start : marker; sp_end : marker }

val span_empty : marker -> span

type style =
| Plain
| SingleQuoted
| DoubleQuoted
| Literal
| Folded

type tok =
| TStreamStart
| TStreamEnd
| TVersionDirective of n * n
| TTagDirective of str * str
| TDocumentStart
| TDocumentEnd
| TBlockSequenceStart
| TBlockMappingStart
| TBlockEnd
| TFlowSequenceStart
| TFlowSequenceEnd
| TFlowMappingStart
| TFlowMappingEnd
| TBlockEntry
| TFlowEntry
| TKey
| TValue
| TAlias of str
| TAnchor of str
| TTag of str * str
| TScalar of style * str

type token = span * tok

val is_z : n -> bool

val is_break : n -> bool

val is_breakz : n -> bool

val is_blank : n -> bool

val is_blank_or_breakz : n -> bool

val is_digit : n -> bool

val is_alpha : n -> bool

val is_hex : n -> bool

val as_hex : n -> n

val is_flow : n -> bool

val is_bom : n -> bool

val is_yaml_non_break : n -> bool

val is_yaml_non_space : n -> bool

val is_anchor_char : n -> bool

val is_word_char : n -> bool

val is_uri_char : n -> bool

val is_tag_char : n -> bool

val sIMPLE_KEY_MAX : n

val fLOW_LEVEL_MAX : n

val vERSION_DIGITS_MAX : n

type chr = n

type 'a outcome =
| Ok of 'a
| Err of n * marker
| Panic of n
| OutOfFuel

type 'i inputOps = { lookahead : (nat -> 'i -> 'i outcome);
                     buflen : ('i -> nat); bufmaxlen : nat;
                     peek_nth : (nat -> 'i -> chr outcome);
                     skip1 : ('i -> 'i); skip_n : (nat -> 'i -> 'i outcome);
                     raw_read_non_breakz : ('i -> (chr option * 'i) outcome) }

type strin = { si_chars : chr list; si_look : nat }

val str_ops : strin inputOps

type simple_key = { sk_possible : bool; sk_required : bool;
                    sk_token_number : n; sk_mark : marker }

type indent_rec = { in_indent : z; in_needs_block_end : bool }

type ims =
| ImPossible
| ImInside

type 'i sc = { sc_in : 'i; sc_mark : marker; sc_tokens : token list;
               sc_stream_start : bool; sc_stream_end : bool; sc_adjacent : 
               n; sc_ska : bool; sc_sks : simple_key list; sc_indent : 
               z; sc_indents : indent_rec list; sc_flow_level : n;
               sc_tokens_parsed : n; sc_token_available : bool;
               sc_lws : bool; sc_fms : bool; sc_ifms : ims list }

val mk0 : marker

val init_sc : 'a1 -> 'a1 sc

type ('i, 'a) m = 'i sc -> ('a * 'i sc) outcome

val ret : 'a2 -> ('a1, 'a2) m

val bind : ('a1, 'a2) m -> ('a2 -> ('a1, 'a3) m) -> ('a1, 'a3) m

val fail : n -> marker -> ('a1, 'a2) m

val panic : n -> ('a1, 'a2) m

val oof : ('a1, 'a2) m

val get : ('a1, 'a1 sc) m

val put : 'a1 sc -> ('a1, unit) m

val modify : ('a1 sc -> 'a1 sc) -> ('a1, unit) m

val gets : ('a1 sc -> 'a2) -> ('a1, 'a2) m

val upd : 'a1 sc -> 'a1 -> marker -> token list -> 'a1 sc

val set_in : 'a1 -> 'a1 sc -> 'a1 sc

val set_mark : marker -> 'a1 sc -> 'a1 sc

val set_tokens : token list -> 'a1 sc -> 'a1 sc

val set_flags :
  'a1 sc -> bool -> bool -> n -> bool -> bool -> bool -> bool -> 'a1 sc

val set_ska : bool -> 'a1 sc -> 'a1 sc

val set_lws : bool -> 'a1 sc -> 'a1 sc

val set_fms : bool -> 'a1 sc -> 'a1 sc

val set_adj : n -> 'a1 sc -> 'a1 sc

val set_ta : bool -> 'a1 sc -> 'a1 sc

val set_ss : bool -> 'a1 sc -> 'a1 sc

val set_se : bool -> 'a1 sc -> 'a1 sc

val set_struct :
  'a1 sc -> simple_key list -> z -> indent_rec list -> n -> n -> ims list ->
  'a1 sc

val set_sks : simple_key list -> 'a1 sc -> 'a1 sc

val set_indent : z -> indent_rec list -> 'a1 sc -> 'a1 sc

val set_fl : n -> 'a1 sc -> 'a1 sc

val set_tp : n -> 'a1 sc -> 'a1 sc

val set_ifms : ims list -> 'a1 sc -> 'a1 sc

val look : 'a1 inputOps -> nat -> ('a1, unit) m

val peekn : 'a1 inputOps -> nat -> ('a1, chr) m

val peek : 'a1 inputOps -> ('a1, chr) m

val look_ch : 'a1 inputOps -> ('a1, chr) m

val in_skip : 'a1 inputOps -> ('a1, unit) m

val in_skip_n : 'a1 inputOps -> nat -> ('a1, unit) m

val raw_read : 'a1 inputOps -> ('a1, chr option) m

val buf_is_empty : 'a1 inputOps -> ('a1, bool) m

val assert_buflen : 'a1 inputOps -> nat -> n -> ('a1, unit) m

val nth_char_is : 'a1 inputOps -> nat -> chr -> ('a1, bool) m

val next_2_are : 'a1 inputOps -> chr -> chr -> ('a1, bool) m

val next_3_are : 'a1 inputOps -> chr -> chr -> chr -> ('a1, bool) m

val next_is_document_indicator : 'a1 inputOps -> ('a1, bool) m

val next_is_document_start : 'a1 inputOps -> ('a1, bool) m

val next_is_document_end : 'a1 inputOps -> ('a1, bool) m

val next_is : 'a1 inputOps -> (chr -> bool) -> ('a1, bool) m

val next_can_be_plain_scalar : 'a1 inputOps -> bool -> ('a1, bool) m

type skiptabs =
| SkipYes
| SkipNo

val in_skip_ws_to_eol :
  'a1 inputOps -> nat -> skiptabs -> bool -> bool -> n -> ('a1,
  n * (bool * bool) option) m

val in_skip_while : 'a1 inputOps -> nat -> (chr -> bool) -> ('a1, n) m

val in_skip_while_non_breakz : 'a1 inputOps -> nat -> ('a1, n) m

val in_skip_while_blank : 'a1 inputOps -> nat -> ('a1, n) m

val in_fetch_while_alpha :
  'a1 inputOps -> nat -> chr list -> ('a1, chr list * n) m

val adv : n -> marker -> marker

val nlm : marker -> marker

val mark : ('a1, marker) m

val adv_mark : n -> ('a1, unit) m

val skip_blank : 'a1 inputOps -> ('a1, unit) m

val skip_non_blank : 'a1 inputOps -> ('a1, unit) m

val skip_n_non_blank : 'a1 inputOps -> nat -> ('a1, unit) m

val skip_nl : 'a1 inputOps -> ('a1, unit) m

val skip_linebreak : 'a1 inputOps -> ('a1, unit) m

val skip_break : 'a1 inputOps -> ('a1, unit) m

val push_tok : token -> ('a1, unit) m

val insert_at : nat -> 'a1 -> 'a1 list -> 'a1 list option

val insert_token : n -> token -> ('a1, unit) m

val allow_simple_key : ('a1, unit) m

val disallow_simple_key : ('a1, unit) m

val flow_level : ('a1, n) m

val skip_ws_to_eol : 'a1 inputOps -> nat -> skiptabs -> ('a1, bool * bool) m

val is_within_block : ('a1, bool) m

val skip_to_next_token : 'a1 inputOps -> nat -> ('a1, unit) m

val skip_yaml_whitespace : 'a1 inputOps -> nat -> ('a1, unit) m

val roll_indent : n -> n option -> tok -> marker -> ('a1, unit) m

val unroll_indent_go : nat -> z -> ('a1, unit) m

val unroll_indent : z -> ('a1, unit) m

val roll_one_col_indent : ('a1, unit) m

val unroll_nb : indent_rec list -> z -> z * indent_rec list

val unroll_non_block_indents : ('a1, unit) m

val save_simple_key : ('a1, unit) m

val remove_simple_key : ('a1, unit) m

val stale_simple_keys : ('a1, unit) m

val end_implicit_mapping : marker -> ('a1, unit) m

val increase_flow_level : ('a1, unit) m

val decrease_flow_level : ('a1, unit) m

val mkspan : marker -> marker -> span

val scan_uri_escapes : 'a1 inputOps -> marker -> ('a1, chr) m

val scan_tag_handle :
  'a1 inputOps -> nat -> bool -> marker -> ('a1, chr list) m

val uri_loop :
  'a1 inputOps -> nat -> (chr -> bool) -> marker -> chr list -> ('a1, chr
  list * n) m

val scan_tag_prefix : 'a1 inputOps -> nat -> marker -> ('a1, chr list) m

val scan_verbatim_tag : 'a1 inputOps -> nat -> marker -> ('a1, chr list) m

val scan_tag_shorthand_suffix :
  'a1 inputOps -> nat -> chr list -> marker -> ('a1, chr list) m

val scan_tag : 'a1 inputOps -> nat -> ('a1, token) m

val scan_anchor : 'a1 inputOps -> nat -> bool -> ('a1, token) m

val scan_version_directive_number :
  'a1 inputOps -> nat -> marker -> ('a1, n) m

val scan_version_directive_value :
  'a1 inputOps -> nat -> marker -> ('a1, token) m

val scan_tag_directive_value : 'a1 inputOps -> nat -> marker -> ('a1, token) m

val scan_directive_name : 'a1 inputOps -> nat -> ('a1, chr list) m

val s_YAML : chr list

val s_TAG : chr list

val scan_directive : 'a1 inputOps -> nat -> ('a1, token) m

val escape_table : (n * n) list

val code_length_table : (n * nat) list

val nls : n -> chr list -> chr list

val col_lt_indent : ('a1, bool) m

val assocc : chr -> (chr * chr) list -> chr option

val assocn : chr -> (chr * nat) list -> nat

val code_length : chr -> nat

val is_scalar_value : n -> bool

val read_hex : 'a1 inputOps -> nat -> nat -> n -> marker -> ('a1, n) m

val resolve_escape : 'a1 inputOps -> marker -> ('a1, chr) m

val consume_nonws :
  'a1 inputOps -> nat -> bool -> chr list -> marker -> ('a1, chr list * bool)
  m

val flow_blanks :
  'a1 inputOps -> nat -> bool -> bool -> n -> chr list -> ('a1,
  ((bool * bool) * n) * chr list) m

val scan_flow_scalar : 'a1 inputOps -> nat -> bool -> ('a1, token) m

val plain_chunk : 'a1 inputOps -> nat -> nat -> chr list -> ('a1, chr list) m

val plain_blanks :
  'a1 inputOps -> nat -> nat -> z -> marker -> bool -> n -> chr list -> ('a1,
  (bool * n) * chr list) m

val scan_plain_scalar : 'a1 inputOps -> nat -> ('a1, token) m

type chomping =
| Strip
| Clip
| Keep

val scan_block_scalar_content_line :
  'a1 inputOps -> nat -> chr list -> ('a1, chr list) m

val col : ('a1, n) m

val skip_spaces_to : 'a1 inputOps -> nat -> n -> bool -> ('a1, unit) m

val skip_block_scalar_indent :
  'a1 inputOps -> nat -> nat -> n -> n -> ('a1, n) m

val skip_first_line_indent :
  'a1 inputOps -> nat -> nat -> n -> n -> ('a1, n * n) m

val scan_block_scalar : 'a1 inputOps -> nat -> bool -> ('a1, token) m

val spn : marker -> marker -> span

val fetch_stream_start : ('a1, unit) m

val fetch_stream_end : ('a1, unit) m

val fetch_directive : 'a1 inputOps -> nat -> ('a1, unit) m

val fetch_tag : 'a1 inputOps -> nat -> ('a1, unit) m

val fetch_anchor : 'a1 inputOps -> nat -> bool -> ('a1, unit) m

val fetch_flow_collection_start : 'a1 inputOps -> nat -> bool -> ('a1, unit) m

val fetch_flow_collection_end : 'a1 inputOps -> nat -> bool -> ('a1, unit) m

val fetch_flow_entry : 'a1 inputOps -> nat -> ('a1, unit) m

val fetch_block_entry : 'a1 inputOps -> nat -> ('a1, unit) m

val fetch_document_indicator : 'a1 inputOps -> tok -> ('a1, unit) m

val fetch_block_scalar : 'a1 inputOps -> nat -> bool -> ('a1, unit) m

val fetch_flow_scalar : 'a1 inputOps -> nat -> bool -> ('a1, unit) m

val fetch_plain_scalar : 'a1 inputOps -> nat -> ('a1, unit) m

val fetch_key : 'a1 inputOps -> nat -> ('a1, unit) m

val fetch_value : 'a1 inputOps -> nat -> ('a1, unit) m

val fetch_flow_value : 'a1 inputOps -> nat -> ('a1, unit) m

val fetch_next_token : 'a1 inputOps -> nat -> ('a1, unit) m

val inv1 : 'a1 sc -> bool

val sorted_from : z -> indent_rec list -> bool

val inv2 : 'a1 sc -> bool

val sks_ok : n -> n -> simple_key list -> n option -> bool

val inv3 : 'a1 sc -> bool

val inv4 : 'a1 sc -> bool

val inv_code : 'a1 sc -> n

val pos_go : n list -> nat -> n -> n -> n * n

val mark_ok : n list -> strin sc -> bool

val code : n list -> strin sc -> n

val fmt_chk :
  nat -> n list -> nat -> strin sc -> n -> (unit * strin sc) outcome * n

val scan_chk : nat -> n list -> nat -> strin sc -> n -> n

val run_chk : n list -> n
