#!/bin/sh
# run every registered check (quick tier) under several seeds; print only alarms
cd "$(dirname "$0")/.." || exit 2
for sd in "$@"; do
  for p in $(python3 -c "import json; print(' '.join(c['property_id'] for c in json.load(open('MANIFEST.json'))['checks']))"); do
    out=$(VERIF_SEED=$sd ./check $p quick 2>&1); rc=$?
    [ $rc -ne 0 ] && echo "seed=$sd $p rc=$rc $(echo "$out" | grep -E 'VIOLATION' | head -2 | cut -c1-200 | tr '\n' ' ')"
  done
  echo "seed=$sd done"
done
