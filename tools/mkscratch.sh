#!/bin/sh
# tools/mkscratch.sh <name> : self-contained working copy of /verif under /root/scratch/w_<name> (own coq/ build, own
# build/ directory, own cargo target dir), still reading /repo.  Used to let several builders work in parallel.
set -eu
name=$1; V=/root/scratch/w_$name
mkdir -p /root/scratch
rsync -a --delete --exclude .git --exclude replays /verif/ "$V"/
sed -i "s#/verif/build/cargo#$V/build/cargo#" "$V/harness/.cargo/config.toml"
echo "$V"
