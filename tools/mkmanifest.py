#!/usr/bin/env python3
"""Regenerates MANIFEST.json from the table below (claimed checks) and properties.jsonl (the rest goes to
not_applicable with its reason)."""
import json
import os

V = os.path.dirname(os.path.dirname(os.path.abspath(__file__)))
NOTE = ("Trusted: Coq 8.16.1 kernel (no axioms: every property theorem prints 'Closed under the global context'), "
        "tools/gen_tables.py, extraction (ExtrOcamlBasic only) + ocaml/driver.ml, harness/ (Rust) and vlib/ (Python). "
        "The theorems are about the hand-written Gallina model; the model is tied to /repo on every run by the table "
        "translator and by the differential correspondence run, which bounds what has been exercised.")
CLAIMED = {
    "C03": dict(
        text="15 theorems. PARSER HALF, full: for EVERY layout tree of the token grammar (scalars, aliases, left-out and properties-only "
             "nodes, block and indentless sequences, block mappings, flow sequences with wrapped and unwrapped single pairs incl. a "
             "left-out key, flow mappings; Key/Value present or absent, trailing commas, either property order), any spans, the parser "
             "model emits exactly the events of the tree (C03_tokens_full, C03_node_continuation); whole STREAMS: any number of "
             "documents with %YAML/%TAG directives, optional '---', any number of '...', keep_tags on/off, anchors local to a document, "
             "ids counting through the stream (C03_stream, C03_directive_table); the fuel 4*tokens+40 of parse_tokens always suffices. "
             "SCANNER HALF for two text sub-languages. FLOW (single-line flow collections of one-word plain scalars, ', ' and ': ' separators, "
             "single pairs in sequences, nesting <= 255, any length): scan_str delivers exactly StreamStart, tokens_of(layout), "
             "StreamEnd and run_str emits exactly the denoted events (C03_flow_text_tokens, C03_flow_text_events) - text to events "
             "end to end, incl. the simple-key back-insertion, implicit-mapping states, 127-character chunks and both ways a key goes "
             "stale; a pair key of a flow sequence longer than 1024 characters is scan error 98 at its ':' (C03_flow_long_key_rejected). BLOCK (C03_block_text_tokens, "
             "C03_block_text_events): nested block sequences and block mappings of one-word scalars, compact, below and indentless placement, any indentation, depth <= 255: "
             "the indent stack with roll/unroll of several levels, Key/BlockMappingStart back-insertion, required and stale block keys, BlockEnd batches at the end. "
             "The dispatcher of the scanner model is the one regenerated from the source (C03_scanner_dispatcher_is_source). Everything else of the scanner half "
             "(flow inside block, multi-line flow, comments, quoted scalars, properties in text) is covered by the tie only. Tie/oracle: 24k (300k) random node trees x an independent spec-derived renderer "
             "(indent widths, placement, comments, blank lines, styles, property order, 1-3 documents, directives), events computed "
             "from the tree, str and iterator back-ends, model pipeline vs implementation; yaml-test-suite non-error cases and "
             "layout-preserving variants; the real token stream vs tokens_of for the theorem's text class. All six recorded C03 "
             "findings were repaired in /repo and are regression inputs now.",
        ref="DESIGN.md 5/C03", tech="Rocq proof (parser half: all token layouts and streams; scanner half: flow text sub-language, text -> events) + spec-derived renderer oracle on implementation + differential correspondence; block-structure scanner half partial"),
    "C05": dict(
        text="19 theorems against an independent specification of YAML 1.2.2 section 8.1 (Spec/BlockScalar.v: line model, content indentation, classification, block_value, renderer, decidable side conditions case_ok; imports nothing from the model; the spec's examples 8.2-8.13 are Examples). For the scanner model over the string input and the three line-break styles LF / CR LF / CR: content-line reader (buffered and raw path), indentation skipping (narrow and wide path), first-line auto-detection; scan_block_scalar returns block_value for literal and folded style, the three chompings, explicit or auto-detected indentation incl. 0, any header tail, ALL line lists with content followed by a less-indented line, end of input, or at indentation 0 a document marker '...' or '---'; every end-of-input shape (right after the last content line, inside a last line of fewer / exactly / more spaces than the indentation); content-less scalars; C05_case_partial: every case of the specification outside one class, from any scanner state at the indicator. The full statement C05_full stays visible and is machine-REFUTED by the one remaining recorded class (a top-level scalar whose first content line starts with a tab at column 0). Not theorems: contexts in front of the indicator, buffered back-ends (C10 transfers). Oracle/tie: 30k (thorough 600k) generated cases (style x chomping x indentation x context x header tail x break style x end shape x line content) - every scalar must equal the extracted spec's value on str, iterator and capacity-8 inputs; directed regression list for the three repaired classes (001a921, 42046c7). TEXT LEVEL (round 3): for every case of the specification whose scalar ends the input, in three document positions (the whole document, the value of a one-pair top-level mapping, the entry of a one-entry top-level sequence), the WHOLE model pipeline run_str on the specification's own rendering emits exactly the expected events with the specified value (C05_document_top/_value/_entry, C05_document_tokens).",
        ref="DESIGN.md 5/C05", tech='Rocq proof (scan_block_scalar = independent block_value spec, all cases from the indicator on, LF/CRLF/CR, string input) + extracted spec as oracle on implementation + differential correspondence'),
    "C06": dict(
        text=open(os.path.join(V, "design", "C06_manifest.txt")).read().strip(),
        ref="DESIGN.md 5/C06", tech="Rocq proof (bracket-balance invariant over all token streams; per-site rejection theorems; refutation of the full statement) + damage-operator rejection oracle on implementation + differential correspondence"),
    "C04": dict(
        text="23 theorems against an independent specification (Spec/FlowFold.v: escapes, break_text/fold_lines, presentations of plain, single- and double-quoted scalars with well-formedness, rendering and denoted text; imports nothing from the model). The GENERATED escape table of scanner.rs agrees pair by pair, in both directions, with the specification's table (an edited match arm breaks the proof on the next run); hex digits and read_hex for every digit list; \\x/\\u/\\U of every Unicode scalar value. C04_full_proved: for the scanner model over the string input, EVERY presentation the productions allow - any number of lines, folded breaks with trailing padding, empty lines, tabs after the required indentation, breaks written LF / CR / CR LF, escaped breaks, escapes, doubled quotes, block and flow context - followed by anything that may end the scalar, from any scanner state with a smaller indentation, is scanned to exactly the specified text (one break -> space, k+1 breaks -> k line feeds, blanks around a break dropped, an escaped break joins without a space): scan_plain_scalar (C04_plain_full_proved) and scan_flow_scalar (C04_quoted_full_proved). Not theorems: the buffered input (C10 transfers), tokens -> events (C02/C03/C07). Tie/oracle: target strings x independent presenters (escapes, folds, padding, LF/CR/CRLF) x 18 syntactic contexts on two back-ends, model pipeline vs implementation; regression stream for the two repaired findings (263b504, 0b5f0e0). No open known finding. TEXT LEVEL (round 3): single- and double-quoted scalars of every allowed presentation, followed by blanks and line feeds only, in the same three document positions come out of the WHOLE model pipeline as the scalar event with the denoted text (C04_quoted_document_top/_value/_entry).",
        ref="DESIGN.md 5/C04", tech='Rocq proof (escape table agreement via generated table; hex decoding; scan_plain_scalar and scan_flow_scalar return the specified text for ALL allowed presentations) + presenter-based round-trip oracle + differential correspondence'),
    "C11": dict(
        text="27 theorems (partial by nature: bytes of stack are not expressible in a model). HEADLINE, for EVERY text: the events of the whole model pipeline nest at most 2*(BLOCK_NESTING_MAX + 3*FLOW_LEVEL_MAX + 1) = 2042 deep - a CONSTANT built from the limits the translator reads out of scanner.rs (C11_text_nesting_bounded, also over the buffered back-end of any capacity); hence the recursion of Parser::load is bounded by 1 + that constant for every text and every accepted alias-free text loads to documents no deeper than it (C11_push_loader_recursion_bounded, C11_loaded_tree_walk_bounded). Underneath: the pull parser's continuation stack tracks the open collections for EVERY token stream (heap, not call stack); recursion depth of the push loader and of tree traversals = nesting depth; open collections <= 2 x token nesting for every token stream; scanner invariant J over every function of the scanner model: unmatched collection-start tokens (block, '[' '{', synthetic FlowMappingStart) delivered or queued <= block entries of the indent stack + flow_level + implicit pairs, each bounded by its limit (C11_scanner_token_nesting_bounded: token nesting <= 1021 for every input, any back-end, any fuel); roll_indent at the block limit and increase_flow_level at the flow limit are errors. With aliases the loaded TREE can be deeper than the events nest (C11_alias_chain_family by induction, C11_tree_depth_not_bounded_by_nesting_refuted); what holds is depth <= number of collection-start events. Dynamic part: depth sweep 1..10^6 x 11 shapes x 6 APIs, each scenario in a child process on an 8 MiB stack, debug and release; the extracted oracle checks token nesting <= 1021 and event nesting <= 2042 on the implementation's real output. Fixed: unbounded block nesting (99c201b), flow-limit bypass by bare ':' (597a354), mismatched closer (88700d3), '[ ? ]' bypass (c5ad60c): every such scenario is an error value now, an abort is a VIOLATION. Known finding (thorough tier): the alias chain '- &a0 [x] / - &a1 [*a0] / ...' (event nesting 2) loads to a tree n deep; Yaml::load_from_str + drop aborts from ~6500 (debug) / ~7700 (release) lines on, needing 4-5.6 GB of memory (quadratic).",
        ref="DESIGN.md 5/C11", tech="Rocq proof (constant bound on event nesting for every text via a scanner-wide token-nesting invariant; recursion depth = nesting depth; refutation for alias chains) + extracted nesting oracle on the implementation + child-process depth sweep with bisection",
        note="Partial by nature: the 8 MiB limit and frame sizes are runtime facts observed by exit status only."),
    "C16": dict(
        text="42 theorems. resolve_tag = expand on the parser's table; the directive loop yields merge T (decls run) for EVERY run of directive tokens, errors exactly on a duplicate handle or repeated %YAML, never exhausts its fuel; document end clears the table iff keep_tags is false and nothing else touches it. PERCENT-DECODING, strict (repaired by 990db80): on every scanner state scan_uri_escapes equals the specification's reader - a byte sequence is accepted iff it is the UTF-8 encoding of a Unicode scalar value (shortest form, no surrogates, <= U+10FFFF) and then yields that value; errors 50-53 exactly otherwise; never out of fuel, never a panic; spec-level strictness, round trip and injectivity. TEXT LEVEL: the character classes of char_traits equal the YAML productions on every code point; every tag text scans to one Tag token with handle and decoded suffix, every %TAG line to one TagDirective token; scanner + parser composed: '%TAG !name! prefix / --- !name!suffix x' resolves to (decoded prefix, decoded suffix) for ALL such texts, any number of %TAG lines, whichever line declares the handle; a redeclared handle is an error at that line; undecodable escapes are errors at the tag. Not at text level: several documents, keep_tags carry-over, tags inside flow collections in the pipeline theorems, the buffered back-end. Tie/oracle: directive sets x tag spellings x node shapes x document sequences x keep_tags against a Python and the extracted Coq rendering of the specification; overlong-escape regression sweep; model vs implementation. No open known finding.",
        ref="DESIGN.md 5/C16", tech='Rocq proof (directive table semantics for all token runs; strict UTF-8 percent-decoding both directions; scanner and scanner+parser theorems at text level) + specification oracle on implementation + differential correspondence'),
    "C07": dict(
        text="13 theorems, all full: the loader model refines an independent tree specification build_docs for EVERY document list "
             "(generalised stack lemma by induction on event trees: sequences in order, key/value pairing, aliases as copies of the "
             "completed anchored node or BadValue for an open one, later duplicate wins with move-to-back); every event list accepted by "
             "the grammar acceptor decomposes into trees, loads without panic to the spec documents; composition with C02 for any token "
             "stream. Tie: the extracted spec is applied to the implementation's own events and compared with its loaded documents; "
             "synthetic sentences (all small mappings over 8 key kinds, random trees with aliases) pushed into the real YamlLoader.",
        ref="DESIGN.md 5/C07", tech="Rocq proof (refinement of the loader to a tree spec, all sentences) + extracted spec as oracle on implementation events + synthetic event sentences into the real loader"),
    "C19": dict(
        text="15 theorems: a generic loader over the LoadableYamlNode operations instantiated for plain and span-carrying nodes: erasing "
             "spans from the marked load gives the plain load (same errors/panic sites); marked equality and hashing ignore spans; deferred "
             "loading followed by recursive resolution equals eager loading under node equality for EVERY event list (key lemma about "
             "re-collecting a mapping under any equality-preserving map, so keys that become equal after resolution are covered); "
             "resolution is the identity on resolved trees and idempotent. Tie: 4 node types x eager/deferred/resolved dumps, errors, "
             "spans, ==/hash on real inputs and synthetic sentences. Known finding: {0.0, -0.0} keys keep different key objects.",
        ref="DESIGN.md 5/C19", tech="Rocq proof (span erasure, deferred+resolve = eager, all event lists) + differential correspondence across node types and modes"),
    "C09": dict(
        text="15 theorems. need_quotes s = false => the resolver reads s as the string s; every escape_str entry decodes back under the scanner's generated table and escape_body round-trips for ALL strings; decimal text of any i64 resolves to it; (K1-K5 repaired by 35b43be) for every string the emitter chooses the literal-block form for, block_value of the emitted block (independent spec of C05) is the string, with the side conditions case_ok; (G1 repaired by 4a46740) every key written in implicit form is one line of at most SIMPLE_KEY_MAX characters; every scalar node in every position is a Scalar presentation of itself in the block-layout language Spec/BlockLayout.v; C09_tree_is_layout_document_partial: for every well-formed tree and all four settings the emitted text is a Doc of the layout language denoting the tree (induction on the tree); C09_full_from_layout_reader_partial reduces the full round trip to ONE named statement (layout_reader_spec: the loading pipeline reads every document of the layout language as the tree it denotes), which is not proved. Assumption named in the trusted base: the text Rust's Debug prints for an f64 (float_text_ok, evaluated on every sampled case). Tie/oracle: model-emitted text = implementation text on every case; reload = original and re-emission idempotent under 4 settings: strings exhaustive <= 3/<= 4 over 20 symbols in every position, 38-atom combinations, line families, random Unicode, boundary numbers, long keys, random trees to depth 5 with complex keys (450k / 6.7M evaluations). No open known finding.",
        ref="DESIGN.md 5/C09", tech='Rocq proof (quoting/escape round trip for all strings; literal-block guard => block_value; tree -> layout-language document by induction; reduction of the full round trip to the layout reader) + emit/load round-trip oracle on implementation + model-vs-implementation text equality'),
    "C13": dict(
        text=open(os.path.join(V, "design", "C13_manifest.txt")).read().strip(),
        ref="DESIGN.md 5/C13", tech="Rocq proof (text -> tokens: symbolic execution of the scanner model on every JSON text, reusing C04's scalar-loop lemmas; tokens -> value: induction on the value; composed into a theorem about the whole model pipeline) + token-stream correspondence + oracle on implementation"),
    "C18": dict(
        text=open(os.path.join(V, "design", "C18_manifest.txt")).read().strip(),
        ref="DESIGN.md 5/C18", tech="Rocq proof (executable models of the UTF-8 and UTF-16 decoders of encoding_rs meet the loop contract; decode = independent one-shot specification for all four traps and every byte string; termination; round trips) + extracted decoder models and specification vs the real decode incl. every trap-callback invocation + Python codecs"),
    "C15": dict(
        text="31 theorems. PARSER, all token lists: every DocumentEnd step empties the anchor table and (unless keep_tags) the tag table; renumbering (raising the anchor counter by d shifts every id by d); tail simulation; C15_composition: if 'A' and 'B' are each accepted token streams then A DocumentEnd B is accepted with events(A) followed by events(B), B's anchor ids shifted by the number of anchored nodes of A - also for parse_all, for any number of streams, and closed under gluing. SCANNER, generic over the input, all reachable states: every character-level scanner is a frame (leaves simple keys, flow level, implicit-mapping stack, queue alone); skeleton invariant (|simple keys| = flow level + 1, indent chain, length sc_ifms = flow level) preserved by fetch_next_token, hence between documents (flow level 0) there is no flow state left; after a document marker the skeleton is the post-StreamStart configuration. SCANNER, POSITION SHIFT (relational proof over every scanner function, string input): two runs on the same remaining text whose states differ only by a constant offset of index, line and token count deliver the same tokens and the same error, shifted (fetch_next_token, fetch_more_tokens, next_token, scan_all, all fuels); TAIL INDEPENDENCE: from the state behind a document marker line the scanner delivers what it delivers on the rest of the text alone, minus StreamStart, shifted by where it stands (also stated for a text X and the k-th delivered token); the parser commutes with the shift; TEXT LEVEL: if A and B are each accepted and scanning A...B reaches the boundary having delivered tokens(A) minus StreamEnd and DocumentEnd (hypothesis boundary_reached), then run_str(A ++ '...' ++ B) is accepted with events(A) followed by events(B), anchor ids renumbered; PREFIX STABILITY (second relational proof over every scanner function: the run on A at end of input vs the run on A ++ '...' ++ B): boundary_reached is PROVED for every A that ends with a line break, has no NUL, ends at flow level 0 and holds no empty block scalar running into the end of input (whose span start differs; text and style agree), hence C15_text_composition_total without the hypothesis. Missing: deriving 'flow level 0' from acceptance, the '---' boundary, keep_tags = true composition. Tie/oracle: accepted streams of the C01 space concatenated 2-4 at a time with '...' lines must parse to the parts' events with anchor ids renumbered (two back-ends); regression streams of the repaired classes (4c68b1d, e9e1eb4, 3018bbd, ad74b3e); cross-document alias probes through iterator and loader. No open known finding.",
        ref="DESIGN.md 5/C15", tech='Rocq proof (composition theorem on token streams; scanner skeleton invariant and marker reset for all reachable states; relational proof that the whole scanner commutes with a position shift, tail independence at a document boundary) + concatenation oracle on implementation + differential correspondence'),
    "C20": dict(
        text="16 theorems over a model of derive(Hash)/Eq, OrderedFloat, hash_str_as_yaml_string and the raw-entry lookups, for ALL nodes, "
             "mappings, probe strings and every hasher finish function: equal nodes have equal hash streams (incl. borrowed/owned/marked "
             "copies); as_mapping_get, contains_mapping_key, Index/IndexMut and explicit-node lookup agree, succeed iff some key is a "
             "resolved string equal to k (first such entry), panic exactly on absence; integer indexing rules. Tie: a recording Hasher "
             "captures the real write_* call sequences and lookup results on 4 node types and compares them literally with the extracted model.",
        ref="DESIGN.md 5/C20", tech="Rocq proof (eq => equal hash stream; lookup agreement, all mappings) + recording-hasher correspondence + oracle on implementation"),
    "C01": dict(
        text='14 theorems. NO PANIC: the pull parser never panics for ANY token stream (C02 stack invariant); the WHOLE scanner+parser model never panics for ANY input over a buffered input of ANY capacity >= 8 (every lookahead-contract site and every skeleton panic site of the ~70 scanner functions; WP calculus + skeleton invariant SInv) and over the string input (ported joint proof). BOUNDED WORK (string input): every scanner loop ends within the fuel F = 2|input|+10 (each iteration returns or consumes a character that is there; refresh rounds carry a finer measure), every dispatcher step is the stream-start step, consumes >= 1 character (raising the token potential by <= 5) or is the final stream end; the scanner delivers <= 5|input|+2 tokens, the parser makes <= 4*tokens+1 steps. BOUNDED WORK (buffered input, any capacity >= 8): fuel transfer through a strengthened relational calculus in which OutOfFuel on the buffered side is forbidden (ScanFuelBuf*.v; own measures for the four places where the back-ends iterate differently), same fuel formulas. TOGETHER (C01_pipeline_ends_properly, C01_pipeline_ends_properly_buffered): for EVERY input the model pipeline over the string input AND over the buffered input of every capacity >= 8 (the back-end behind new_from_iter / load_from_str), given fuel linear in the input length, ends in a complete event stream or a first scan/parse error - never a panic, never fuel exhaustion. Not theorems: the byte-level StrInput overrides (tie), loaders (C07). Tie/oracle: 6 input back-ends (StrInput, BufferedInput, contract-CHECKING inputs of capacity 8/16/64/128) x {iterator, push, peek/next, mixed peek/next/load histories, 4 loaders} on the parse space incl. the systematic buffer-geometry sweep, with panic capture, crash detection and input-call counting (bound 64n+4096); model instances str/buf16/buf8 must not end in MODELPANIC/MODELFUEL and must agree with the implementation. No open known finding (block nesting is limited since 99c201b).',
        ref="DESIGN.md 5/C01", tech='Rocq proof (three joint proofs over the whole scanner model: panic freedom for buffered and string input, linear fuel sufficiency; parser potential) + panic/abort/call-count oracle on implementation + differential correspondence'),
    "C10": dict(
        text="9 theorems. Per operation: buffered input refines string input (peek_nth, skip) under the buffer relation; for every capacity >= 8 the scanner honours the input contract. VALUE LEVEL (joint proof, relational WP between the scanner over the string input and over the buffered input of ANY capacity >= 8, incl. the paths where the back-ends genuinely differ: plain-scalar chunk refresh, block-scalar content line via buffer then raw read, wide indentation path): for all fuels the two scanner runs deliver the same token list and the same end (same error site at the same marker) - a run that breaks off for fuel delivers a prefix of the other; pipelines: with bounded work proved on the buffered side too (C01), C10_pipeline_backends_equal: run_buf cap x = run_str x for EVERY input and EVERY capacity >= 8 - same events, spans and error, no exception. Not theorems: the byte-level fast paths of StrInput (the model's string instance works on characters). Tie/oracle: implementation vs implementation on the C01 space plus inputs built around every buffer-dependent path: StrInput, BufferedInput and contract-checking inputs of capacity 8/16/64/128 must give identical events, spans, error message and position; model instances str/buf8/buf16/buf64 likewise and equal to the implementation.",
        ref="DESIGN.md 5/C10", tech='Rocq proof (relational joint proof: scanner and pipeline over string and buffered input compute the same tokens/events/errors) + back-end comparison on implementation + differential correspondence'),
    "C12": dict(
        text="4 theorems. C12_scanner_positions_true / C12_pipeline_positions_true: for EVERY NUL-free input and every fuel, both "
             "markers of every token span the scanner model produces, of every event span of the whole model pipeline, and the marker "
             "of the scan or parse error it may end with are TRUE positions of the input (index within the input, line = 1 + breaks "
             "before it with CR LF counted once, column = characters since the last break): joint proof ScanPos*.v carrying the "
             "invariant 'the mark is the recount of what has been consumed' through every scanner function (each skip justified by "
             "the character just peeked), and true marks through the token queue, simple keys and parser states; C12_pipeline_positions_true_buffered: the same for the buffered back-end of every capacity >= 8 (by C10_pipeline_backends_equal). "
             "C12_recount_is_line_and_column characterises the recount used as specification and oracle. The extracted marker_ok "
             "is applied to every marker of every span and error the implementation reports on both back-ends; span-shape rules, "
             "Display of errors and MarkedYaml / MarkedYamlOwned node spans (eager, deferred and resolved loading) are checked on the implementation; model pipeline vs implementation "
             "including all spans and error positions. Known finding: an embedded NUL ends the stream at a false position.",
        ref="DESIGN.md 5/C12", tech="Rocq proof (mark invariant through the whole scanner and parser model, all NUL-free inputs; recount specification) + extracted oracle on every reported marker + differential correspondence"),
    "C14": dict(
        text='8 theorems. Recount level: line and column of the image of a position are unchanged under LF -> CR LF. SCANNER + PARSER LEVEL (joint proof, relational WP between the run on a CR-free text and the run on its image under LF -> CR LF or LF -> CR, generic in the mode, independent fuels; index-valued state carried by invariants: same index shift for a possible simple key on the current line, adjacency equal on one side iff on the other): C14_crlf / C14_cr - for EVERY CR-free text the two substitutions give the same events (kind, scalar text with breaks as line feeds, style, anchor id, tag) with the same LINE and COLUMN in every span and the same end (PDone, or the same error site at the same line and column); no exception (panic and fuel are excluded by C01); C14_crlf_buffered / C14_cr_buffered: the same between buffered runs of any capacities >= 8, unconditionally (C10_pipeline_backends_equal). Error MESSAGES are sites in the model; the tie compares messages. Tie/oracle: every CR-free input of the C01 space parsed as is, with CRLF and with lone CR on two back-ends: identical events, scalar text, line:column of every marker, verdict and error message; model vs implementation on the CRLF image.',
        ref="DESIGN.md 5/C14", tech='Rocq proof (relational joint proof over the whole scanner + parser model: break style changes nothing but indices) + three-way comparison on implementation + differential correspondence'),
    "C17": dict(
        text=open(os.path.join(V, "design", "C17_manifest.txt")).read().strip(),
        ref="DESIGN.md 5/C17", tech="Rocq proof (wrapper over an abstract core, all histories; lazy scanner-parser coupling fused with the batch pipeline; Parser::load(multi) and repeated load(single) deliver the iteration) + extracted oracle and lazy model vs implementation call by call + implementation-vs-implementation push/pull"),
    "C02": dict(
        text="Theorem C02_run: for EVERY token list the pull-parser model delivers a prefix of the event grammar, a complete "
             "sentence when it reports no error, and never panics (invariant InvS by induction over steps). Tie: model parser "
             "on the implementation's real token stream and whole model pipeline vs real events (kinds, anchor ids, verdict); "
             "extracted acceptor run as oracle on the implementation's events (str, iterator, push).",
        ref="DESIGN.md 5/C02, Appendix A",
        tech="Rocq proof: invariant by induction over parser steps, all token streams; differential correspondence + extracted acceptor as oracle"),
    "C08": dict(
        text="Theorems C08_untagged / C08_tagged / C08_nonplain / C08_foreign_tag: for EVERY text the resolver model is sound and "
             "complete w.r.t. an independently stated YAML 1.2 core schema (regex-shaped matchers, exact values in Z / exact "
             "decimals), tagged readings agree with the untagged one or are BadValue. Resolver tables are regenerated from "
             "scalar.rs/loader.rs each run. Tie: model vs implementation on 10^5 texts x 13 (style,tag) configurations; the "
             "extracted oracle (incl. a nearest-binary64 certificate for every float) runs on the implementation's results.",
        ref="DESIGN.md 5/C08",
        tech="Rocq proof: soundness + completeness of the resolver model against a core-schema spec, all strings; generated tables; differential correspondence + extracted oracle"),
}
REASONS = {}


def main():
    props = [json.loads(l) for l in open(os.path.join(V, "properties.jsonl"))]
    checks = []
    for p in props:
        pid = p["id"]
        if pid not in CLAIMED:
            continue
        c = CLAIMED[pid]
        checks.append(dict(
            property_id=pid, quick_cmd="./check %s quick" % pid, thorough_cmd="./check %s thorough" % pid,
            evidence_file="/verif/evidence/%s.json" % pid, replay_cmd_template="./check %s --replay {path}" % pid,
            engine="coq-model", level_claimed=dict(category="proof", text=c["text"], design_ref=c["ref"]),
            level_note=NOTE + (" " + c["note"] if "note" in c else ""), technique=c["tech"]))
    ids = sorted(CLAIMED)
    m = dict(
        version=1, setup_cmd="./check --setup",
        hooks=dict(guard="saphyr_verif",
                   enable='RUSTFLAGS="--cfg saphyr_verif" (harness/.cargo/config.toml and ./check set it)',
                   baseline_off_cmd="cd /repo && cargo test --workspace --no-fail-fast --offline",
                   source_commits=["1a47848"], add_only=True),
        engines=[
            dict(name="coq-model", path="coq/", serves_properties=ids,
                 kind_free_text="executable Gallina model of scanner, parser, loader, resolver, ... + theorems (Coq 8.16.1)"),
            dict(name="table-translator", path="tools/gen_tables.py", serves_properties=ids,
                 kind_free_text="regenerates coq/Gen/*.v (char classes, escape tables, resolver/emitter tables, constants) from the Rust sources on every run"),
            dict(name="rust-harness", path="harness/", serves_properties=ids,
                 kind_free_text="runs the real crates (path deps on /repo, --cfg saphyr_verif) on generated cases; canonical line protocol"),
            dict(name="ocaml-model-driver", path="ocaml/", serves_properties=ids,
                 kind_free_text="extracted model and extracted oracles behind the same line protocol"),
        ],
        checks=checks,
        notes="See DESIGN.md. known_findings.jsonl lists repaired defects (fixed:) and recorded findings (known).",
        not_applicable=[dict(property_id=p["id"], reason=REASONS.get(
            p["id"], "no check registered in this revision: model/theorems/correspondence for it are still being built "
                     "(plan in DESIGN.md section 5); nothing is claimed")) for p in props if p["id"] not in CLAIMED])
    json.dump(m, open(os.path.join(V, "MANIFEST.json"), "w"), indent=1)


if __name__ == "__main__":
    main()
