#!/usr/bin/env python3
"""Regenerates MANIFEST.json from the table below (claimed checks) and properties.jsonl (the rest goes to
not_applicable with its reason)."""
import json
import os

V = os.path.dirname(os.path.dirname(os.path.abspath(__file__)))
NOTE = ("Trusted: Coq 8.16.1 kernel (no axioms: every property theorem prints 'Closed under the global context'), "
        "tools/gen_tables.py, extraction (ExtrOcamlBasic only) + ocaml/driver.ml, harness/ (Rust) and vlib/ (Python). "
        "The theorems are about the hand-written Gallina model; the model is tied to /repo on every run by the table "
        "translator and by the differential correspondence run, which bounds what has been exercised.")
CLAIMED = {
    "C02": dict(
        text="Theorem C02_run: for EVERY token list the pull-parser model delivers a prefix of the event grammar, a complete "
             "sentence when it reports no error, and never panics (invariant InvS by induction over steps). Tie: model parser "
             "on the implementation's real token stream and whole model pipeline vs real events (kinds, anchor ids, verdict); "
             "extracted acceptor run as oracle on the implementation's events (str, iterator, push).",
        ref="DESIGN.md 5/C02, Appendix A",
        tech="Rocq proof: invariant by induction over parser steps, all token streams; differential correspondence + extracted acceptor as oracle"),
    "C08": dict(
        text="Theorems C08_untagged / C08_tagged / C08_nonplain / C08_foreign_tag: for EVERY text the resolver model is sound and "
             "complete w.r.t. an independently stated YAML 1.2 core schema (regex-shaped matchers, exact values in Z / exact "
             "decimals), tagged readings agree with the untagged one or are BadValue. Resolver tables are regenerated from "
             "scalar.rs/loader.rs each run. Tie: model vs implementation on 10^5 texts x 13 (style,tag) configurations; the "
             "extracted oracle (incl. a nearest-binary64 certificate for every float) runs on the implementation's results.",
        ref="DESIGN.md 5/C08",
        tech="Rocq proof: soundness + completeness of the resolver model against a core-schema spec, all strings; generated tables; differential correspondence + extracted oracle"),
}
REASONS = {}


def main():
    props = [json.loads(l) for l in open(os.path.join(V, "properties.jsonl"))]
    checks = []
    for p in props:
        pid = p["id"]
        if pid not in CLAIMED:
            continue
        c = CLAIMED[pid]
        checks.append(dict(
            property_id=pid, quick_cmd="./check %s quick" % pid, thorough_cmd="./check %s thorough" % pid,
            evidence_file="/verif/evidence/%s.json" % pid, replay_cmd_template="./check %s --replay {path}" % pid,
            engine="coq-model", level_claimed=dict(category="proof", text=c["text"], design_ref=c["ref"]),
            level_note=NOTE + (" " + c["note"] if "note" in c else ""), technique=c["tech"]))
    ids = sorted(CLAIMED)
    m = dict(
        version=1, setup_cmd="./check --setup",
        hooks=dict(guard="saphyr_verif",
                   enable='RUSTFLAGS="--cfg saphyr_verif" (harness/.cargo/config.toml and ./check set it)',
                   baseline_off_cmd="cd /repo && cargo test --workspace --no-fail-fast --offline",
                   source_commits=["1a47848"], add_only=True),
        engines=[
            dict(name="coq-model", path="coq/", serves_properties=ids,
                 kind_free_text="executable Gallina model of scanner, parser, loader, resolver, ... + theorems (Coq 8.16.1)"),
            dict(name="table-translator", path="tools/gen_tables.py", serves_properties=ids,
                 kind_free_text="regenerates coq/Gen/*.v (char classes, escape tables, resolver/emitter tables, constants) from the Rust sources on every run"),
            dict(name="rust-harness", path="harness/", serves_properties=ids,
                 kind_free_text="runs the real crates (path deps on /repo, --cfg saphyr_verif) on generated cases; canonical line protocol"),
            dict(name="ocaml-model-driver", path="ocaml/", serves_properties=ids,
                 kind_free_text="extracted model and extracted oracles behind the same line protocol"),
        ],
        checks=checks,
        notes="See DESIGN.md. known_findings.jsonl lists repaired defects (fixed:) and recorded findings (known).",
        not_applicable=[dict(property_id=p["id"], reason=REASONS.get(
            p["id"], "no check registered in this revision: model/theorems/correspondence for it are still being built "
                     "(plan in DESIGN.md section 5); nothing is claimed")) for p in props if p["id"] not in CLAIMED])
    json.dump(m, open(os.path.join(V, "MANIFEST.json"), "w"), indent=1)


if __name__ == "__main__":
    main()
