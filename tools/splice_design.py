#!/usr/bin/env python3
"""Splice design/Cxx.md (written by the per-property builders) into DESIGN.md section 5: everything from the line
starting '### Cxx' to the end of the file replaces DESIGN.md's '### Cxx' section (up to the next '### C' heading or the
'-----' rule that ends section 5).  usage: splice_design.py C05 C06 ..."""
import os, re, sys
V = os.path.dirname(os.path.dirname(os.path.abspath(__file__)))
d = open(os.path.join(V, "DESIGN.md")).read()
for pid in sys.argv[1:]:
    src = open(os.path.join(V, "design", pid + ".md")).read()
    m = re.search(r"^### %s\b.*" % pid, src, re.M | re.S)
    if not m:
        print("no '### %s' heading in design/%s.md" % (pid, pid)); continue
    new = m.group(0).rstrip() + "\n"
    # cut trailing material that is not the section itself (e.g. '§8 lines' blocks introduced by a line starting with 'Replacement' or '<!--')
    new = re.split(r"^(?:<!-- end|## |§8|Section 8|Replacement §8|Lines for §8)", new, flags=re.M)[0].rstrip() + "\n"
    pat = re.compile(r"^### %s\b.*?(?=^### C\d\d|^-{20,})" % pid, re.M | re.S)
    if not pat.search(d):
        print("no section for", pid, "in DESIGN.md"); continue
    d = pat.sub(lambda _: new + "<!-- %s -->\n\n" % pid if False else new + "\n", d, count=1)
    print("spliced", pid, len(new), "chars")
open(os.path.join(V, "DESIGN.md"), "w").write(d)
