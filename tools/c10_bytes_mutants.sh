#!/bin/sh
# tools/c10_bytes_mutants.sh <seeded-id>...   sanity run of the C10 byte-level tie against seeded mutants that touch parser/src/input/str.rs:
# a copy of /repo under build/mut gets the patch (the real /repo is never touched, no git worktree), hx_c10 alone is built
# against it, and its answers are compared with the character-level reference of vlib/p_c10x.py.
W=$(cd "$(dirname "$0")/.." && pwd)
[ -d $W/build/mut/repo ] || { mkdir -p $W/build/mut; rsync -a --exclude target --exclude .git /repo/ $W/build/mut/repo/; rsync -a $W/harness/ $W/build/mut/harness/; sed -i "s#/repo/#$W/build/mut/repo/#g" $W/build/mut/harness/Cargo.toml; sed -i "s#target-dir = .*#target-dir = \"$W/build/mut/target\"#" $W/build/mut/harness/.cargo/config.toml; }
for m in "$@"; do
  rsync -a --exclude target --exclude .git /repo/parser/src/ $W/build/mut/repo/parser/src/
  (cd $W/build/mut/repo && patch -p1 -s < $W/seeded/$m/patch.diff) || { echo "$m PATCHFAIL"; continue; }
  (cd $W/build/mut/harness && CARGO_NET_OFFLINE=true timeout 2000 cargo build --offline --quiet -j 6 --bin hx_c10 2>/dev/null) || { echo "$m BUILDFAIL"; continue; }
  printf "%s " "$m"; (cd $W && python3 -m vlib.p_c10x $W/build/mut/target/debug/hx_c10)
done
rsync -a --exclude target --exclude .git /repo/parser/src/ $W/build/mut/repo/parser/src/
