#!/bin/sh
# run every registered check (quick tier by default) and summarise
cd "$(dirname "$0")/.." || exit 2
tier=${1:-quick}
for p in $(python3 -c "import json; print(' '.join(c['property_id'] for c in json.load(open('MANIFEST.json'))['checks']))"); do
  s=$(date +%s)
  out=$(./check $p $tier 2>&1); rc=$?
  e=$(date +%s)
  echo "$p rc=$rc $((e-s))s $(echo "$out" | grep -E 'VIOLATION|KNOWN' | cut -c1-160 | tr '\n' ' ')"
done
