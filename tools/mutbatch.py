#!/usr/bin/env python3
"""Evaluate seeded changes produced by the mutation sub-agents.

usage: mutbatch.py [--confirm] [--jobs N] [ID-k ...]
For every /tmp/mut/<ID>/out/<k>/patch.diff (or the ones named):
  1. (--confirm) in a fresh scratch worktree of /repo: apply the patch, run the whole existing test suite (must pass),
     install the demo and run it (must fail); revert the patch, run the demo again (must pass);
  2. run the property's own check and its neighbours against a mutated COPY of /repo via tools/mutrun.sh;
  3. store /verif/seeded/<ID>-<k>/{patch.diff,demo.rs,meta.json} with what was run and which checks caught it.
Nothing under /repo is modified."""
import json
import os
import re
import shutil
import subprocess
import sys
from concurrent.futures import ThreadPoolExecutor

V = os.path.dirname(os.path.dirname(os.path.abspath(__file__)))
NEIGH = {
    "C01": ["C01", "C10", "C02"], "C02": ["C02", "C07", "C01"], "C03": ["C03", "C02"], "C04": ["C04", "C10"],
    "C05": ["C05", "C15", "C10"], "C06": ["C06", "C02", "C01"], "C07": ["C07", "C19"], "C08": ["C08", "C09", "C16"], "C09": ["C09", "C08"],
    "C10": ["C10", "C12", "C01"], "C11": ["C11", "C01"], "C12": ["C12", "C10", "C14", "C19"], "C13": ["C13", "C08"],
    "C14": ["C14", "C12"], "C15": ["C15", "C16", "C17"], "C16": ["C16", "C15"], "C17": ["C17", "C15"], "C18": ["C18"],
    "C19": ["C19", "C07"], "C20": ["C20", "C19"],
}


def sh(cmd, cwd=None, timeout=3600):
    p = subprocess.run(cmd, cwd=cwd, shell=isinstance(cmd, str), stdout=subprocess.PIPE, stderr=subprocess.STDOUT, timeout=timeout)
    return p.returncode, p.stdout.decode("utf-8", "replace")


def registered():
    m = json.load(open(os.path.join(V, "MANIFEST.json")))
    return set(c["property_id"] for c in m["checks"])


def demo_target(demo_src, pid, k):
    """where the demo goes and how to run it (from the leading comment or by guessing the crate)"""
    m = re.search(r"cargo test[^\n`]*-p (\S+)[^\n`]*--test (\S+)", demo_src)
    if m:
        crate, name = m.group(1), m.group(2)
    else:
        crate = "saphyr" if ("use saphyr::" in demo_src or "saphyr::" in demo_src and "saphyr_parser" not in demo_src) else "saphyr-parser"
        name = "demo_%s_%s" % (pid.lower(), k)
    d = "saphyr" if crate == "saphyr" else "parser"
    return crate, name, os.path.join(d, "tests", name + ".rs")


def confirm(pid, k, src):
    wt = "/tmp/mc/%s-%s" % (pid, k)
    sh(["git", "-C", "/repo", "worktree", "remove", "--force", wt])
    shutil.rmtree(wt, ignore_errors=True)
    os.makedirs("/tmp/mc", exist_ok=True)
    rc, out = sh(["git", "-C", "/repo", "worktree", "add", "-q", "--detach", wt, "HEAD"])
    res = {}
    try:
        demo_src = open(os.path.join(src, "demo.rs")).read()
        crate, name, rel = demo_target(demo_src, pid, k)
        rc, out = sh(["git", "-C", wt, "apply", os.path.join(src, "patch.diff")])
        res["patch_applies"] = rc == 0
        if rc != 0:
            return res
        rc, out = sh("cargo test --workspace --offline --no-fail-fast 2>&1 | grep -E '^test result|FAILED|panicked|^error' ", cwd=wt, timeout=3000)
        bad = [l for l in out.splitlines() if ("FAILED" in l or "panicked" in l or l.startswith("error") or
                                               (l.startswith("test result") and not re.search(r" 0 failed", l)))]
        res["suite_passes_with_patch"] = not bad and "test result" in out
        res["suite_summary"] = out.strip().splitlines()[-3:]
        open(os.path.join(wt, rel), "w").write(demo_src)
        rc, out = sh(["cargo", "test", "--offline", "-p", crate, "--test", name], cwd=wt, timeout=3000)
        res["demo_fails_with_patch"] = rc != 0 and "test result: FAILED" in out
        res["demo_cmd"] = "cargo test --offline -p %s --test %s" % (crate, name)
        sh(["git", "-C", wt, "apply", "-R", os.path.join(src, "patch.diff")])
        rc, out = sh(["cargo", "test", "--offline", "-p", crate, "--test", name], cwd=wt, timeout=3000)
        res["demo_passes_without_patch"] = rc == 0
    finally:
        sh(["git", "-C", "/repo", "worktree", "remove", "--force", wt])
        shutil.rmtree(wt, ignore_errors=True)
    return res


def evaluate(item, do_confirm):
    pid, k = item
    src = "/tmp/mut/%s/out/%s" % (pid, k)
    dst = os.path.join(V, "seeded", "%s-%s" % (pid, k))
    os.makedirs(dst, exist_ok=True)
    if os.path.exists(os.path.join(src, "patch.diff")):
        for f in ("patch.diff", "demo.rs"):
            shutil.copy(os.path.join(src, f), os.path.join(dst, f))
    else:
        src = dst                                   # the sub-agent's worktree is gone: re-evaluate the stored copy
    try:
        agent_meta = json.load(open(os.path.join(src, "meta.json")))
    except Exception:
        agent_meta = {}
    meta = dict(property=pid, variant=k, summary=agent_meta.get("summary"), needs_to_manifest=agent_meta.get("needs_to_manifest"),
                files_touched=agent_meta.get("files_touched"), author="fresh sub-agent given only the property text and a scratch worktree")
    old = {}
    if os.path.exists(os.path.join(dst, "meta.json")):
        try:
            old = json.load(open(os.path.join(dst, "meta.json")))
        except Exception:
            old = {}
    if do_confirm:
        meta["confirmation"] = confirm(pid, k, src)
    elif "confirmation" in old:
        meta["confirmation"] = old["confirmation"]
    reg = registered()
    checks = [c for c in (EXTRA or NEIGH.get(pid, [pid])) if c in reg]
    rc, out = sh([os.path.join(V, "tools", "mutrun.sh"), "%s-%s" % (pid.lower(), k), os.path.join(src, "patch.diff")] + checks, timeout=7000)
    results = dict(old.get("results", {})) if EXTRA else {}
    for line in out.splitlines():
        m = re.match(r"^(C\d+) rc=(\d+) ?(.*)$", line)
        if m:
            results[m.group(1)] = dict(rc=int(m.group(2)), verdict=m.group(3).strip())
    meta["checks_run"] = "tools/mutrun.sh (mutated scratch copy of /repo + scratch copy of /verif): ./check <id> quick for " + ", ".join(checks)
    meta["results"] = results
    meta["caught_by"] = sorted(c for c, r in results.items() if r["rc"] == 1)
    meta["caught_by_own_check"] = results.get(pid, {}).get("rc") == 1
    meta["raw"] = out[-1500:]
    json.dump(meta, open(os.path.join(dst, "meta.json"), "w"), indent=1)
    return pid, k, meta["caught_by"], meta.get("confirmation")


EXTRA = []


def main():
    args = sys.argv[1:]
    if "--checks" in args:
        EXTRA.extend(args[args.index("--checks") + 1].split(","))
    do_confirm = "--confirm" in args
    jobs = 3
    if "--jobs" in args:
        jobs = int(args[args.index("--jobs") + 1])
    names = [a for a in args if re.match(r"^C\d+-\d+$", a)]
    items = []
    if names:
        items = [tuple(n.split("-")) for n in names]
    else:
        for pid in sorted(os.listdir("/tmp/mut")):
            d = "/tmp/mut/%s/out" % pid
            if os.path.isdir(d):
                for k in sorted(os.listdir(d)):
                    if os.path.exists(os.path.join(d, k, "patch.diff")) and os.path.exists(os.path.join(d, k, "demo.rs")):
                        if not os.path.exists(os.path.join(V, "seeded", "%s-%s" % (pid, k), "meta.json")):
                            items.append((pid, k))
    with ThreadPoolExecutor(max_workers=jobs) as ex:
        for pid, k, caught, conf in ex.map(lambda it: evaluate(it, do_confirm), items):
            print("%s-%s caught_by=%s confirmation=%s" % (pid, k, caught, conf), flush=True)


if __name__ == "__main__":
    main()
