#!/usr/bin/env python3
"""Translator: regenerates the table-like parts of the Coq model from the Rust sources.

usage: gen_tables.py <repo> <coq/Gen dir>

Generated (rewritten only when the content changes, so make does not rebuild needlessly):
  CharTraits.v     parser/src/char_traits.rs  -> one boolean predicate per `pub fn is_*`, and as_hex
  Escapes.v        scanner.rs resolve_flow_scalar_escape_sequence match arms -> escape_table, code_length
  EmitterTables.v  saphyr/src/emitter.rs escape_str arms, need_quotes tables, the guards of is_literal_block, the key
                   forms of emit_mapping (complex_key) and is_long_key / MAX_IMPLICIT_KEY_LEN; char_traits.rs
                   literal-block class
  ResolverTables.v saphyr/src/scalar.rs / loader.rs literal word lists
  Consts.v         numeric constants the model depends on
  ParseNode.v      parser.rs parse_node: the node-content `match` (token kind, guard) -> (event kind, next state) as `node_dispatch`
  Dispatch.v       scanner.rs fetch_next_token: the `match c` arms (patterns, guards, actions) -> the decision function `dispatch`

Supported Rust subset: char literals, inclusive char ranges, `== != || && !`, parentheses,
`matches!(c, pat | ...)`, `c.is_ascii_digit()`, `(a..=b).contains(&c)`, `"lit".contains(c)`, calls to sibling
predicates, simple `match` arm tables.  Anything else is an error (exit 1): a construct the translator cannot
read is reported as a broken tie, never skipped."""
import os
import re
import sys


class TranslateError(Exception):
    pass


def read(p):
    with open(p, encoding="utf-8") as f:
        return f.read()


def strip_comments(src):
    return re.sub(r"//[^\n]*", "", src)


def char_lit(tok):
    """Rust char literal body (without quotes) -> code point"""
    simple = {"\\0": 0, "\\n": 10, "\\r": 13, "\\t": 9, "\\\\": 92, "\\'": 39, '\\"': 34}
    if tok in simple:
        return simple[tok]
    m = re.fullmatch(r"\\x([0-9a-fA-F]{2})", tok)
    if m:
        return int(m.group(1), 16)
    m = re.fullmatch(r"\\u\{([0-9a-fA-F]+)\}", tok)
    if m:
        return int(m.group(1), 16)
    if len(tok) == 1:
        return ord(tok)
    raise TranslateError("char literal %r" % tok)


CHAR = r"'((?:\\u\{[0-9a-fA-F]+\}|\\x[0-9a-fA-F]{2}|\\.|[^'\\]))'"


def str_lit(body):
    """Rust string literal body -> list of code points"""
    out = []
    i = 0
    while i < len(body):
        c = body[i]
        if c == "\\":
            m = re.match(r"\\u\{([0-9a-fA-F]+)\}|\\x([0-9a-fA-F]{2})|\\(.)", body[i:])
            if m.group(1):
                out.append(int(m.group(1), 16))
            elif m.group(2):
                out.append(int(m.group(2), 16))
            else:
                out.append(char_lit("\\" + m.group(3)))
            i += len(m.group(0))
        else:
            out.append(ord(c))
            i += 1
    return out


# ---------------------------------------------------------------- boolean expressions over `c`
class P:
    def __init__(self, s, var, known):
        self.s, self.i, self.var, self.known = s, 0, var, known

    def ws(self):
        while self.i < len(self.s) and self.s[self.i].isspace():
            self.i += 1

    def eat(self, t):
        self.ws()
        if self.s.startswith(t, self.i):
            self.i += len(t)
            return True
        return False

    def expect(self, t):
        if not self.eat(t):
            raise TranslateError("expected %r at %r" % (t, self.s[self.i:self.i + 40]))

    def rx(self, r):
        self.ws()
        m = re.compile(r).match(self.s, self.i)
        if m:
            self.i = m.end()
        return m

    def parse_or(self):
        l = self.parse_and()
        while self.eat("||"):
            l = "(%s || %s)" % (l, self.parse_and())
        return l

    def parse_and(self):
        l = self.parse_not()
        while self.eat("&&"):
            l = "(%s && %s)" % (l, self.parse_not())
        return l

    def parse_not(self):
        self.ws()
        if self.s.startswith("!", self.i) and not self.s.startswith("!=", self.i):
            self.i += 1
            return "negb (%s)" % self.parse_not()
        return self.parse_atom()

    def pattern(self):
        """pat ::= 'a' | 'a'..='b'   ->  Coq bool expr over c"""
        m = self.rx(CHAR)
        if not m:
            raise TranslateError("pattern at %r" % self.s[self.i:self.i + 40])
        a = char_lit(m.group(1))
        if self.eat("..="):
            m2 = self.rx(CHAR)
            b = char_lit(m2.group(1))
            return "((%d <=? c) && (c <=? %d))" % (a, b)
        return "(c =? %d)" % a

    def parse_atom(self):
        v = self.var
        if self.eat("("):
            # ( 'a'..='f' ).contains(&c)   or a parenthesised expression
            save = self.i
            m = self.rx(CHAR + r"\s*\.\.=\s*" + CHAR + r"\s*\)\s*\.contains\(&" + v + r"\)")
            if m:
                return "((%d <=? c) && (c <=? %d))" % (char_lit(m.group(1)), char_lit(m.group(2)))
            self.i = save
            e = self.parse_or()
            self.expect(")")
            return e
        m = self.rx(r"matches!\(\s*" + v + r"\s*,")
        if m:
            pats = [self.pattern()]
            while self.eat("|"):
                pats.append(self.pattern())
            self.expect(")")
            return "(" + " || ".join(pats) + ")"
        m = self.rx(v + r"\.is_ascii_digit\(\)")
        if m:
            return "((48 <=? c) && (c <=? 57))"
        m = self.rx(v + r"\s*==\s*" + CHAR)
        if m:
            return "(c =? %d)" % char_lit(m.group(1))
        m = self.rx(v + r"\s*!=\s*" + CHAR)
        if m:
            return "negb (c =? %d)" % char_lit(m.group(1))
        m = self.rx(r'"((?:\\.|[^"\\])*)"\.contains\(' + v + r"\)")
        if m:
            cps = str_lit(m.group(1))
            return "(existsb (N.eqb c) [%s])" % "; ".join(map(str, cps))
        m = self.rx(r"([a-z_0-9]+)\(" + v + r"\)")
        if m:
            if m.group(1) not in self.known:
                raise TranslateError("call to unknown predicate %s" % m.group(1))
            return "%s c" % m.group(1)
        raise TranslateError("atom at %r" % self.s[self.i:self.i + 60])


def translate_bool(expr, var, known):
    p = P(expr, var, known)
    e = p.parse_or()
    p.ws()
    if p.i != len(p.s):
        raise TranslateError("trailing %r" % p.s[p.i:p.i + 40])
    return e


HEADER = "(* GENERATED by tools/gen_tables.py from %s -- do not edit *)\nFrom Coq Require Import List NArith Bool.\nImport ListNotations.\nOpen Scope N_scope.\n\n"


def gen_char_traits(repo):
    src = strip_comments(read(os.path.join(repo, "parser/src/char_traits.rs")))
    out = HEADER % "parser/src/char_traits.rs"
    known = []
    for m in re.finditer(r"pub fn (\w+)\((\w+): char\) -> (\w+) \{(.*?)\n\}", src, re.S):
        name, var, ty, body = m.group(1), m.group(2), m.group(3), m.group(4).strip()
        if ty == "bool":
            e = translate_bool(body, var, known)
            out += "Definition %s (c : N) : bool := %s.\n" % (name, e)
            known.append(name)
        elif name == "as_hex":
            arms = re.findall(CHAR + r"\s*\.\.=\s*" + CHAR + r"\s*=>\s*\(c as u32\)\s*-\s*\(" + CHAR + r" as u32\)\s*(?:\+\s*(\d+))?\s*,", body)
            if len(arms) != 3 or "unreachable!()" not in body:
                raise TranslateError("as_hex arms")
            e = "0"
            for lo, hi, base, add in reversed(arms):
                e = "if (%d <=? c) && (c <=? %d) then c - %d + %d else %s" % (char_lit(lo), char_lit(hi), char_lit(base), int(add or 0), e)
            out += "(* the final arm is unreachable!() in Rust: callers are guarded by is_hex *)\n"
            out += "Definition as_hex (c : N) : N := %s.\n" % e
            known.append(name)
        else:
            raise TranslateError("unsupported function %s" % name)
    need = ["is_z", "is_break", "is_breakz", "is_blank", "is_blank_or_breakz", "is_digit", "is_alpha", "is_hex", "as_hex",
            "is_flow", "is_bom", "is_yaml_non_break", "is_yaml_non_space", "is_anchor_char", "is_word_char", "is_uri_char", "is_tag_char"]
    for n in need:
        if n not in known:
            raise TranslateError("char_traits.rs: %s not found" % n)
    return out


def gen_escapes(repo):
    src = strip_comments(read(os.path.join(repo, "parser/src/scanner.rs")))
    m = re.search(r"fn resolve_flow_scalar_escape_sequence.*?match self\.input\.peek_nth\(1\) \{(.*?)\n            _ =>", src, re.S)
    if not m:
        raise TranslateError("escape match not found")
    table, lengths = [], []
    for arm in re.finditer(r"((?:" + CHAR + r"\s*\|?\s*)+)=>\s*(ret = [^,]+|code_length = \d+),", m.group(1)):
        keys = [char_lit(k) for k in re.findall(CHAR, arm.group(1))]
        rhs = arm.group(arm.lastindex)
        mm = re.fullmatch(r"ret = " + CHAR, rhs.strip())
        if mm:
            val = char_lit(mm.group(1))
            table += [(k, val) for k in keys]
            continue
        mm = re.fullmatch(r"ret = char::from_u32\(0x([0-9a-fA-F]+)\)\.unwrap\(\)", rhs.strip())
        if mm:
            table += [(k, int(mm.group(1), 16)) for k in keys]
            continue
        mm = re.fullmatch(r"code_length = (\d+)", rhs.strip())
        if mm:
            lengths += [(k, int(mm.group(1))) for k in keys]
            continue
        raise TranslateError("escape arm %r" % arm.group(0))
    if len(table) < 10 or len(lengths) != 3:
        raise TranslateError("escape table incomplete (%d, %d)" % (len(table), len(lengths)))
    out = HEADER % "parser/src/scanner.rs (resolve_flow_scalar_escape_sequence)"
    out += "Definition escape_table : list (N * N) :=\n  [%s].\n" % "; ".join("(%d, %d)" % kv for kv in table)
    out += "Definition code_length_table : list (N * nat) :=\n  [%s].\n" % "; ".join("(%d, %d%%nat)" % kv for kv in lengths)
    # value accumulation: value = (value << 4) + as_hex(c)
    if not re.search(r"value = \(value << 4\) \+ as_hex\(c\);", src):
        raise TranslateError("hex accumulation changed")
    return out


def gen_emitter(repo):
    src = strip_comments(read(os.path.join(repo, "saphyr/src/emitter.rs")))
    out = HEADER % "saphyr/src/emitter.rs, saphyr/src/char_traits.rs"
    m = re.search(r"fn escape_str.*?let escaped = match byte \{(.*?)_ => continue,", src, re.S)
    if not m:
        raise TranslateError("escape_str table")
    arms = re.findall(r"b" + CHAR + r'\s*=>\s*"((?:\\.|[^"\\])*)"\s*,', m.group(1))
    if len(arms) < 30:
        raise TranslateError("escape_str arms %d" % len(arms))
    out += "Definition emit_escape_table : list (N * list N) :=\n  [%s].\n" % ";\n   ".join(
        "(%d, [%s])" % (char_lit(k), "; ".join(map(str, str_lit(v)))) for k, v in arms)
    m = re.search(r"fn need_quotes\(string: &str\) -> bool \{(.*?)\n\}", src, re.S)
    if not m:
        raise TranslateError("need_quotes")
    body = m.group(1)
    ms = re.search(r"string\.starts_with\(\|character: char\| \{\s*matches!\(\s*character,(.*?)\)\s*\}\)", body, re.S)
    mc = re.search(r"string\.contains\(\|character: char\| \{\s*matches!\(character,(.*?)\)\s*\}\)", body, re.S)
    mw = re.search(r"\|\| \[(.*?)\]\s*\.contains\(&string\)", body, re.S)
    if not (ms and mc and mw):
        raise TranslateError("need_quotes parts")

    def pats(txt):
        items = []
        for a, b in re.findall(CHAR + r"(?:\s*\.\.=\s*" + CHAR + r")?", txt):
            items.append((char_lit(a), char_lit(b) if b else char_lit(a)))
        return items
    out += "Definition nq_leading : list (N * N) := [%s].\n" % "; ".join("(%d, %d)" % p for p in pats(ms.group(1)))
    out += "Definition nq_anywhere : list (N * N) := [%s].\n" % "; ".join("(%d, %d)" % p for p in pats(mc.group(1)))
    words = re.findall(r'"((?:\\.|[^"\\])*)"', mw.group(1))
    out += "Definition nq_words : list (list N) :=\n  [%s].\n" % ";\n   ".join("[%s]" % "; ".join(map(str, str_lit(w))) for w in words)
    # the remaining disjuncts, in source order
    tail = body[mw.end():]
    sw = re.findall(r"string\.starts_with\((?:'((?:\\.|[^'\\]))'|\"((?:\\.|[^\"\\])*)\")\)", tail)
    prefixes = [str_lit(a if a else b) for a, b in sw]
    out += "Definition nq_prefixes : list (list N) := [%s].\n" % "; ".join("[%s]" % "; ".join(map(str, p)) for p in prefixes)
    flags = dict(
        nq_spaces="need_quotes_spaces(string)" in body and "string.starts_with(' ') || string.ends_with(' ')" in body,
        nq_empty="string.is_empty()" in body,
        nq_i64="string.parse::<i64>().is_ok()" in tail,
        nq_f64="string.parse::<f64>().is_ok()" in tail,
        nq_resolver="!matches!(Scalar::parse_from_cow(string.into()), Scalar::String(_))" in tail,
    )
    for k, v in flags.items():
        out += "Definition %s : bool := %s.\n" % (k, "true" if v else "false")
    # literal-block character class
    ct = strip_comments(read(os.path.join(repo, "saphyr/src/char_traits.rs")))
    m = re.search(r"matches!\(character,(.*?)\)\)", ct, re.S)
    if not m:
        raise TranslateError("is_valid_literal_block_scalar")
    out += "Definition literal_block_chars : list (N * N) := [%s].\n" % "; ".join("(%d, %d)" % p for p in pats(m.group(1)))
    out += gen_emitter_guards(src)
    return out


def gen_emitter_guards(src):
    """The guards of the literal-block style (`YamlEmitter::is_literal_block`), the key forms of `emit_mapping` and the
    implicit-key length limit (`is_long_key`).  Each guard is a flag (true = the guard is in the source, in the
    shape the model mirrors) or a table; a source without them (the emitter before these fixes) gives all-false
    flags, for which the model is the old emitter and the proofs of coq/Proofs/EmitterProofs.v break."""
    out = ""

    def lits(txt):
        return "[%s]" % "; ".join(map(str, str_lit(txt)))
    m = re.search(r"fn is_literal_block\(&self, v: &str\) -> bool \{(.*?)\n    \}", src, re.S)
    body = re.sub(r"\s+", " ", m.group(1)) if m else ""
    if m and not body.strip().startswith("if !(self.multiline_strings && v.contains('\\n') && "
                                         "char_traits::is_valid_literal_block_scalar(v)) { return false; }"):
        raise TranslateError("is_literal_block: base condition")
    if m and not body.strip().endswith("true"):
        raise TranslateError("is_literal_block: final value")
    flags = dict(
        lit_guarded=bool(m),
        lit_guard_content=("let content = v.trim_start_matches('\\n'); "
                           "if content.is_empty() || content.starts_with(' ') { return false; }") in body,
        lit_guard_tail='if v.ends_with("\\n\\n") { return false; }' in body,
    )
    mr = re.search(r"if self\.level < 0 \{ return (.*?); \}", body)
    starts, prefixes = [], []
    if mr:
        e = mr.group(1)
        mm = re.fullmatch(r"((?:!v\.starts_with\(" + CHAR + r"\) && )*)!v \.lines\(\) \.any\(\|line\| (.*?)\)", e)
        if not mm:
            raise TranslateError("is_literal_block: root guard %r" % e)
        starts = [char_lit(c) for c in re.findall(r"!v\.starts_with\(" + CHAR + r"\)", mm.group(1))]
        alts = [a.strip() for a in mm.group(mm.lastindex).split("||")]
        for a in alts:
            ma = re.fullmatch(r'line\.starts_with\("((?:\\.|[^"\\])*)"\)', a)
            if not ma:
                raise TranslateError("is_literal_block: root line test %r" % a)
            prefixes.append(ma.group(1))
    # the guards this translator does not know would silently be lost: count the `return` statements
    if m and body.count("return") != sum([1, flags["lit_guard_content"], flags["lit_guard_tail"], bool(mr)]):
        raise TranslateError("is_literal_block: unknown guard")
    flags["lit_guard_root"] = bool(mr)
    for k, v in flags.items():
        out += "Definition %s : bool := %s.\n" % (k, "true" if v else "false")
    out += "Definition lit_root_bad_start : list N := [%s].\n" % "; ".join(map(str, starts))
    out += "Definition lit_root_bad_prefixes : list (list N) := [%s].\n" % "; ".join(lits(p) for p in prefixes)
    # emit_mapping: which scalar keys take the explicit form
    me = re.search(r"fn emit_mapping\(.*?let complex_key = (.*?);\n", src, re.S)
    if not me:
        raise TranslateError("emit_mapping: complex_key")
    ck = re.sub(r"\s+", " ", me.group(1))
    if ck == "matches!(k, Yaml::Mapping(_) | Yaml::Sequence(_))":
        k_lit = k_long = False
    else:
        mk = re.fullmatch(r"match \*k \{ Yaml::Mapping\(_\) \| Yaml::Sequence\(_\) => true, "
                          r"Yaml::Value\(Scalar::String\(ref s\)\) => \{? ?(.*?) ?\}?,? _ => false, \}", ck)
        if not mk:
            raise TranslateError("emit_mapping: complex_key %r" % ck)
        terms = [t.strip() for t in mk.group(1).split("||")]
        if any(t not in ("self.is_literal_block(s)", "is_long_key(s)") for t in terms):
            raise TranslateError("emit_mapping: complex_key terms %r" % terms)
        k_lit, k_long = "self.is_literal_block(s)" in terms, "is_long_key(s)" in terms
    out += "Definition key_explicit_literal : bool := %s.\n" % ("true" if k_lit else "false")
    out += "Definition key_explicit_long : bool := %s.\n" % ("true" if k_long else "false")
    # is_long_key
    mc = re.search(r"const MAX_IMPLICIT_KEY_LEN: usize = (\d+);", src)
    ml = re.search(r"fn is_long_key\(string: &str\) -> bool \{(.*?)\n\}", src, re.S)
    if k_long:
        if not (mc and ml):
            raise TranslateError("is_long_key")
        lb = re.sub(r"\s+", " ", ml.group(1)).strip()
        mm = re.fullmatch(r"if string\.len\(\) <= \(MAX_IMPLICIT_KEY_LEN - (\d+)\) / (\d+) \{ return false; \} "
                          r"if need_quotes\(string\) \{ let mut escaped = String::new\(\); "
                          r"escape_str\(&mut escaped, string\)\.is_err\(\) \|\| escaped\.chars\(\)\.count\(\) > MAX_IMPLICIT_KEY_LEN "
                          r"\} else \{ string\.chars\(\)\.count\(\) > MAX_IMPLICIT_KEY_LEN \}", lb)
        if not mm:
            raise TranslateError("is_long_key body %r" % lb)
        out += "Definition emit_key_max : N := %s.\nDefinition emit_key_quotes : N := %s.\nDefinition emit_key_esc_max : N := %s.\n" % (
            mc.group(1), mm.group(1), mm.group(2))
    else:
        out += "Definition emit_key_max : N := 0.\nDefinition emit_key_quotes : N := 0.\nDefinition emit_key_esc_max : N := 1.\n"
    return out


def gen_resolver(repo):
    out = HEADER % "saphyr/src/scalar.rs, saphyr/src/loader.rs"
    sc = strip_comments(read(os.path.join(repo, "saphyr/src/scalar.rs")))
    ld = strip_comments(read(os.path.join(repo, "saphyr/src/loader.rs")))
    m = re.search(r"pub\(crate\) fn parse_f64\(v: &str\) -> Option<f64> \{\s*match v \{(.*?)\n    \}", ld, re.S)
    if not m:
        raise TranslateError("parse_f64")
    arms = re.findall(r"((?:\"[^\"]*\"\s*\|?\s*)+)=>\s*Some\(f64::(\w+)\)", m.group(1))
    names = {"INFINITY": "f64_pos_inf_words", "NEG_INFINITY": "f64_neg_inf_words", "NAN": "f64_nan_words"}
    seen = set()
    for lits, kind in arms:
        ws = re.findall(r'"([^"]*)"', lits)
        out += "Definition %s : list (list N) := [%s].\n" % (names[kind], "; ".join("[%s]" % "; ".join(map(str, str_lit(w))) for w in ws))
        seen.add(kind)
    if seen != set(names):
        raise TranslateError("parse_f64 arms")
    mg = re.search(r"_ if v\.bytes\(\)\.all\(\|b\| matches!\(b, (.*?)\)\) =>", m.group(1), re.S)
    if mg:
        items = []
        for a, b in re.findall(r"b" + CHAR + r"(?:\s*\.\.=\s*b" + CHAR + r")?", mg.group(1)):
            items.append((char_lit(a), char_lit(b) if b else char_lit(a)))
        out += "Definition f64_guard_chars : list (N * N) := [%s].\n" % "; ".join("(%d, %d)" % p for p in items)
        out += "Definition f64_guarded : bool := true.\n"
    else:
        out += "Definition f64_guard_chars : list (N * N) := [].\nDefinition f64_guarded : bool := false.\n"
    m = re.search(r"pub fn parse_from_cow\(v: Cow<'input, str>\) -> Self \{(.*?)\n    \}", sc, re.S)
    if not m:
        raise TranslateError("parse_from_cow")
    body = m.group(1)
    mm = re.search(r"match &\*v \{(.*?)_ =>", body, re.S)
    for lits, rhs in re.findall(r"((?:\"[^\"]*\"\s*\|?\s*)+)=>\s*Self::(\w+(?:\(\w+\))?)", mm.group(1)):
        ws = re.findall(r'"([^"]*)"', lits)
        nm = {"Null": "null_words", "Boolean(true)": "true_words", "Boolean(false)": "false_words"}.get(rhs)
        if nm is None:
            raise TranslateError("parse_from_cow arm %s" % rhs)
        out += "Definition %s : list (list N) := [%s].\n" % (nm, "; ".join("[%s]" % "; ".join(map(str, str_lit(w))) for w in ws))
    prefixes = re.findall(r'strip_prefix\((?:"([^"]*)"|\'([^\']*)\')\)\s*\{\s*if let Some\(i\) = parse_unsigned\(number, (\d+)\)', body)
    if len(prefixes) != 3:
        raise TranslateError("parse_from_cow prefixes %r" % prefixes)
    out += "Definition int_prefixes : list (list N * N) := [%s].\n" % "; ".join(
        "([%s], %s)" % ("; ".join(map(str, str_lit(a or b))), r) for a, b, r in prefixes)
    # tagged dispatch literals
    m = re.search(r'"null" => match v\.as_ref\(\) \{\s*((?:"[^"]*"\s*\|?\s*)+)=> Some\(Self::Null\)', sc)
    if not m:
        raise TranslateError("tagged null")
    ws = re.findall(r'"([^"]*)"', m.group(1))
    out += "Definition tagged_null_words : list (list N) := [%s].\n" % "; ".join("[%s]" % "; ".join(map(str, str_lit(w))) for w in ws)
    m = re.search(r'if handle == "([^"]*)"', sc)
    out += "Definition core_tag_prefix : list N := [%s].\n" % "; ".join(map(str, str_lit(m.group(1))))
    return out


# ---------------------------------------------------------------- the scanner's dispatcher
DISPATCH_ACTIONS = [
    (r"self\.fetch_flow_collection_start\(TokenType::FlowSequenceStart\)", "DFlowStart true"),
    (r"self\.fetch_flow_collection_start\(TokenType::FlowMappingStart\)", "DFlowStart false"),
    (r"self\.fetch_flow_collection_end\(TokenType::FlowSequenceEnd\)", "DFlowEnd true"),
    (r"self\.fetch_flow_collection_end\(TokenType::FlowMappingEnd\)", "DFlowEnd false"),
    (r"self\.fetch_flow_entry\(\)", "DFlowEntry"),
    (r"self\.fetch_block_entry\(\)", "DBlockEntry"),
    (r"self\.fetch_key\(\)", "DKey"),
    (r"self\.fetch_value\(\)", "DValue"),
    (r"self\.fetch_flow_value\(\)", "DFlowValue"),
    (r"self\.fetch_anchor\(true\)", "DAnchor true"),
    (r"self\.fetch_anchor\(false\)", "DAnchor false"),
    (r"self\.fetch_tag\(\)", "DTag"),
    (r"self\.fetch_block_scalar\(true\)", "DBlockScalar true"),
    (r"self\.fetch_block_scalar\(false\)", "DBlockScalar false"),
    (r"self\.fetch_flow_scalar\(true\)", "DFlowScalar true"),
    (r"self\.fetch_flow_scalar\(false\)", "DFlowScalar false"),
    (r"self\.fetch_plain_scalar\(\)", "DPlain"),
    (r"Err\(ScanError::new\(\s*self\.mark,\s*format!\(\"unexpected character: `\{c\}'\"\),?\s*\)\)", "DUnexpected"),
]
DISPATCH_ATOMS = [
    (r"is_blank_or_breakz\(nc\)", "is_blank_or_breakz nc"),
    (r"is_flow\(nc\)", "is_flow nc"),
    (r"self\.flow_level > 0", "fl"),
    (r"self\.flow_level == 0", "negb fl"),
    (r"self\.mark\.index == self\.adjacent_value_allowed_at", "adj"),
]


def dispatch_guard(g):
    """guard of a match arm -> Coq bool expression over nc, fl (flow_level > 0), adj (index == adjacent_value_allowed_at)"""
    toks = []
    i = 0
    g = g.strip()
    while i < len(g):
        if g[i].isspace():
            i += 1
            continue
        for op in ("&&", "||", "!", "(", ")"):
            if g.startswith(op, i) and not (op == "!" and g.startswith("!=", i)):
                toks.append(op)
                i += len(op)
                break
        else:
            for pat, coq in DISPATCH_ATOMS:
                m = re.match(pat, g[i:])
                if m:
                    toks.append(("atom", coq))
                    i += len(m.group(0))
                    break
            else:
                raise TranslateError("dispatcher guard atom at %r" % g[i:i + 50])
    pos = [0]

    def peek():
        return toks[pos[0]] if pos[0] < len(toks) else None

    def eat():
        pos[0] += 1
        return toks[pos[0] - 1]

    def p_or():
        a = p_and()
        while peek() == "||":
            eat()
            a = "(%s || %s)" % (a, p_and())
        return a

    def p_and():
        a = p_not()
        while peek() == "&&":
            eat()
            a = "(%s && %s)" % (a, p_not())
        return a

    def p_not():
        t = peek()
        if t == "!":
            eat()
            return "negb (%s)" % p_not()
        if t == "(":
            eat()
            a = p_or()
            if eat() != ")":
                raise TranslateError("dispatcher guard: ')' expected")
            return a
        if isinstance(t, tuple):
            eat()
            return "(%s)" % t[1]
        raise TranslateError("dispatcher guard: unexpected %r" % (t,))
    e = p_or()
    if pos[0] != len(toks):
        raise TranslateError("dispatcher guard: trailing tokens in %r" % g)
    return e


def gen_dispatch(repo):
    """Scanner::fetch_next_token: the `match c { ... }` that decides, from the next two characters, the flow level and
    the adjacent-value position, which fetch_* function runs.  Rust `match` takes the FIRST arm whose pattern and guard
    hold, so the arms become a Coq if-chain in source order."""
    s = strip_comments(read(os.path.join(repo, "parser/src/scanner.rs")))
    m = re.search(r"pub fn fetch_next_token\(&mut self\) -> ScanResult \{", s)
    if not m:
        raise TranslateError("fetch_next_token not found")
    body = s[m.end():]
    m2 = re.search(r"let c = self\.input\.peek\(\);\s*let nc = self\.input\.peek_nth\(1\);\s*match c \{", body)
    if not m2:
        raise TranslateError("fetch_next_token: `let c = peek(); let nc = peek_nth(1); match c {` not found")
    i = m2.end()
    depth, j = 1, i
    while depth:
        ch = body[j]
        if ch == "'":                       # skip a char literal (it may be '{' or '}')
            mm = re.match(CHAR, body[j:])
            if not mm:
                raise TranslateError("dispatcher: char literal at %r" % body[j:j + 10])
            j += len(mm.group(0))
            continue
        if ch == '"':
            mm = re.match(r'"(?:\\.|[^"\\])*"', body[j:])
            j += len(mm.group(0))
            continue
        depth += ch == "{"
        depth -= ch == "}"
        j += 1
    arms_src = body[i:j - 1]
    # split into arms: pattern [if guard] => action (a block or an expression up to the ',' at depth 0)
    arms = []
    k = 0
    n = len(arms_src)
    while True:
        while k < n and arms_src[k].isspace():
            k += 1
        if k >= n:
            break
        # pattern
        pats = []
        while True:
            mm = re.match(r"\s*" + CHAR, arms_src[k:])
            if mm:
                pats.append(char_lit(mm.group(1)))
                k += len(mm.group(0))
            else:
                mm = re.match(r"\s*_", arms_src[k:])
                if not mm:
                    raise TranslateError("dispatcher: pattern at %r" % arms_src[k:k + 40])
                pats = None
                k += len(mm.group(0))
            mm = re.match(r"\s*\|(?!\|)", arms_src[k:])
            if mm and pats is not None:
                k += len(mm.group(0))
                continue
            break
        guard = None
        mm = re.match(r"\s*if\b", arms_src[k:])
        if mm:
            k += len(mm.group(0))
            e = arms_src.index("=>", k)
            guard = arms_src[k:e]
            k = e
        mm = re.match(r"\s*=>\s*", arms_src[k:])
        if not mm:
            raise TranslateError("dispatcher: '=>' expected at %r" % arms_src[k:k + 40])
        k += len(mm.group(0))
        # action
        if arms_src[k] == "{":
            d, e = 1, k + 1
            while d:
                d += arms_src[e] == "{"
                d -= arms_src[e] == "}"
                e += 1
            action = arms_src[k + 1:e - 1].strip()
            k = e
            mm = re.match(r"\s*,", arms_src[k:])
            if mm:
                k += len(mm.group(0))
        else:
            d, e = 0, k
            while e < n and not (arms_src[e] == "," and d == 0):
                if arms_src[e] == "`":                     # the message text `{c}'
                    pass
                d += arms_src[e] in "({["
                d -= arms_src[e] in ")}]"
                e += 1
            action = arms_src[k:e].strip()
            k = e + 1
        act = None
        for pat, coq in DISPATCH_ACTIONS:
            if re.fullmatch(pat, action):
                act = coq
                break
        if act is None:
            raise TranslateError("dispatcher: action %r" % action[:80])
        arms.append((pats, dispatch_guard(guard) if guard is not None else None, act))
    if not arms or arms[-1][0] is not None or arms[-1][1] is not None:
        raise TranslateError("dispatcher: the last arm must be the unguarded wildcard")
    out = HEADER % "parser/src/scanner.rs (Scanner::fetch_next_token, the `match c` dispatcher)"
    out += "Require Import CharTraits.\n"
    out += ("Inductive dact := DFlowStart (seq : bool) | DFlowEnd (seq : bool) | DFlowEntry | DBlockEntry | DKey | DValue\n"
            "  | DFlowValue | DAnchor (alias : bool) | DTag | DBlockScalar (literal : bool) | DFlowScalar (single : bool) | DPlain\n"
            "  | DUnexpected.\n\n")
    out += "(* c, nc: the next two characters; fl: flow_level > 0; adj: mark.index == adjacent_value_allowed_at *)\n"
    out += "Definition dispatch (c nc : N) (fl adj : bool) : dact :=\n"
    for pats, guard, act in arms[:-1]:
        if pats is None:
            cond = "true"
        else:
            cond = " || ".join("(c =? %d)" % p for p in pats)
            if len(pats) > 1:
                cond = "(%s)" % cond
        if guard is not None:
            cond = "%s && %s" % (cond, guard)
        out += "  if %s then %s else\n" % (cond, act)
    out += "  %s.\n" % arms[-1][2]
    out += "\nDefinition dispatch_arms : nat := %d.\n" % len(arms)
    return out


# ---------------------------------------------------------------- the parser's node dispatcher
NODE_TOKENS = {"BlockEntry": "KBlockEntry", "Scalar(..)": "KScalar", "FlowSequenceStart": "KFlowSequenceStart",
               "FlowMappingStart": "KFlowMappingStart", "BlockSequenceStart": "KBlockSequenceStart",
               "BlockMappingStart": "KBlockMappingStart"}
NODE_KINDS = ["KBlockEntry", "KScalar", "KFlowSequenceStart", "KFlowMappingStart", "KBlockSequenceStart", "KBlockMappingStart",
              "KOther"]
NODE_GUARDS = {"indentless_sequence": "indentless", "block": "block", "tag.is_some() || anchor_id > 0": "props"}


def gen_parse_node(repo):
    """Parser::parse_node, second `match *self.peek_token()?`: which token (with which guard) starts which kind of node
    and which state follows.  First matching arm wins, so the arms become one if-chain per token kind."""
    s = strip_comments(read(os.path.join(repo, "parser/src/parser.rs")))
    m = re.search(r"fn parse_node<'a>\(&mut self, block: bool, indentless_sequence: bool\) -> ParseResult<'a>", s)
    if not m:
        raise TranslateError("parse_node not found")
    body = s[m.end():]
    heads = [x.start() for x in re.finditer(r"match \*self\.peek_token\(\)\? \{", body)]
    if len(heads) < 2:
        raise TranslateError("parse_node: the two `match *self.peek_token()?` not found")
    i = body.index("{", heads[1]) + 1
    depth, j = 1, i
    while depth:
        depth += body[j] == "{"
        depth -= body[j] == "}"
        j += 1
    src = body[i:j - 1]
    arms = []
    k = 0
    while True:
        mm = re.match(r"\s*Token\(\s*(\w+)\s*,\s*(TokenType::(\w+(?:\(\.\.\))?)|_)\s*\)\s*(?:if ([^=]+?))?\s*=>\s*", src[k:])
        if not mm:
            if src[k:].strip():
                raise TranslateError("parse_node: arm at %r" % src[k:k + 60])
            break
        k += len(mm.group(0))
        tok = mm.group(3) if mm.group(3) else "_"
        guard = mm.group(4).strip() if mm.group(4) else None
        if src[k] == "{":
            d, e = 1, k + 1
            while d:
                d += src[e] == "{"
                d -= src[e] == "}"
                e += 1
            action = src[k + 1:e - 1]
            k = e
        else:
            d, e = 0, k
            while e < len(src) and not (src[e] == "," and d == 0):
                d += src[e] in "({["
                d -= src[e] in ")}]"
                e += 1
            action = src[k:e]
            k = e
        mm = re.match(r"\s*,", src[k:])
        if mm:
            k += len(mm.group(0))
        a = " ".join(action.split())
        st = re.search(r"self\.state = State::(\w+);", a)
        if st and "Event::SequenceStart(anchor_id, tag)" in a:
            act = "NSeq S%s" % st.group(1)
        elif st and "Event::MappingStart(anchor_id, tag)" in a:
            act = "NMap S%s" % st.group(1)
        elif "self.pop_state();" in a and "Event::Scalar(v, style, anchor_id, tag)" in a and "self.fetch_token()" in a:
            act = "NScalar"
        elif "self.pop_state();" in a and "Event::empty_scalar_with_anchor(anchor_id, tag)" in a:
            act = "NEmpty"
        elif a.startswith("Err(ScanError::new_str(") and "did not find expected node content" in a:
            act = "NError"
        else:
            raise TranslateError("parse_node: action %r" % a[:100])
        if tok != "_" and tok not in NODE_TOKENS:
            raise TranslateError("parse_node: token pattern %r" % tok)
        if guard is not None and guard not in NODE_GUARDS:
            raise TranslateError("parse_node: guard %r" % guard)
        arms.append((tok, guard, act))
    if not arms or arms[-1][:2] != ("_", None):
        raise TranslateError("parse_node: the last arm must be the unguarded wildcard")
    out = HEADER % "parser/src/parser.rs (Parser::parse_node, the node-content `match`)"
    out += "Require Import Parser.\n"
    out += "Inductive nkind := %s.\n" % " | ".join(NODE_KINDS)
    out += "Inductive nact := NSeq (next : pstate) | NMap (next : pstate) | NScalar | NEmpty | NError.\n\n"
    out += ("(* k: kind of the next token; block, indentless: the two parameters of parse_node; props: a tag or an anchor\n"
            "   has been read in front of the node *)\n")
    out += "Definition node_dispatch (k : nkind) (block indentless props : bool) : nact :=\n  match k with\n"
    for kind in NODE_KINDS:
        chain = []
        for tok, guard, act in arms:
            if tok == "_" or NODE_TOKENS[tok] == kind:
                chain.append((NODE_GUARDS[guard] if guard else None, act))
                if guard is None:
                    break
        txt = ""
        for g, act in chain[:-1]:
            txt += "if %s then %s else " % (g, act)
        txt += chain[-1][1]
        out += "  | %s => %s\n" % (kind, txt)
    out += "  end.\n"
    return out


def gen_consts(repo):
    out = HEADER % "parser/src/input/buffered.rs, parser/src/scanner.rs, saphyr/src/encoding.rs"
    b = read(os.path.join(repo, "parser/src/input/buffered.rs"))
    m = re.search(r"const BUFFER_LEN: usize = (\d+);", b)
    if not m:
        raise TranslateError("BUFFER_LEN")
    out += "Definition BUFFER_LEN : nat := %s%%nat.\n" % m.group(1)
    s = strip_comments(read(os.path.join(repo, "parser/src/scanner.rs")))
    # the whole guard of stale_simple_keys, not only its number: which of the two tests (one line, 1024 characters) apply
    # where is what the model's stale_simple_keys transcribes
    m = re.search(r"if sk\.possible\s*&& self\.flow_level == 0\s*&& \(sk\.mark\.line < self\.mark\.line \|\| "
                  r"sk\.mark\.index \+ (\d+) < self\.mark\.index\)\s*\{", s)
    if not m:
        raise TranslateError("stale_simple_keys: the guard `sk.possible && self.flow_level == 0 && (sk.mark.line < self.mark.line "
                             "|| sk.mark.index + N < self.mark.index)` was not found in this form")
    m2 = re.search(r"sk\.mark\.index \+ (\d+) < start_mark\.index", s)
    if not m2 or m2.group(1) != m.group(1):
        raise TranslateError("simple key limit of the flow-sequence pair (fetch_value) differs from stale_simple_keys")
    out += "Definition SIMPLE_KEY_MAX : N := %s.\n" % m.group(1)
    m = re.search(r"flow_level: (u\d+),", s)
    if not m:
        raise TranslateError("flow_level type")
    out += "Definition FLOW_LEVEL_MAX : N := %d.\n" % (2 ** int(m.group(1)[1:]) - 1)
    m = re.search(r"const BLOCK_NESTING_MAX: usize = (\d+);", s)
    if not m or not re.search(r"if self\.indents\.len\(\) >= BLOCK_NESTING_MAX \{\s*return Err\(", s):
        raise TranslateError("block nesting limit (BLOCK_NESTING_MAX and its guard in roll_indent)")
    out += "Definition BLOCK_NESTING_MAX : N := %s.\n" % m.group(1)
    m = re.search(r"if length \+ 1 > (\d+) \{", s)
    if not m:
        raise TranslateError("version digits")
    out += "Definition VERSION_DIGITS_MAX : N := %s.\n" % m.group(1)
    e = strip_comments(read(os.path.join(repo, "saphyr/src/encoding.rs")))
    m = re.search(r"output\.reserve\(std::cmp::max\(input\.len\(\) / (\d+), (\d+)\)\);", e)
    if m:
        out += "Definition RESERVE_DIV : N := %s.\nDefinition RESERVE_MIN : N := %s.\n" % (m.group(1), m.group(2))
    else:
        m = re.search(r"output\.reserve\(input\.len\(\) / (\d+)\);", e)
        if not m:
            raise TranslateError("decode_loop reserve step")
        out += "Definition RESERVE_DIV : N := %s.\nDefinition RESERVE_MIN : N := 0.\n" % m.group(1)
    return out


def main():
    repo, outdir = sys.argv[1], sys.argv[2]
    os.makedirs(outdir, exist_ok=True)
    gens = [("CharTraits.v", gen_char_traits), ("Escapes.v", gen_escapes), ("EmitterTables.v", gen_emitter),
            ("ResolverTables.v", gen_resolver), ("Consts.v", gen_consts), ("Dispatch.v", gen_dispatch), ("ParseNode.v", gen_parse_node)]
    rc = 0
    for fname, fn in gens:
        try:
            txt = fn(repo)
        except (TranslateError, AttributeError, OSError) as e:
            print("translator: %s: %s" % (fname, e))
            rc = 1
            continue
        p = os.path.join(outdir, fname)
        old = read(p) if os.path.exists(p) else None
        if old != txt:
            with open(p, "w", encoding="utf-8") as f:
                f.write(txt)
            print("translator: %s regenerated" % fname)
    sys.exit(rc)


if __name__ == "__main__":
    main()
