#!/usr/bin/env python3
"""Regenerates the machine-made tables of DESIGN.md (between the markers BEGIN/END GENERATED …):
   - the seeded-changes table from seeded/*/meta.json
   - the theorem inventory from coq/Properties/*.v
   - the findings list from known_findings*.jsonl"""
import glob
import json
import os
import re

V = os.path.dirname(os.path.dirname(os.path.abspath(__file__)))


def seeded_table():
    rows = ["| seeded change | property | what it does / what it needs | confirmed (suite passes, demo fails, demo passes w/o) | caught by (quick tier) |",
            "|---|---|---|---|---|"]
    for f in sorted(glob.glob(os.path.join(V, "seeded", "*", "meta.json"))):
        d = json.load(open(f))
        c = d.get("confirmation") or {}
        ok = c.get("suite_passes_with_patch") and c.get("demo_fails_with_patch") and c.get("demo_passes_without_patch")
        what = (d.get("summary") or "").replace("|", "/").replace("\n", " ")
        need = (d.get("needs_to_manifest") or "").replace("|", "/").replace("\n", " ")
        res = d.get("results", {})
        caught = ", ".join(sorted(k for k, r in res.items() if r.get("rc") == 1)) or "**none**"
        missed = ", ".join(sorted(k for k, r in res.items() if r.get("rc") == 0))
        if d.get("obsolete"):
            caught = "— (obsolete: no longer a violation)"
            missed = ""
        rows.append("| %s | %s | %s — *needs:* %s | %s | %s%s |" % (
            os.path.basename(os.path.dirname(f)), d.get("property"), what[:260], need[:260],
            "obsolete" if d.get("obsolete") else "yes" if ok else "see meta.json",
            caught, (" (ran, silent: %s)" % missed) if missed else ""))
    return "\n".join(rows)


def theorem_inventory():
    rows = ["| property | theorems in coq/Properties (each `Closed under the global context`) |", "|---|---|"]
    for f in sorted(glob.glob(os.path.join(V, "coq", "Properties", "C*.v"))):
        src = re.sub(r"\(\*.*?\*\)", "", open(f).read(), flags=re.S)
        ths = re.findall(r"^\s*(?:Theorem|Corollary)\s+([A-Za-z0-9_']+)", src, re.M)
        rows.append("| %s | %s |" % (os.path.basename(f)[:-2], ", ".join("`%s`" % t for t in ths)))
    return "\n".join(rows)


def findings():
    rows = []
    for f in sorted(glob.glob(os.path.join(V, "known_findings*.jsonl"))):
        for l in open(f):
            l = l.strip()
            if not l:
                continue
            d = json.loads(l)
            st = d.get("status")
            if st == "fixed":
                rows.append("* %s" % d.get("what"))
            else:
                w = d.get("witness")
                rows.append("* known: property=%s class=%s — %s (witness: %s)" % (
                    d.get("property"), d.get("class"), (d.get("what") or "").replace("\n", " "), json.dumps(w)[:160]))
    return "\n".join(rows)


def main():
    p = os.path.join(V, "DESIGN.md")
    s = open(p).read()
    for name, fn in (("SEEDED", seeded_table), ("THEOREMS", theorem_inventory), ("FINDINGS", findings)):
        b, e = "<!-- BEGIN GENERATED %s -->" % name, "<!-- END GENERATED %s -->" % name
        if b in s and e in s:
            i, j = s.index(b) + len(b), s.index(e)
            s = s[:i] + "\n" + fn() + "\n" + s[j:]
    open(p, "w").write(s)


if __name__ == "__main__":
    main()
