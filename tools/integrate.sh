#!/bin/sh
# tools/integrate.sh <scratch-name> <relative file>...   copy an agent's deliverables from /root/scratch/w_<name> into /verif
set -eu
W=/root/scratch/w_$1; shift
for f in "$@"; do mkdir -p "/verif/$(dirname "$f")"; cp "$W/$f" "/verif/$f"; echo "  <- $f"; done
