#!/bin/sh
# tools/mutrun.sh <name> <patch.diff> <check-id>...
# Evaluate checks against a MUTATED COPY of /repo without touching /repo itself: a scratch worktree of /repo gets the
# patch, a scratch copy of /verif is pointed at it (VERIF_REPO + harness path deps), and the listed checks run there.
# Prints one line per check: "<id> rc=<n> <VIOLATION/KNOWN lines>".  Everything is removed afterwards.
set -u
name=$1; patch=$2; shift 2
R=/tmp/mr/$name; V=/tmp/mv/$name
rm -rf "$V"; git -C /repo worktree remove --force "$R" 2>/dev/null; rm -rf "$R"
mkdir -p /tmp/mr /tmp/mv
git -C /repo worktree add -q --detach "$R" HEAD || exit 2
if ! git -C "$R" apply "$patch"; then echo "PATCH-DOES-NOT-APPLY"; git -C /repo worktree remove --force "$R"; exit 2; fi
rsync -a --exclude build --exclude .git --exclude replays /verif/ "$V"/
sed -i "s#/repo/#$R/#g" "$V/harness/Cargo.toml"
sed -i "s#/verif/build/cargo#$V/build/cargo#" "$V/harness/.cargo/config.toml"
cp "$R/Cargo.lock" "$V/harness/Cargo.lock" 2>/dev/null
cd "$V" || exit 2
for c in "$@"; do
  out=$(VERIF_REPO=$R timeout 3000 ./check "$c" quick 2>&1); rc=$?
  echo "$c rc=$rc $(echo "$out" | grep -E '^VIOLATION' | head -2 | tr '\n' ' ')"
  if [ $rc -ne 0 ]; then
    rp=$(echo "$out" | grep -E '^VIOLATION' | head -1 | sed 's/.*replay=\([^ ]*\).*/\1/')
    [ -n "$rp" ] && [ -f "$V/$rp" ] && mkdir -p /verif/build/mutreplays && cp "$V/$rp" "/verif/build/mutreplays/$name-$c.json"
  fi
done
cd /; rm -rf "$V"; git -C /repo worktree remove --force "$R" 2>/dev/null; rm -rf "$R"
