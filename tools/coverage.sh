#!/bin/sh
# tools/coverage.sh <check-id>...   (diagnostic, not a registered command)
# Which source lines of /repo do the generators of the given checks reach?  Builds the harness with source-based coverage
# (nightly toolchain: llvm-tools), runs each check's quick tier, merges the profiles and prints the per-file summary
# plus every function of the anchored files that was never entered.  Output: build/cov/report.txt, build/cov/uncovered.txt
cd "$(dirname "$0")/.." || exit 2
B=build/cov; mkdir -p $B/prof; rm -f $B/prof/*.profraw
LT=$(dirname "$(rustup which --toolchain nightly rustc)")/../lib/rustlib/x86_64-unknown-linux-gnu/bin
for c in "$@"; do VERIF_COVERAGE=1 ./check "$c" quick >/dev/null 2>$B/$c.err; echo "$c rc=$?"; done
$LT/llvm-profdata merge -sparse $B/prof/*.profraw -o $B/all.profdata || exit 2
OBJS=""; for b in $B/debug/hx $B/debug/hx_c*; do [ -x "$b" ] && [ ! -d "$b" ] && case "$b" in *.d) ;; *) OBJS="$OBJS -object $b";; esac; done
OBJS=$(echo "$OBJS" | sed 's/^ -object //')
$LT/llvm-cov report $OBJS -instr-profile=$B/all.profdata /repo/parser/src /repo/saphyr/src > $B/report.txt 2>$B/report.err
$LT/llvm-cov show $OBJS -instr-profile=$B/all.profdata /repo/parser/src /repo/saphyr/src -show-line-counts-or-regions -show-branches=count > $B/show.txt 2>>$B/report.err
cat $B/report.txt
